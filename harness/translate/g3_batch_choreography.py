"""G3 (batch part) — Python-AST -> Lean translator for the shape choreographies of C08.

Reads from `$VERIF_REPO` the *sequences of tensor-shape operations* by which batched parameters meet batched data and
writes them to `lean/GPVerif/Gen/BatchChoreo.lean` as op lists of `GPVerif/Model/ChoreoIR.lean`:

  kernels/rbf_kernel.py        RBFKernel.forward            x1.div(self.lengthscale)             -> lengthscaleDivOps
  kernels/kernel.py            Kernel.__init__              raw_lengthscale shape (*batch, 1, d) -> lengthscaleTail
  kernels/scale_kernel.py      ScaleKernel.forward          full / diag branches                 -> scaleFullOps, scaleDiagOps
  kernels/rq_kernel.py         RQKernel.forward             alpha unsqueeze loop                 -> rqUnsqueezeCount, rqAlphaOps
  means/constant_mean.py       ConstantMean.forward                                              -> constantMeanOps
  likelihoods/noise_models.py  _HomoskedasticNoiseBase.forward (num_tasks == 1 path)             -> homoNoiseOps
  mlls/exact_marginal_log_likelihood.py  _add_other_terms   prior reduction                      -> exactPriorOps
  mlls/_approximate_mll.py     _ApproximateMarginalLogLikelihood.forward  prior reduction        -> approxPriorOps
  mlls/sum_marginal_log_likelihood.py    SumMarginalLogLikelihood.forward                        -> sumMllOps
  models/model_list.py         IndependentModelList.forward / __call__                           -> modelListForwardForm / CallForm
  models/model_list.py         IndependentModelList.train_inputs / train_targets (decorator + body)  -> modelListTrainInputs / Targets
  mlls/leave_one_out_pseudo_likelihood.py  forward: `num_data = …; return res.div_(num_data) - c`     -> looNormaliser
  mlls/exact_marginal_log_likelihood.py    forward: `num_data = …; return res.div_(num_data)`         -> exactNormaliser
  models/exact_prediction_strategies.py    'fill' branches of _mean_cache / _exact_predictive_covar_missing_obs,
  likelihoods/gaussian_likelihood.py       'fill' branches of expected_log_prob / log_marginal: the missing mask
                                                                                                   -> *FillMask (MaskE)

Vocabulary of tensor method chains: `unsqueeze(c)`, `view(*S, lits…)`, `view(*x.shape[:n], -1)`, `expand(*S, lits…)`,
`expand(S)`, `contiguous()`, `sum(dim=-1)` / `sum(-1)`, `sum(dim=tuple(range(n, x.ndim)))`; shapes `x.shape`,
`x.shape[:-k]`, `torch.broadcast_shapes(a, b)`, names bound earlier.  Anything else raises `TranslateError`.
"""
import ast
import os


class TranslateError(Exception):
    pass


def _fail(node, why):
    raise TranslateError(f"{why}: line {getattr(node, 'lineno', '?')}: {ast.unparse(node)[:200]}")


def _parse(repo, rel):
    return ast.parse(open(os.path.join(repo, rel)).read())


def _method(tree, cls, name):
    for n in tree.body:
        if isinstance(n, ast.ClassDef) and n.name == cls:
            for m in n.body:
                if isinstance(m, ast.FunctionDef) and m.name == name:
                    return m
    raise TranslateError(f"{cls}.{name} not found")


def _int(node):
    if isinstance(node, ast.Constant) and isinstance(node.value, int) and not isinstance(node.value, bool):
        return node.value
    if isinstance(node, ast.UnaryOp) and isinstance(node.op, ast.USub) and isinstance(node.operand, ast.Constant) \
            and isinstance(node.operand.value, int):
        return -node.operand.value
    return None


# ------------------------------------------------------------------ symbolic shapes

class Shapes:
    """names -> Lean `SE` text; `cur` = python text of the tensor currently being transformed"""

    def __init__(self, cur, orig=None, args=None):
        self.cur = cur            # e.g. "outputscales"
        self.orig = orig or cur   # python text of the parameter before the first op
        self.args = args or {}    # python text -> arg index
        self.names = {}           # bound names -> SE text
        self.touched = False      # has the current tensor been transformed already?

    def se(self, node):
        src = ast.unparse(node)
        if src in self.args:
            return f"(.arg {self.args[src]})"
        if isinstance(node, ast.Name) and node.id in self.names:
            return self.names[node.id]
        # x.shape
        if isinstance(node, ast.Attribute) and node.attr == "shape":
            who = ast.unparse(node.value)
            if who == self.cur:
                return ".self"
            if who == self.orig and not self.touched:
                return ".self"
            _fail(node, "shape of an unknown tensor")
        # x.shape[:-k]
        if isinstance(node, ast.Subscript) and isinstance(node.value, ast.Attribute) and node.value.attr == "shape" \
                and isinstance(node.slice, ast.Slice) and node.slice.lower is None and node.slice.step is None:
            k = _int(node.slice.upper)
            who = ast.unparse(node.value.value)
            if k is not None and k < 0:
                if who == self.cur:
                    return f"(.selfDrop {-k})" if self.touched else f"(.origDrop {-k})"
                _fail(node, "shape slice of an unknown tensor")
        # X.shape[:-1] if X.dim() > 1 else torch.Size()   (same value for a parameter of shape (*b, 1))
        if isinstance(node, ast.IfExp) and ast.unparse(node.orelse) == "torch.Size()":
            t = node.test
            if isinstance(t, ast.Compare) and ast.unparse(t.left).endswith(".dim()") and isinstance(t.ops[0], ast.Gt) \
                    and _int(t.comparators[0]) == 1:
                return self.se(node.body)
        if isinstance(node, ast.Call) and ast.unparse(node.func) == "torch.broadcast_shapes" and len(node.args) == 2:
            return f"(.bcast {self.se(node.args[0])} {self.se(node.args[1])})"
        _fail(node, "shape expression outside vocabulary")

    def star_args(self, args, lits_env):
        """`(*S, 1, 1)` / `(S)` -> SE text"""
        parts, lits = [], []
        for a in args:
            if isinstance(a, ast.Starred):
                if lits:
                    _fail(a, "starred shape after literal dimensions")
                parts.append(self.se(a.value))
            else:
                v = _int(a)
                if v is None and isinstance(a, ast.Name) and a.id in lits_env:
                    v = lits_env[a.id]
                if v is None:
                    if not parts and not lits and len(args) == 1:
                        return self.se(a)          # expand(S)
                    _fail(a, "dimension outside vocabulary")
                lits.append(v)
        se = parts[0] if parts else None
        for p in parts[1:]:
            se = f"(.cat {se} {p})"
        if lits:
            lit = f"(.lit [{', '.join(str(v) for v in lits)}])"
            se = lit if se is None else f"(.cat {se} {lit})"
        if se is None:
            _fail(args[0] if args else ast.Constant(0), "empty shape")
        return se


def chain(node, sh, nat_args=None, lits_env=None):
    """method chain rooted at the current tensor -> list of UOp texts (innermost call first)"""
    nat_args = nat_args or {}
    lits_env = lits_env or {}
    if ast.unparse(node) in (sh.cur, sh.orig) and not isinstance(node, ast.Call):
        return []
    if not (isinstance(node, ast.Call) and isinstance(node.func, ast.Attribute)):
        _fail(node, "not a method chain on the tracked tensor")
    ops = chain(node.func.value, sh, nat_args, lits_env)
    if ops:
        sh.touched = True
    m = node.func.attr
    kw = {k.arg: k.value for k in node.keywords}
    if m == "contiguous" and not node.args and not kw:
        return ops
    if m == "unsqueeze" and len(node.args) == 1 and not kw:
        c = _int(node.args[0])
        if c is None:
            _fail(node, "unsqueeze index outside vocabulary (integer literal expected)")
        sh.touched = True
        return ops + [f".unsqueeze {-c - 1}" if c < 0 else f".unsqueezeAt {c}"]
    if m == "view" and not kw:
        # view(*x.shape[:n], -1)
        if len(node.args) == 2 and isinstance(node.args[0], ast.Starred) and _int(node.args[1]) == -1:
            inner = node.args[0].value
            if isinstance(inner, ast.Subscript) and isinstance(inner.slice, ast.Slice) and inner.slice.lower is None \
                    and inner.slice.step is None and ast.unparse(inner.value) == f"{sh.cur}.shape":
                n = ast.unparse(inner.slice.upper)
                if n in nat_args:
                    sh.touched = True
                    return ops + [f".viewKeep {nat_args[n]}"]
            _fail(node, "view(*shape[:n], -1) with an unknown n")
        se = sh.star_args(node.args, lits_env)
        sh.touched = True
        return ops + [f".view {se}"]
    if m == "expand" and not kw:
        se = sh.star_args(node.args, lits_env)
        sh.touched = True
        return ops + [f".expand {se}"]
    if m == "sum":
        d = kw.get("dim", node.args[0] if node.args else None)
        if d is None:
            _fail(node, "sum() over everything")
        if _int(d) == -1:
            sh.touched = True
            return ops + [".sumLast"]
        # tuple(range(n, x.ndim))
        if isinstance(d, ast.Call) and ast.unparse(d.func) == "tuple" and len(d.args) == 1 and isinstance(d.args[0], ast.Call) \
                and ast.unparse(d.args[0].func) == "range" and len(d.args[0].args) == 2 \
                and ast.unparse(d.args[0].args[1]) in (f"{sh.cur}.ndim", f"{sh.cur}.dim()", f"len({sh.cur}.shape)"):
            n = ast.unparse(d.args[0].args[0])
            if n in nat_args:
                sh.touched = True
                return ops + [f".sumFrom {nat_args[n]}"]
        _fail(node, "sum(dim=…) outside vocabulary")
    _fail(node, f"tensor method `{m}` outside vocabulary")


def ops_text(ops):
    return "[" + ", ".join(ops) + "]"


def is_binary(node, a, b, meths=("mul", "div"), binops=(ast.Mult, ast.Div)):
    """`A.mul(B)`, `A * B`, `to_dense(A) * B` with A, B the given python texts"""
    def strip(n):
        if isinstance(n, ast.Call) and ast.unparse(n.func) == "to_dense" and len(n.args) == 1:
            return n.args[0]
        return n
    if isinstance(node, ast.Call) and isinstance(node.func, ast.Attribute) and node.func.attr in meths and len(node.args) == 1:
        return ast.unparse(strip(node.func.value)) == a and ast.unparse(node.args[0]) == b
    if isinstance(node, ast.BinOp) and isinstance(node.op, binops):
        return ast.unparse(strip(node.left)) == a and ast.unparse(node.right) == b
    return False


# ------------------------------------------------------------------ the sites

def tr_rbf(repo):
    fn = _method(_parse(repo, "gpytorch/kernels/rbf_kernel.py"), "RBFKernel", "forward")
    found = {}
    for st in ast.walk(fn):
        if isinstance(st, ast.Assign) and len(st.targets) == 1 and ast.unparse(st.targets[0]) in ("x1_", "x2_"):
            x = ast.unparse(st.targets[0])[:-1]
            if not is_binary(st.value, x, "self.lengthscale", meths=("div",), binops=(ast.Div,)):
                _fail(st, "expected `x.div(self.lengthscale)`")
            found[x] = True
    if set(found) != {"x1", "x2"}:
        raise TranslateError("RBFKernel.forward: x1_/x2_ lengthscale division not found")
    # raw_lengthscale shape
    init = _method(_parse(repo, "gpytorch/kernels/kernel.py"), "Kernel", "__init__")
    tail = None
    for n in ast.walk(init):
        if isinstance(n, ast.Call) and ast.unparse(n.func) == "torch.zeros" and n.args and isinstance(n.args[0], ast.Starred) \
                and ast.unparse(n.args[0].value) == "self.batch_shape":
            tail = []
            for a in n.args[1:]:
                v = _int(a)
                if v is not None:
                    tail.append(f"some {v}")
                elif ast.unparse(a) == "lengthscale_num_dims":
                    tail.append("none")
                else:
                    _fail(a, "lengthscale dimension outside vocabulary")
    if tail is None:
        raise TranslateError("Kernel.__init__: raw_lengthscale shape not found")
    return {"lengthscaleDivOps": "[]", "lengthscaleTail": "[" + ", ".join(tail) + "]"}


def tr_scale(repo):
    fn = _method(_parse(repo, "gpytorch/kernels/scale_kernel.py"), "ScaleKernel", "forward")
    body = [s for s in fn.body if not (isinstance(s, ast.Expr) and isinstance(s.value, ast.Constant))]
    # orig_output = …; outputscales = self.outputscale; if last_dim_is_batch: …; if diag: … else: …
    if len(body) != 4 or ast.unparse(body[1]) != "outputscales = self.outputscale":
        _fail(fn, "ScaleKernel.forward skeleton changed")
    ldb, br = body[2], body[3]
    if not (isinstance(ldb, ast.If) and ast.unparse(ldb.test) == "last_dim_is_batch" and not ldb.orelse
            and [ast.unparse(s) for s in ldb.body] == ["outputscales = outputscales.unsqueeze(-1)"]):
        _fail(ldb, "last_dim_is_batch branch changed")
    if not (isinstance(br, ast.If) and ast.unparse(br.test) == "diag"):
        _fail(br, "diag branch not found")

    def branch(stmts):
        sh = Shapes("outputscales")
        ops = []
        for st in stmts[:-1]:
            if not (isinstance(st, ast.Assign) and ast.unparse(st.targets[0]) == "outputscales"):
                _fail(st, "expected an assignment to outputscales")
            ops += chain(st.value, sh)
        ret = stmts[-1]
        if not (isinstance(ret, ast.Return) and is_binary(ret.value, "orig_output", "outputscales", meths=("mul",), binops=(ast.Mult,))):
            _fail(ret, "expected `orig_output.mul(outputscales)` / `to_dense(orig_output) * outputscales`")
        return ops_text(ops)
    return {"scaleDiagOps": branch(br.body), "scaleFullOps": branch(br.orelse)}


def nat_expr(node, env):
    """Python int expression -> Lean Nat text"""
    if isinstance(node, ast.Name) and node.id in env:
        return env[node.id]
    v = _int(node)
    if v is not None and v >= 0:
        return str(v)
    if isinstance(node, ast.IfExp):
        t = ast.unparse(node.test)
        c = {"diag": "diag", "params.get('last_dim_is_batch', False)": "ldb", "last_dim_is_batch": "ldb"}.get(t)
        if c is None:
            _fail(node, "condition outside vocabulary")
        return f"(if {c} then {nat_expr(node.body, env)} else {nat_expr(node.orelse, env)})"
    if isinstance(node, ast.BinOp) and isinstance(node.op, (ast.Add, ast.Sub)):
        op = "+" if isinstance(node.op, ast.Add) else "-"
        return f"({nat_expr(node.left, env)} {op} {nat_expr(node.right, env)})"
    src = ast.unparse(node)
    if src in ("len(dist_mat.shape)", "dist_mat.dim()", "dist_mat.ndim"):
        return "distRank"
    if src == "len(self.batch_shape)":
        return "kbRank"
    _fail(node, "integer expression outside vocabulary")


def tr_rq(repo):
    fn = _method(_parse(repo, "gpytorch/kernels/rq_kernel.py"), "RQKernel", "forward")
    inner = [n for n in fn.body if isinstance(n, ast.FunctionDef) and n.name == "postprocess_rq"]
    if not inner:
        raise TranslateError("RQKernel.forward: postprocess_rq not found")
    env, count, seen_alpha = {}, None, False
    body = inner[0].body
    for st in body[:-1]:
        if isinstance(st, ast.Assign) and ast.unparse(st) == "alpha = self.alpha":
            seen_alpha = True
        elif isinstance(st, ast.Assign) and isinstance(st.targets[0], ast.Name):
            env[st.targets[0].id] = nat_expr(st.value, env)
        elif isinstance(st, ast.For):
            it = st.iter
            if not (isinstance(it, ast.Call) and ast.unparse(it.func) == "range" and len(it.args) == 2 and _int(it.args[0]) == 1
                    and [ast.unparse(s) for s in st.body] == ["alpha = alpha.unsqueeze(-1)"]):
                _fail(st, "alpha loop outside vocabulary (expected `for _ in range(1, N): alpha = alpha.unsqueeze(-1)`)")
            count = f"({nat_expr(it.args[1], env)}) - 1"
        else:
            _fail(st, "statement outside vocabulary")
    ret = body[-1]
    names = {n.id for n in ast.walk(ret) if isinstance(n, ast.Name)}
    if not (isinstance(ret, ast.Return) and seen_alpha and count is not None and names <= {"dist_mat", "alpha"}):
        _fail(ret, "postprocess_rq must return an elementwise expression of dist_mat and alpha")
    return {"rqUnsqueezeCount": count}


def tr_mean(repo):
    fn = _method(_parse(repo, "gpytorch/means/constant_mean.py"), "ConstantMean", "forward")
    body = [s for s in fn.body if not (isinstance(s, ast.Expr) and isinstance(s.value, ast.Constant))]
    sh = Shapes("constant", orig="self.constant", args={"input.shape[:-1]": 0})
    ops = []
    for st in body[:-1]:
        if not (isinstance(st, ast.Assign) and ast.unparse(st.targets[0]) == "constant"):
            _fail(st, "expected an assignment to constant")
        ops += chain(st.value, sh)
        sh.touched = True
    if not isinstance(body[-1], ast.Return):
        _fail(body[-1], "expected return")
    ops += chain(body[-1].value, sh)
    return {"constantMeanOps": ops_text(ops)}


def tr_noise(repo):
    fn = _method(_parse(repo, "gpytorch/likelihoods/noise_models.py"), "_HomoskedasticNoiseBase", "forward")
    sh = Shapes("noise", orig="noise", args={"batch_shape": 0})
    ops, lits_env, started, result = [], {}, False, None
    for st in fn.body:
        src = ast.unparse(st)
        if isinstance(st, ast.Expr) and isinstance(st.value, ast.Constant):
            continue
        if src == "noise = self.noise":
            started = True
            continue
        if not started:
            continue           # kwargs / shape inference preamble
        if src == "*batch_shape, n = shape":
            continue
        if isinstance(st, ast.Assign) and isinstance(st.targets[0], ast.Name):
            name = st.targets[0].id
            if name == "num_tasks":
                if src != "num_tasks = noise.shape[-1]":
                    _fail(st, "num_tasks")
                lits_env["num_tasks"] = 1          # the translated path: num_tasks == 1
                continue
            if name in ("noise_batch_shape", "batch_shape"):
                se = sh.se(st.value)
                if name == "batch_shape":
                    sh.args = {}                   # from here on `batch_shape` is the broadcast shape
                sh.names[name] = se
                continue
            if name in ("noise", "noise_diag"):
                sh.cur = "noise" if not sh.touched else sh.cur
                ops += chain(st.value, sh, lits_env=lits_env)
                sh.cur = name
                sh.touched = True
                continue
            _fail(st, "assignment outside vocabulary")
        if isinstance(st, ast.If):
            t = ast.unparse(st.test)
            if t == "num_tasks == 1" and not st.orelse:
                for s2 in st.body:
                    if not (isinstance(s2, ast.Assign) and ast.unparse(s2.targets[0]) == "noise_diag"):
                        _fail(s2, "num_tasks == 1 branch")
                    ops += chain(s2.value, sh, lits_env=lits_env)
                continue
            if t == "noise_diag.shape[-1] != 1" and not st.orelse:
                continue       # not taken on the num_tasks == 1 path (the last dimension is the literal 1)
            _fail(st, "branch outside vocabulary")
        if isinstance(st, ast.Return):
            if ast.unparse(st.value) != "ConstantDiagLinearOperator(noise_diag, diag_shape=n)":
                _fail(st, "expected ConstantDiagLinearOperator(noise_diag, diag_shape=n)")
            result = True
            continue
        _fail(st, "statement outside vocabulary")
    if not result:
        raise TranslateError("_HomoskedasticNoiseBase.forward: return not found")
    return {"homoNoiseOps": ops_text(ops)}


def tr_prior(repo, rel, cls, meth, natname, key):
    fn = _method(_parse(repo, rel), cls, meth)
    loops = [n for n in ast.walk(fn) if isinstance(n, ast.For) and "named_priors" in ast.unparse(n.iter)]
    if len(loops) != 1:
        raise TranslateError(f"{cls}.{meth}: prior loop not found")
    sh = Shapes("prior_term")
    ops, seen = [], False
    for st in loops[0].body:
        src = ast.unparse(st)
        if src == "prior_term = prior.log_prob(closure(module))":
            seen = True
            continue
        for node in ast.walk(st):
            # the maximal method chain rooted at prior_term in this statement
            pass
        if isinstance(st, ast.Assign) and ast.unparse(st.targets[0]) == "prior_term":
            ops += chain(st.value, sh, nat_args={natname: 0})
            continue
        if isinstance(st, ast.Assign) and isinstance(st.targets[0], ast.Name) and ast.unparse(st.value) == natname:
            continue
        if isinstance(st, ast.Expr) and isinstance(st.value, ast.Call) and isinstance(st.value.func, ast.Attribute) \
                and st.value.func.attr == "add_" and len(st.value.args) == 1:
            arg = st.value.args[0]
            # res.add_(<chain>)  or  log_prior.add_(prior_term.div(self.num_data))
            if isinstance(arg, ast.Call) and isinstance(arg.func, ast.Attribute) and arg.func.attr == "div" \
                    and ast.unparse(arg.args[0]) == "self.num_data":
                arg = arg.func.value
            ops += chain(arg, sh, nat_args={natname: 0})
            continue
        _fail(st, "prior loop statement outside vocabulary")
    if not seen:
        raise TranslateError(f"{cls}.{meth}: `prior_term = prior.log_prob(closure(module))` not found")
    return {key: ops_text(ops)}


def tr_sum_mll(repo):
    fn = _method(_parse(repo, "gpytorch/mlls/sum_marginal_log_likelihood.py"), "SumMarginalLogLikelihood", "forward")
    forms = set()
    ret = None
    for st in ast.walk(fn):
        if isinstance(st, ast.Assign) and isinstance(st.targets[0], ast.Name):
            v = st.value
            if isinstance(v, ast.Call) and ast.unparse(v.func) == "sum" and len(v.args) == 1 and isinstance(v.args[0], ast.GeneratorExp):
                forms.add(("pySum", st.targets[0].id))
            elif isinstance(v, ast.ListComp):
                forms.add(("list", st.targets[0].id))
        if isinstance(st, ast.Return):
            ret = st.value
    if ret is None:
        raise TranslateError("SumMarginalLogLikelihood.forward: no return")
    kinds = {k for k, _ in forms}
    names = {n for _, n in forms}
    if kinds == {"pySum"} and len(names) == 1:
        nm = names.pop()
        if ast.unparse(ret) in (f"{nm}.div_(len(self.mlls))", f"{nm}.div(len(self.mlls))", f"{nm} / len(self.mlls)"):
            return {"sumMllOps": "[.pySum, .divLen]"}
        _fail(ret, "return outside vocabulary")
    if kinds == {"list"} and len(names) == 1:
        nm = names.pop()
        if ast.unparse(ret) == f"torch.stack({nm}).mean()":
            return {"sumMllOps": "[.stack, .meanAll]"}
        _fail(ret, "return outside vocabulary")
    _fail(fn, "SumMarginalLogLikelihood.forward outside vocabulary")


def tr_model_list(repo):
    tree = _parse(repo, "gpytorch/models/model_list.py")
    out = {}
    for meth, key, callee in (("forward", "modelListForwardForm", "model.forward"), ("__call__", "modelListCallForm", "model.__call__")):
        fn = _method(tree, "IndependentModelList", meth)
        rets = [s for s in fn.body if isinstance(s, ast.Return)]
        if len(rets) != 1 or not isinstance(rets[0].value, ast.ListComp):
            _fail(fn, "expected a single list comprehension")
        lc = rets[0].value
        g = lc.generators
        ok = (len(g) == 1 and not g[0].ifs and ast.unparse(g[0].target) == "(model, args_)"
              and ast.unparse(g[0].iter) == "length_safe_zip(self.models, _get_tensor_args(*args))"
              and ast.unparse(lc.elt) == f"{callee}(*args_, **kwargs)")
        if not ok:
            _fail(lc, "list comprehension outside vocabulary")
        out[key] = ".zipCall"
    return out


# ------------------------------------------------------------------ wave 3: normalisers, fill masks, list properties

def norm_expr(node, reshaped_to_target):
    """the integer an exact objective divides by -> Lean `NormE` text"""
    src = ast.unparse(node)
    v = _int(node)
    if v is not None and v >= 0:
        return f"(.lit {v})"
    m = None
    # target.size(-k) / target.shape[-k]
    if isinstance(node, ast.Call) and isinstance(node.func, ast.Attribute) and node.func.attr == "size" \
            and ast.unparse(node.func.value) == "target" and len(node.args) == 1:
        m = _int(node.args[0])
    if isinstance(node, ast.Subscript) and ast.unparse(node.value) == "target.shape":
        m = _int(node.slice)
    if m is not None:
        if m >= 0:
            _fail(node, "target dimension counted from the front (depends on the batch rank)")
        return f"(.targetSize {-m - 1})"
    if src in ("target.numel()", "target.nelement()"):
        return ".targetNumel"
    if isinstance(node, ast.Call) and isinstance(node.func, ast.Attribute) and node.func.attr in ("numel", "nelement") \
            and not node.args and ast.unparse(node.func.value) in reshaped_to_target:
        return ".targetNumel"
    if src in ("function_dist.event_shape.numel()", "output.event_shape.numel()"):
        return ".eventNumel"
    _fail(node, "normaliser outside vocabulary")


def tr_norms(repo):
    out = {}
    for rel, cls, key, shifted in (("gpytorch/mlls/leave_one_out_pseudo_likelihood.py", "LeaveOneOutPseudoLikelihood", "looNormaliser", True),
                                   ("gpytorch/mlls/exact_marginal_log_likelihood.py", "ExactMarginalLogLikelihood", "exactNormaliser", False)):
        fn = _method(_parse(repo, rel), cls, "forward")
        reshaped, env, ret = set(), {}, None
        for st in ast.walk(fn):
            if isinstance(st, ast.Assign) and len(st.targets) == 1 and isinstance(st.targets[0], ast.Name):
                nm, v = st.targets[0].id, st.value
                # m = m.reshape(*target.shape): from here on `m` has as many entries as the target
                if isinstance(v, ast.Call) and isinstance(v.func, ast.Attribute) and v.func.attr in ("reshape", "view") \
                        and [ast.unparse(a) for a in v.args] == ["*target.shape"]:
                    reshaped.add(nm)
                if nm == "num_data":
                    env["num_data"] = v
            if isinstance(st, ast.Return):
                ret = st.value
        if ret is None:
            raise TranslateError(f"{cls}.forward: no return")
        core = ret
        if shifted:
            # res.div_(N) - <constant>
            if not (isinstance(ret, ast.BinOp) and isinstance(ret.op, ast.Sub)
                    and not any(isinstance(n, ast.Name) and n.id != "math" for n in ast.walk(ret.right))):
                _fail(ret, "expected `res.div_(num_data) - <constant>`")
            core = ret.left
        if isinstance(core, ast.Call) and isinstance(core.func, ast.Attribute) and core.func.attr in ("div_", "div") \
                and ast.unparse(core.func.value) == "res" and len(core.args) == 1:
            num = core.args[0]
        elif isinstance(core, ast.BinOp) and isinstance(core.op, ast.Div) and ast.unparse(core.left) == "res":
            num = core.right
        else:
            _fail(ret, "expected `res.div_(<normaliser>)`")
        if isinstance(num, ast.Name):
            if num.id not in env:
                _fail(num, "normaliser bound to an unknown name")
            num = env[num.id]
        out[key] = norm_expr(num, reshaped)
    return out


def _policy_branch(fn, policy):
    """statements (source order) of every `observation_nan_policy == policy` branch of `fn` (for 'fill' also a plain
    `else` after 'mask')"""
    found = []
    for n in ast.walk(fn):
        if not isinstance(n, ast.If):
            continue
        t = ast.unparse(n.test)
        if t in (f"nan_policy == '{policy}'", f"settings.observation_nan_policy.value() == '{policy}'"):
            found += n.body
        elif policy == "fill" and t in ("nan_policy == 'mask'", "settings.observation_nan_policy.value() == 'mask'") \
                and n.orelse and not (len(n.orelse) == 1 and isinstance(n.orelse[0], ast.If)):
            found += n.orelse
    if not found:
        raise TranslateError(f"{fn.name}: branch for observation_nan_policy '{policy}' not found")
    return sorted(found, key=lambda st: st.lineno)


def mask_expr(node, env, labels):
    """-> (base, negations) with base in {'isnan', 'observed'} or None when `node` is not a mask expression"""
    if isinstance(node, ast.UnaryOp) and isinstance(node.op, ast.Invert):
        r = mask_expr(node.operand, env, labels)
        return None if r is None else (r[0], r[1] + 1)
    if isinstance(node, ast.Name) and node.id in env:
        return env[node.id]
    if isinstance(node, ast.Call) and isinstance(node.func, ast.Attribute):
        f = ast.unparse(node.func)
        if node.func.attr in ("to", "float", "double", "bool", "reshape", "type_as") and not f.startswith("torch."):
            return mask_expr(node.func.value, env, labels)
        if f == "torch.isnan" and len(node.args) == 1 and ast.unparse(node.args[0]) in labels:
            return ("isnan", 0)
        if node.func.attr == "isnan" and not node.args and ast.unparse(node.func.value) in labels:
            return ("isnan", 0)
        if f.endswith("observation_nan_policy._get_observed") and node.args and ast.unparse(node.args[0]) in labels:
            return ("observed", 0)
    return None


def tr_fill_masks(repo):
    eps = _parse(repo, "gpytorch/models/exact_prediction_strategies.py")
    gl = _parse(repo, "gpytorch/likelihoods/gaussian_likelihood.py")
    sites = (("meanCacheFillMask", _method(eps, "DefaultPredictionStrategy", "_mean_cache"), {"self.train_labels"}),
             ("covarFillMask", _method(eps, "DefaultPredictionStrategy", "_exact_predictive_covar_missing_obs"), {"self.train_labels"}),
             ("elpFillMask", _method(gl, "_GaussianLikelihoodBase", "expected_log_prob"), {"target"}),
             ("logMarginalFillMask", _method(gl, "_GaussianLikelihoodBase", "log_marginal"), {"observations"}))
    out = {}
    for key, fn, labels in sites:
        env, found = {}, None
        for st in _policy_branch(fn, "fill"):
            for n in ast.walk(st):
                if isinstance(n, ast.Assign) and len(n.targets) == 1 and isinstance(n.targets[0], ast.Name):
                    r = mask_expr(n.value, env, labels)
                    if r is not None:
                        env[n.targets[0].id] = r
                        found = found or r
        if found is None:
            raise TranslateError(f"{fn.name}: the 'fill' branch builds no missing / observed mask from {sorted(labels)}")
        base, neg = found
        out[key] = ".getObserved" if base == "observed" else (".notIsnanPerEntry" if neg % 2 else ".isnanPerEntry")
    return out


def tr_model_list_props(repo):
    tree = _parse(repo, "gpytorch/models/model_list.py")
    out = {}
    for meth, key in (("train_inputs", "modelListTrainInputs"), ("train_targets", "modelListTrainTargets")):
        fn = _method(tree, "IndependentModelList", meth)
        decs = [ast.unparse(d) for d in fn.decorator_list]
        if decs == ["property"]:
            kind = ".perRead"
        elif len(decs) == 1 and decs[0].split("(")[0].split(".")[-1] in ("cached_property", "cached", "lru_cache", "cache"):
            kind = ".once"
        elif len(decs) == 2 and decs[0] == "property" and decs[1].split("(")[0].split(".")[-1] in ("cached", "lru_cache", "cache"):
            kind = ".once"
        else:
            _fail(fn, f"decorators {decs} outside vocabulary")
        body = [s for s in fn.body if not (isinstance(s, ast.Expr) and isinstance(s.value, ast.Constant))]
        if len(body) != 1 or not isinstance(body[0], ast.Return) or not isinstance(body[0].value, ast.ListComp):
            _fail(fn, "expected a single `return [model.<attr> for model in self.models]`")
        lc = body[0].value
        g = lc.generators
        if not (len(g) == 1 and not g[0].ifs and ast.unparse(g[0].iter) == "self.models" and isinstance(g[0].target, ast.Name)
                and isinstance(lc.elt, ast.Attribute) and ast.unparse(lc.elt.value) == g[0].target.id
                and lc.elt.attr in ("train_inputs", "train_targets")):
            _fail(lc, "list comprehension outside vocabulary")
        attr = ".trainInputs" if lc.elt.attr == "train_inputs" else ".trainTargets"
        out[key] = f"⟨{kind}, {attr}⟩"
    return out


# ------------------------------------------------------------------ emit

HEADER = """/-
GENERATED by harness/translate/g3_batch_choreography.py from $VERIF_REPO — do not edit.
-/
import GPVerif.Model.ChoreoIR
import GPVerif.Model.ObjectiveIR

namespace Gen.BatchChoreo
open Choreo
"""


def emit(d):
    L = [HEADER]
    L.append("/-- `x1.div(self.lengthscale)` -/")
    L.append(f"def lengthscaleDivOps : List UOp := {d['lengthscaleDivOps']}\n")
    L.append("/-- trailing (non-batch) dimensions of `raw_lengthscale`; `none` = `lengthscale_num_dims` -/")
    L.append(f"def lengthscaleTail : List (Option Nat) := {d['lengthscaleTail']}\n")
    L.append(f"def scaleFullOps : List UOp := {d['scaleFullOps']}\n")
    L.append(f"def scaleDiagOps : List UOp := {d['scaleDiagOps']}\n")
    L.append(f"def rqUnsqueezeCount (diag ldb : Bool) (distRank kbRank : Nat) : Nat := {d['rqUnsqueezeCount']}\n")
    L.append("def rqAlphaOps (diag ldb : Bool) (distRank kbRank : Nat) : List UOp :=\n"
             "  List.replicate (rqUnsqueezeCount diag ldb distRank kbRank) (.unsqueeze 0)\n")
    L.append(f"def constantMeanOps : List UOp := {d['constantMeanOps']}\n")
    L.append(f"def homoNoiseOps : List UOp := {d['homoNoiseOps']}\n")
    L.append(f"def exactPriorOps : List UOp := {d['exactPriorOps']}\n")
    L.append(f"def approxPriorOps : List UOp := {d['approxPriorOps']}\n")
    L.append(f"def sumMllOps : List ROp := {d['sumMllOps']}\n")
    L.append(f"def modelListForwardForm : ListForm := {d['modelListForwardForm']}\n")
    L.append(f"def modelListCallForm : ListForm := {d['modelListCallForm']}\n")
    L.append("/-- what `LeaveOneOutPseudoLikelihood.forward` divides its per-batch-element sum by -/")
    L.append(f"def looNormaliser : NormE := {d['looNormaliser']}\n")
    L.append("/-- what `ExactMarginalLogLikelihood.forward` divides by -/")
    L.append(f"def exactNormaliser : NormE := {d['exactNormaliser']}\n")
    L.append("/-- the first missing / observed mask built in the `'fill'` branch of each site -/")
    for k in ("meanCacheFillMask", "covarFillMask", "elpFillMask", "logMarginalFillMask"):
        L.append(f"def {k} : MaskE := {d[k]}\n")
    L.append("/-- `IndependentModelList.train_inputs` / `train_targets`: decorator and collected member attribute -/")
    L.append(f"def modelListTrainInputs : ListProp := {d['modelListTrainInputs']}\n")
    L.append(f"def modelListTrainTargets : ListProp := {d['modelListTrainTargets']}\n")
    L.append("end Gen.BatchChoreo")
    return "\n".join(L) + "\n"


def translate(repo):
    d = {}
    d.update(tr_rbf(repo))
    d.update(tr_scale(repo))
    d.update(tr_rq(repo))
    d.update(tr_mean(repo))
    d.update(tr_noise(repo))
    d.update(tr_prior(repo, "gpytorch/mlls/exact_marginal_log_likelihood.py", "ExactMarginalLogLikelihood", "_add_other_terms",
                      "res_ndim", "exactPriorOps"))
    d.update(tr_prior(repo, "gpytorch/mlls/_approximate_mll.py", "_ApproximateMarginalLogLikelihood", "forward",
                      "log_likelihood.ndim", "approxPriorOps"))
    d.update(tr_sum_mll(repo))
    d.update(tr_model_list(repo))
    d.update(tr_norms(repo))
    d.update(tr_fill_masks(repo))
    d.update(tr_model_list_props(repo))
    return d


def generate(repo, out_path):
    d = translate(repo)
    text = emit(d)
    old = open(out_path).read() if os.path.exists(out_path) else None
    if old != text:
        with open(out_path, "w") as fh:
            fh.write(text)
    return d, old != text


if __name__ == "__main__":
    import sys
    repo = sys.argv[1] if len(sys.argv) > 1 else "/repo"
    out = sys.argv[2] if len(sys.argv) > 2 else os.path.join(os.path.dirname(__file__), "../../lean/GPVerif/Gen/BatchChoreo.lean")
    d, changed = generate(repo, os.path.abspath(out))
    for k, v in d.items():
        print(f"{k} := {v}")
    print("changed =", changed)

"""G7 — Python-AST -> Lean translator for the matrix algebra of the variational strategies.

Symbolically executes (straight-line code + a fixed table of recognised `if` guards)
  * `VariationalStrategy.forward` / `.prior_distribution`            (variational_strategy.py)
  * `UnwhitenedVariationalStrategy.forward` / `.prior_distribution`  (unwhitened_variational_strategy.py)
  * `_VariationalStrategy.kl_divergence`                             (_variational_strategy.py)
of `$VERIF_REPO` into a small matrix-expression IR
    var | add | sub | mul | T (transpose) | smul c | jit (add_jitter with ε = jitter_val / the add_jitter() default /
    a literal) | solve (A⁻¹X, by the Cholesky factor `L` or by `CholLinearOperator(L) = L Lᵀ`) | one | hcat / vstack
and emits `GPVerif/Gen/VariationalAlgebra.lean`: the *expressions the code evaluates* as Lean functions over `DMat`.
Linear-operator wrappers are read by their meaning (`SumLinearOperator` = +, `MatmulLinearOperator` = ·,
`CholLinearOperator(L)` = L Lᵀ, `RootLinearOperator(R)` = R Rᵀ, `.mul(c)` = scalar multiple); dtype / dense / shape
bookkeeping (`to_dense`, `type`, `to`, `unsqueeze(-1)`, `squeeze(-1)`, `expand`) is the identity on the algebra.
Primitives stay abstract: `self._cholesky_factor(E)` is a parameter `L` (contract `L Lᵀ = E`, E emitted as `*CholArg`),
`X.root_decomposition().root` a parameter `R` (contract `R Rᵀ = X`), solves multiply by parameters `Li = L⁻¹`,
`Ki = (L Lᵀ)⁻¹`.  Branch selection: eval mode, Gaussian q(u) (and the point-mass variant of the whitened strategy),
Cholesky path, skip_posterior_variances off; both the default (lazy) and the `settings.trace_mode` branch of the
whitened covariance; the `torch.equal(x, Z)` shortcut and the training-mode
prior cache are recorded separately.  Anything else raises `TranslateError` (a broken tie).

Wave 3 additions:
  * the TRAINING-mode branch of `UnwhitenedVariationalStrategy.forward` (`inv_quad_logdet(..., reduce_inv_quad=False)`,
    `diagonal`, `clamp(0, inf)`, `DiagLinearOperator`) — vector-valued IR `diagv | invquad | clamp0 | diagm`;
  * `BatchDecoupledVariationalStrategy.forward`: the stacked mean / variance sets, `select(mean_var_batch_dim - 2|1, k)`
    pushed down to the leaves (`Kzx0`, `Kzx1`, ...), environment `EnvBD`;
  * `OrthogonallyDecoupledVariationalStrategy.forward` / `.prior_distribution` / `.kl_divergence` (joint ordered `[x; Z]`,
    blocks by `num_data`; eval prior with `jitter_val`, training-mode cached prior without), environment `EnvOrth`;
  * `GridInterpolationVariationalStrategy.forward` / `.prior_distribution` (`left_interp(i, v, ·)` = `W ·`,
    `InterpolatedLinearOperator(B, i, v, i, v)` = `W B Wᵀ`, literal prior jitter), environment `EnvGrid`.
"""
import ast
import os
from fractions import Fraction


class TranslateError(Exception):
    pass


NOOP_METHODS = {"to_dense", "type", "to", "double", "detach", "expand", "evaluate_kernel", "contiguous"}
ADD_WRAPPERS = {"SumLinearOperator", "PsdSumLinearOperator"}
# recognised guards -> the branch taken by the modelled code path (None = handled specially)
GUARDS = {
    "variational_inducing_covar is not None": "has_covar",
    "variational_inducing_covar is None": "not has_covar",
    "self.training": "training",
    "not self.training and settings.skip_posterior_variances.on()": False,
    "settings.fast_computations.log_prob.off() or num_induc <= settings.max_cholesky_size.value()": True,
    "trace_mode.on()": "trace",
    "L.shape != induc_induc_covar.shape": False,
    "torch.equal(x, inducing_points)": None,
}


def src(n):
    return ast.unparse(n)


VEC_VARS = {"m", "mX", "mZ", "mX0", "mX1", "μx", "μz"}
STACKED = {"Kzz", "Kzx", "Kxx", "mX", "mZ", "L"}          # quantities that carry the (mean set, variance set) dimension


def is_vec(e):
    """Is the IR term vector-valued (a mean / a diagonal) rather than matrix-valued?"""
    if not isinstance(e, tuple) or not e:
        return False
    k = e[0]
    if k == "var":
        return e[1] in VEC_VARS
    if k in ("diagv", "invquad", "clamp0"):
        return True
    if k in ("add", "sub"):
        return is_vec(e[1]) and is_vec(e[2])
    if k == "mul":
        return is_vec(e[2])
    if k == "smul":
        return is_vec(e[2])
    if k == "T":
        return is_vec(e[1])
    return False


def push_sel(k, e):
    """`e.select(stack dimension, k)`: the k-th inducing set (0 = mean, 1 = variance), pushed down to the leaves."""
    t = e[0]
    if t == "var":
        return ("var", e[1] + str(k)) if e[1] in STACKED else e
    if t in ("one", "eps", "const"):
        return e
    if t in ("add", "sub", "mul", "solve"):
        return (t, push_sel(k, e[1]), push_sel(k, e[2]))
    if t == "T":
        return ("T", push_sel(k, e[1]))
    if t == "smul":
        return ("smul", e[1], push_sel(k, e[2]))
    if t == "jit":
        return ("jit", push_sel(k, e[1]), e[2])
    raise TranslateError(f"select of a term outside the vocabulary: {e}")


def stacked_leaves(e):
    """Stacked quantities that were used WITHOUT selecting one of the two inducing sets."""
    if not isinstance(e, tuple):
        return []
    if e and e[0] == "var":
        return [e[1]] if e[1] in STACKED else []
    return [x for sub in e[1:] for x in stacked_leaves(sub)]


class Exec:
    """Symbolic executor for one method body."""

    def __init__(self, cls_prior=None, has_covar=True, training=False, trace=False):
        self.env = {"inducing_values": ("var", "m"), "variational_inducing_covar": ("var", "S") if has_covar else None,
                    "x": ("opaque",), "inducing_points": ("opaque",)}
        self.flags = {"has_covar": has_covar, "training": training, "trace": trace}
        self.cls_prior = cls_prior          # IR of self.prior_distribution.lazy_covariance_matrix
        self.chol_args = []                 # arguments of self._cholesky_factor
        self.cache_writes = {}
        self.shortcut = None
        self.result = None

    # ---------------------------------------------------------------- statements
    def run(self, body):
        for st in body:
            if self.result is not None:
                break
            self.stmt(st)

    def stmt(self, st):
        if isinstance(st, ast.Expr) and isinstance(st.value, ast.Constant):
            return                                                   # docstring
        if isinstance(st, ast.Assign) and len(st.targets) == 1:
            t = st.targets[0]
            if isinstance(t, ast.Name) and t.id == "mean_var_batch_dim":
                if src(st.value) != "self.mean_var_batch_dim or -1":
                    raise TranslateError(f"mean_var_batch_dim outside the vocabulary: {src(st)}")
                self.env[t.id] = ("mvbd",)
                return
            if isinstance(t, ast.Name):
                self.env[t.id] = self.ev(st.value)
                return
            if isinstance(t, ast.Tuple) and isinstance(st.value, ast.Tuple) and len(t.elts) == len(st.value.elts):
                vals = [self.ev(v) for v in st.value.elts]
                for n_, v in zip(t.elts, vals):
                    self.env[n_.id] = v
                return
            if isinstance(t, ast.Tuple) and src(st.value).startswith("induc_induc_covar.inv_quad_logdet("):
                # (inv_quad per column, logdet): `reduce_inv_quad=False` gives diag(Xᵀ A⁻¹ X) as a vector
                c = st.value
                kws = {k.arg: src(k.value) for k in c.keywords}
                if len(t.elts) != 2 or len(c.args) != 1 or kws != {"logdet": "False", "reduce_inv_quad": "False"}:
                    raise TranslateError(f"inv_quad_logdet outside the vocabulary: {src(c)}")
                self.env[t.elts[0].id] = ("invquad", self.ev(c.func.value), self.ev(c.args[0]))
                self.env[t.elts[1].id] = ("opaque",)
                return
            if isinstance(t, ast.Tuple) and src(st.value) == "self._compute_grid(x)" and len(t.elts) == 2:
                self.env[t.elts[0].id] = ("interp", "idx")
                self.env[t.elts[1].id] = ("interp", "val")
                return
            if isinstance(t, ast.Attribute) and src(t) == "self._mean_cache":
                return
        if isinstance(st, ast.If):
            g = src(st.test)
            if g not in GUARDS:
                raise TranslateError(f"unrecognised guard: if {g}")
            take = GUARDS[g]
            if take is None:                                         # the x == Z shortcut
                sub = Exec(self.cls_prior, self.flags["has_covar"], self.flags["training"], self.flags["trace"])
                sub.env = dict(self.env)
                sub.run(st.body)
                if sub.result is None:
                    raise TranslateError("x == Z shortcut does not return a distribution")
                self.shortcut = sub.result
                return
            if isinstance(take, str):
                neg = take.startswith("not ")
                take = self.flags[take[4:] if neg else take] ^ neg
            if g == "L.shape != induc_induc_covar.shape":
                # cache-shape repair: must only re-issue the same factorisation
                for b in ast.walk(st):
                    if isinstance(b, ast.Assign) and src(b.targets[0]) == "L" and \
                            src(b.value) != "self._cholesky_factor(induc_induc_covar)":
                        raise TranslateError(f"cache repair assigns a different L: {src(b)}")
            for b in (st.body if take else st.orelse):
                if self.result is None:
                    self.stmt(b)
            return
        if isinstance(st, ast.Expr) and isinstance(st.value, ast.Call) and src(st.value.func) == "add_to_cache":
            a = st.value.args
            self.cache_writes[ast.literal_eval(a[1])] = self.ev(a[2])
            return
        if isinstance(st, ast.Expr) and isinstance(st.value, ast.Call) and isinstance(st.value.func, ast.Attribute) \
                and isinstance(st.value.func.value, ast.Name) and self.env.get(st.value.func.value.id) == ("opaque",):
            return                                                   # shape bookkeeping (`shapes.append(...)`)
        if isinstance(st, ast.Return):
            self.result = self.ev(st.value)
            return
        if isinstance(st, ast.Raise):
            raise TranslateError("raise on the modelled path")
        if isinstance(st, ast.Try):
            return                                                   # pop_from_cache_ignore_args bookkeeping
        raise TranslateError(f"statement outside the vocabulary: {src(st)[:120]}")

    # ---------------------------------------------------------------- expressions
    def ev(self, n):
        s = src(n)
        if isinstance(n, ast.Constant):
            return ("const", n.value)
        if isinstance(n, ast.UnaryOp) and isinstance(n.op, ast.USub) and isinstance(n.operand, ast.Constant):
            return ("const", -n.operand.value)
        if isinstance(n, ast.Name):
            if n.id in self.env:
                return self.env[n.id]
            raise TranslateError(f"unbound name {n.id}")
        if s == "self.jitter_val":
            return ("eps", "eps")
        if s == "self.prior_distribution.lazy_covariance_matrix":
            if self.cls_prior is None:
                raise TranslateError("prior covariance used but prior_distribution not translated")
            return self.cls_prior
        if s in ("self.model.forward(full_inputs, **kwargs)", "self.model.forward(full_inputs)"):
            return ("full",)
        if s == "self.model.forward(self.inducing_points)":
            return ("fullZ",)
        if isinstance(n, ast.Attribute):
            v = self.ev(n.value) if not s.startswith("self.") else None
            if v == ("full",) or v == ("fullZ",):
                if n.attr == "mean":
                    return ("fullmean",) if v == ("full",) else ("var", "mZ")
                if n.attr == "lazy_covariance_matrix":
                    return ("fullcov",) if v == ("full",) else ("var", "Kzz")
            if n.attr == "root" and isinstance(v, tuple) and v[0] == "rootdec":
                return ("var", "R")
            if n.attr == "shape":
                return ("opaque",)
            raise TranslateError(f"attribute outside the vocabulary: {s}")
        if isinstance(n, ast.Subscript):
            v = self.ev(n.value)
            idx = src(n.slice)
            if v == ("fullcov",):
                tab = {"(..., slice(None, num_induc, None), slice(None, num_induc, None))": "Kzz",
                       "(..., slice(None, num_induc, None), slice(num_induc, None, None))": "Kzx",
                       "(..., slice(num_induc, None, None), slice(num_induc, None, None))": "Kxx"}
                key = ast.dump(n.slice)
                for k_, name in (("[..., :num_induc, :num_induc]", "Kzz"), ("[..., :num_induc, num_induc:]", "Kzx"),
                                 ("[..., num_induc:, num_induc:]", "Kxx")):
                    if s.endswith(k_):
                        return ("var", name)
                raise TranslateError(f"block of the joint covariance not recognised: {s}")
            if v == ("fullmean",):
                if s.endswith("[..., num_induc:]"):
                    return ("var", "mX")
                if s.endswith("[..., :num_induc]"):
                    return ("var", "mZ")
                raise TranslateError(f"block of the joint mean not recognised: {s}")
            if isinstance(v, tuple) and v[0] == "vstack":
                if s.endswith("[..., 0, :]"):
                    return ("T", v[1])            # the single first row, as a (column) vector
                if s.endswith("[..., 1:, :]"):
                    return v[2]
            if v == ("opaque",):
                return ("opaque",)
            raise TranslateError(f"subscript outside the vocabulary: {s}")
        if isinstance(n, ast.BinOp):
            a, b = self.ev(n.left), self.ev(n.right)
            if isinstance(n.op, ast.MatMult):
                return ("mul", a, b)
            if isinstance(n.op, ast.Add):
                return ("add", a, b)
            if isinstance(n.op, ast.Sub):
                return ("sub", a, b)
            raise TranslateError(f"operator outside the vocabulary: {s}")
        if isinstance(n, ast.List):
            return ("opaque",)
        if isinstance(n, ast.Call):
            return self.call(n, s)
        raise TranslateError(f"expression outside the vocabulary: {s[:120]}")

    def call(self, n, s):
        f = n.func
        fname = src(f)
        args = n.args
        if fname == "self._cholesky_factor":
            e = self.ev(args[0])
            self.chol_args.append(e)
            return ("var", "L")
        if fname in ADD_WRAPPERS and len(args) == 2:
            return ("add", self.ev(args[0]), self.ev(args[1]))
        if fname == "MatmulLinearOperator" and len(args) == 2:
            return ("mul", self.ev(args[0]), self.ev(args[1]))
        if fname in ("CholLinearOperator", "RootLinearOperator") and len(args) == 1:
            v = self.ev(args[0])
            return ("mul", v, ("T", v))
        if fname == "torch.matmul" and len(args) == 2:
            return ("mul", self.ev(args[0]), self.ev(args[1]))
        if fname == "torch.add" and len(args) == 2 and not n.keywords:
            return ("add", self.ev(args[0]), self.ev(args[1]))
        if fname == "torch.cat":
            if s.startswith("torch.cat([inducing_points, x]"):
                return ("opaque",)
            if len(args) == 2 and src(args[1]) == "-1" and isinstance(args[0], ast.List) and len(args[0].elts) == 2:
                return ("hcat", self.ev(args[0].elts[0]), self.ev(args[0].elts[1]))
            raise TranslateError(f"torch.cat outside the vocabulary: {s}")
        if fname in ("MultivariateNormal",) and len(args) == 2:
            return ("mvn", self.ev(args[0]), self.ev(args[1]))
        if fname in ("torch.zeros", "torch.ones_like", "torch.broadcast_shapes"):
            return ("ones",) if fname == "torch.ones_like" else ("opaque",)
        if fname == "DiagLinearOperator" and len(args) == 1:
            v = self.ev(args[0])
            if v == ("ones",):
                return ("one",)
            if is_vec(v):
                return ("diagm", v)
            raise TranslateError(f"DiagLinearOperator of something that is not a vector: {s}")
        if fname == "left_interp" and len(args) == 3:
            if [self.ev(a) for a in args[:2]] != [("interp", "idx"), ("interp", "val")]:
                raise TranslateError(f"left_interp with other indices / values than _compute_grid(x): {s}")
            return ("mul", ("var", "W"), self.ev(args[2]))
        if fname == "InterpolatedLinearOperator" and len(args) == 5:
            if [self.ev(a) for a in args[1:]] != [("interp", "idx"), ("interp", "val")] * 2:
                raise TranslateError(f"InterpolatedLinearOperator with other indices / values than _compute_grid(x): {s}")
            return ("mul", ("mul", ("var", "W"), self.ev(args[0])), ("T", ("var", "W")))
        if fname == "ZeroLinearOperator":
            return ("opaque",)
        if isinstance(f, ast.Attribute):
            meth = f.attr
            if src(f.value).startswith("self._variational_distribution"):
                return ("opaque",)
            recv = self.ev(f.value)
            if meth in NOOP_METHODS:
                return recv
            if meth in ("unsqueeze", "squeeze") and len(args) == 1 and src(args[0]) == "-1":
                return recv
            if meth == "size":
                return ("opaque",)
            if meth == "transpose" and sorted(src(a) for a in args) == ["-1", "-2"]:
                return ("T", recv)
            if meth == "add_jitter":
                if not args and not n.keywords:
                    return ("jit", recv, ("eps", "epsDefault"))
                if len(args) == 1:
                    j = self.ev(args[0])
                    if j[0] in ("eps", "const"):
                        return ("jit", recv, j)
                raise TranslateError(f"add_jitter outside the vocabulary: {s}")
            if meth == "mul" and len(args) == 1:
                c = self.ev(args[0])
                if c[0] == "const" and isinstance(c[1], (int, float)):
                    return ("smul", Fraction(c[1]), recv)
                raise TranslateError(f"mul by a non-constant: {s}")
            if meth == "matmul" and len(args) == 1:
                return ("mul", recv, self.ev(args[0]))
            if meth == "add" and len(args) == 1 and not n.keywords:
                return ("add", recv, self.ev(args[0]))
            if meth == "select" and len(args) == 2 and isinstance(args[1], ast.Constant) and args[1].value in (0, 1):
                # the stacked (mean set, variance set) dimension: `mean_var_batch_dim - 2` for matrices, `- 1` for vectors
                want = "mean_var_batch_dim - 1" if is_vec(recv) else "mean_var_batch_dim - 2"
                if src(args[0]) != want or self.env.get("mean_var_batch_dim") != ("mvbd",):
                    raise TranslateError(f"select on another dimension than the mean/variance stack: {s}")
                return push_sel(args[1].value, recv)
            if meth == "diagonal" and not args and {k.arg: src(k.value) for k in n.keywords} in (
                    {"dim1": "-1", "dim2": "-2"}, {"dim1": "-2", "dim2": "-1"}):
                return ("diagv", recv)
            if meth == "clamp" and [src(a) for a in args] == ["0", "math.inf"] and not n.keywords:
                return ("clamp0", recv)
            if meth == "solve" and len(args) in (1, 2):
                rhs = self.ev(args[0])
                base = ("solve", recv, rhs)
                if len(args) == 1:
                    return base
                lhs = self.ev(args[1])
                if lhs[0] == "T" and lhs[1][0] == "hcat":
                    return ("vstack", ("mul", ("T", lhs[1][1]), base), ("mul", ("T", lhs[1][2]), base))
                return ("mul", lhs, base)
            if meth == "root_decomposition" and not args:
                if recv != ("var", "S"):
                    raise TranslateError(f"root_decomposition of something other than S: {s}")
                return ("rootdec",)
        raise TranslateError(f"call outside the vocabulary: {s[:140]}")


class OrthExec(Exec):
    """`OrthogonallyDecoupledVariationalStrategy`: `self.model` is the base strategy; the joint is ordered `[x; Z]` and
    split by `num_data`.  Variables: `μx, μz, Cxx, Cxz, Czz` (blocks of the base q(f) at `[x; Z_mean]`), `m`."""

    def __init__(self, cls_prior=None, training=False):
        super().__init__(cls_prior=cls_prior, has_covar=False, training=training)

    def ev(self, n):
        s = src(n)
        if s == "self.variational_distribution.mean":
            return ("var", "m")
        if isinstance(n, ast.Subscript):
            v = self.ev(n.value)
            if v == ("fullcov",):
                for k_, e in (("[..., :num_data, :num_data]", ("var", "Cxx")), ("[..., :num_data, num_data:]", ("var", "Cxz")),
                              ("[..., num_data:, num_data:]", ("var", "Czz")),
                              ("[..., num_data:, :num_data]", ("T", ("var", "Cxz")))):
                    if s.endswith(k_):
                        return e
                raise TranslateError(f"block of the joint covariance not recognised: {s}")
            if v == ("fullmean",):
                if s.endswith("[..., :num_data]"):
                    return ("var", "μx")
                if s.endswith("[..., num_data:]"):
                    return ("var", "μz")
                raise TranslateError(f"block of the joint mean not recognised: {s}")
        if isinstance(n, ast.Attribute) and not s.startswith("self."):
            v = self.ev(n.value)
            if v == ("fullZ",):
                if n.attr == "mean":
                    return ("var", "μz")
                if n.attr == "lazy_covariance_matrix":
                    return ("var", "Czz")
        if isinstance(n, ast.BinOp) and isinstance(n.op, ast.Mult):
            a, b = self.ev(n.left), self.ev(n.right)
            if is_vec(a) and is_vec(b):
                return ("hadv", a, b)
            raise TranslateError(f"elementwise product outside the vocabulary: {s}")
        return super().ev(n)

    def call(self, n, s):
        fname = src(n.func)
        if fname == "self.model":
            a = [src(x) for x in n.args]
            if a == ["torch.cat([x, inducing_points], dim=-2)"] and [k.arg for k in n.keywords] in ([None], []):
                return ("full",)
            if a == ["self.inducing_points"] and not n.keywords:
                return ("fullZ",)
            raise TranslateError(f"call of the base strategy outside the vocabulary: {s}")
        if fname == "self.model.kl_divergence" and not n.args:
            return ("baseKL",)
        if isinstance(n.func, ast.Attribute) and n.func.attr == "sum" and [src(x) for x in n.args] == ["-1"]:
            v = self.ev(n.func.value)
            if isinstance(v, tuple) and v[0] == "hadv":
                return ("dot", v[1], v[2])
            raise TranslateError(f"sum outside the vocabulary: {s}")
        if isinstance(n.func, ast.Attribute) and n.func.attr == "mul" and len(n.args) == 1:
            v = self.ev(n.func.value)
            c = self.ev(n.args[0])
            if isinstance(v, tuple) and v[0] in ("dot", "sadd", "smulS", "baseKL") and c[0] == "const":
                return ("smulS", Fraction(c[1]), v)
        return super().call(n, s)


class GridExec(Exec):
    """`GridInterpolationVariationalStrategy.forward`: `W` = the sparse interpolation matrix of `_compute_grid(x)`."""

    def ev(self, n):
        s = src(n)
        if s == "self.variational_distribution":
            return ("qdist",)
        if isinstance(n, ast.Attribute) and not s.startswith("self."):
            v = self.ev(n.value)
            if v == ("qdist",):
                if n.attr == "lazy_covariance_matrix":
                    return ("var", "S")
                if n.attr == "mean":
                    return ("var", "m")
        return super().ev(n)


# -------------------------------------------------------------------- emission

def lean(e):
    k = e[0]
    if k == "var":
        return f"e.{e[1]}"
    if k == "one":
        return "(one : DMat M M α)"
    if k in ("add", "sub", "mul"):
        return f"(({lean(e[1])}).{k} ({lean(e[2])}))"
    if k == "T":
        return f"({lean(e[1])}).transpose"
    if k == "smul":
        c = e[1]
        cs = f"({c.numerator} : α)" if c.denominator == 1 else f"(({c.numerator} : α) / {c.denominator})"
        return f"(({lean(e[2])}).smul {cs})"
    if k == "jit":
        return f"(addJitter ({lean(e[1])}) {jit_sym(e[2])})"
    if k == "solve":
        a = e[1]
        if a[0] == "var" and a[1] in ("L", "L0", "L1"):
            return f"(e.Li{a[1][1:]}.mul ({lean(e[2])}))"
        if a == ("mul", ("var", "L"), ("T", ("var", "L"))):
            return f"(e.Ki.mul ({lean(e[2])}))"
        raise TranslateError(f"solve with a matrix that is neither L nor L Lᵀ: {a}")
    if k == "diagm":
        return f"(DMat.diagonal {lean_vec(e[1])})"
    raise TranslateError(f"cannot emit {e}")


def lean_vec(e):
    """vector-valued terms (`Fin n → α`)"""
    k = e[0]
    if k == "diagv":
        return f"(({lean(e[1])}).diag)"
    if k == "invquad":
        if e[1] != ("mul", ("var", "L"), ("T", ("var", "L"))):
            raise TranslateError(f"inv_quad_logdet of a matrix that is not L Lᵀ: {e[1]}")
        return f"(invQuadDiag e.Ki ({lean(e[2])}))"
    if k == "sub":
        return f"({lean_vec(e[1])} - {lean_vec(e[2])})"
    if k == "add":
        return f"({lean_vec(e[1])} + {lean_vec(e[2])})"
    if k == "clamp0":
        return f"(clamp0 {lean_vec(e[1])})"
    raise TranslateError(f"cannot emit vector {e}")


def lean_scalar(e):
    """scalar-valued terms of `kl_divergence` (`baseKL` = the base strategy's KL, passed as a parameter)"""
    k = e[0]
    if k == "baseKL":
        return "klBase"
    if k == "dot":
        return f"((({lean(e[1])}).transpose.mul ({lean(e[2])})).toMatrix 0 0)"
    if k == "smulS":
        c = e[1]
        return f"((({c.numerator} : α) / {c.denominator}) * {lean_scalar(e[2])})"
    if k in ("add", "sadd"):
        return f"({lean_scalar(e[1])} + {lean_scalar(e[2])})"
    raise TranslateError(f"cannot emit scalar {e}")


def jit_sym(j):
    if j[0] == "eps":
        return "e.ε" if j[1] == "eps" else "e.εd"
    c = Fraction(j[1])
    return f"(({c.numerator} : α) / {c.denominator})"


def _method(tree, cls, name):
    for n in tree.body:
        if isinstance(n, ast.ClassDef) and n.name == cls:
            for m in n.body:
                if isinstance(m, ast.FunctionDef) and m.name == name:
                    return m
    raise TranslateError(f"{cls}.{name} not found")


def _prior(tree, cls):
    ex = Exec()
    ex.run(_method(tree, cls, "prior_distribution").body)
    if ex.result is None or ex.result[0] != "mvn":
        raise TranslateError(f"{cls}.prior_distribution does not return a MultivariateNormal")
    return ex.result


def translate(repo):
    vdir = os.path.join(repo, "gpytorch", "variational")
    wt = ast.parse(open(os.path.join(vdir, "variational_strategy.py")).read())
    ut = ast.parse(open(os.path.join(vdir, "unwhitened_variational_strategy.py")).read())
    bt = ast.parse(open(os.path.join(vdir, "_variational_strategy.py")).read())
    out = {}
    # ---- whitened
    wp = _prior(wt, "VariationalStrategy")
    if wp[2] != ("one",):
        raise TranslateError(f"whitened prior covariance is not the identity: {wp[2]}")
    out["wPriorCov"] = wp[2]
    fwd = _method(wt, "VariationalStrategy", "forward")
    for tag, has in (("", True), ("Delta", False)):
        ex = Exec(cls_prior=wp[2], has_covar=has)
        ex.run(fwd.body)
        if ex.result is None or ex.result[0] != "mvn" or len(ex.chol_args) != 1:
            raise TranslateError("VariationalStrategy.forward: unexpected shape of the result")
        out["wMean" + tag], out["wCov" + tag] = ex.result[1], ex.result[2]
        out["wCholArg"] = ex.chol_args[0]
        out["wInterp"] = ex.env["interp_term"]
        ext_ = Exec(cls_prior=wp[2], has_covar=has, trace=True)      # the settings.trace_mode branch
        ext_.run(fwd.body)
        if ext_.result is None or ext_.result[0] != "mvn":
            raise TranslateError("VariationalStrategy.forward (trace_mode): unexpected shape of the result")
        out["wMeanTrace" + tag], out["wCovTrace" + tag] = ext_.result[1], ext_.result[2]
    # ---- unwhitened
    up = _prior(ut, "UnwhitenedVariationalStrategy")
    out["uPriorMean"], out["uPriorCov"] = up[1], up[2]
    if up[2][0] != "jit" or up[2][1] != ("var", "Kzz"):
        raise TranslateError(f"unwhitened prior covariance is not add_jitter(Kzz): {up[2]}")
    out["uPriorJitter"] = up[2][2]
    ufwd = _method(ut, "UnwhitenedVariationalStrategy", "forward")
    ex = Exec(has_covar=True, training=False)
    ex.run(ufwd.body)
    if ex.result is None or ex.result[0] != "mvn" or len(ex.chol_args) != 1:
        raise TranslateError("UnwhitenedVariationalStrategy.forward: unexpected shape of the result")
    out["uMean"], out["uCov"] = ex.result[1], ex.result[2]
    out["uCholArg"] = ex.chol_args[0]
    if out["uCholArg"][0] != "jit" or out["uCholArg"][1] != ("var", "Kzz"):
        raise TranslateError(f"unwhitened Cholesky argument is not add_jitter(Kzz): {out['uCholArg']}")
    out["uForwardJitter"] = out["uCholArg"][2]
    out["uSolveMat"] = ex.env["induc_induc_covar"]
    if ex.shortcut is None or ex.shortcut[0] != "mvn":
        raise TranslateError("unwhitened forward: x == Z shortcut not found")
    out["uShortcutMean"], out["uShortcutCov"] = ex.shortcut[1], ex.shortcut[2]
    ext = Exec(has_covar=True, training=True)
    ext.run(ufwd.body)
    cw = ext.cache_writes.get("prior_distribution_memo")
    if cw is None or cw[0] != "mvn":
        raise TranslateError("unwhitened forward (training): prior cache write not found")
    out["uTrainPriorMean"], out["uTrainPriorCov"] = cw[1], cw[2]
    # the training-mode branch itself: mean and the (root + clamped diagonal) covariance
    if ext.result is None or ext.result[0] != "mvn":
        raise TranslateError("unwhitened forward (training): unexpected shape of the result")
    out["uTrainMean"], out["uTrainCov"] = ext.result[1], ext.result[2]
    # ---- batch decoupled (inherits prior_distribution = N(0, I) from VariationalStrategy)
    bd = ast.parse(open(os.path.join(vdir, "batch_decoupled_variational_strategy.py")).read())
    bcls = next((n_ for n_ in bd.body if isinstance(n_, ast.ClassDef) and n_.name == "BatchDecoupledVariationalStrategy"), None)
    if bcls is None or [src(b) for b in bcls.bases] != ["VariationalStrategy"]:
        raise TranslateError("BatchDecoupledVariationalStrategy does not derive from VariationalStrategy")
    if any(isinstance(m_, ast.FunctionDef) and m_.name == "prior_distribution" for m_ in bcls.body):
        raise TranslateError("BatchDecoupledVariationalStrategy overrides prior_distribution")
    ex = Exec(cls_prior=wp[2], has_covar=True)
    ex.run(_method(bd, "BatchDecoupledVariationalStrategy", "forward").body)
    if ex.result is None or ex.result[0] != "mvn" or len(ex.chol_args) != 1:
        raise TranslateError("BatchDecoupledVariationalStrategy.forward: unexpected shape of the result")
    out["bdMean"], out["bdCov"] = ex.result[1], ex.result[2]
    left = stacked_leaves(out["bdMean"]) + stacked_leaves(out["bdCov"])
    if left:
        raise TranslateError(f"batch decoupled: stacked quantities used without selecting an inducing set: {left}")
    out["bdCholArg0"], out["bdCholArg1"] = push_sel(0, ex.chol_args[0]), push_sel(1, ex.chol_args[0])
    # ---- orthogonally decoupled
    ot = ast.parse(open(os.path.join(vdir, "orthogonally_decoupled_variational_strategy.py")).read())
    ocls = "OrthogonallyDecoupledVariationalStrategy"
    opx = OrthExec()
    opx.run(_method(ot, ocls, "prior_distribution").body)
    if opx.result is None or opx.result[0] != "mvn":
        raise TranslateError(f"{ocls}.prior_distribution does not return a MultivariateNormal")
    out["oPriorMean"], out["oPriorCov"] = opx.result[1], opx.result[2]
    ofwd = _method(ot, ocls, "forward")
    oe = OrthExec(cls_prior=opx.result[2], training=False)
    oe.run(ofwd.body)
    otr = OrthExec(cls_prior=opx.result[2], training=True)
    otr.run(ofwd.body)
    if oe.result is None or oe.result[0] != "mvn" or otr.result != oe.result:
        raise TranslateError(f"{ocls}.forward: result missing or different between training and evaluation mode")
    out["oMean"], out["oCov"] = oe.result[1], oe.result[2]
    ocw = otr.cache_writes.get("prior_distribution_memo")
    if ocw is None or ocw[0] != "mvn" or oe.cache_writes:
        raise TranslateError(f"{ocls}.forward: training-mode prior cache write not found (or written in eval mode)")
    out["oTrainPriorMean"], out["oTrainPriorCov"] = ocw[1], ocw[2]
    okl = _method(ot, ocls, "kl_divergence")
    for tag, prior in (("Eval", opx.result[2]), ("Train", ocw[2])):
        ok_ = OrthExec(cls_prior=prior)
        ok_.run(okl.body)
        if ok_.result is None:
            raise TranslateError(f"{ocls}.kl_divergence returns nothing")
        out["oKL" + tag] = ok_.result
        lean_scalar(ok_.result)            # must be a scalar term of the vocabulary
    # ---- grid interpolation
    gt = ast.parse(open(os.path.join(vdir, "grid_interpolation_variational_strategy.py")).read())
    gcls = "GridInterpolationVariationalStrategy"
    gp = _prior(gt, gcls)
    out["gPriorMean"], out["gPriorCov"] = gp[1], gp[2]
    if gp[2][0] != "jit" or gp[2][1] != ("var", "Kzz"):
        raise TranslateError(f"grid prior covariance is not add_jitter(Kzz): {gp[2]}")
    out["gPriorJitter"] = gp[2][2]
    ge = GridExec(has_covar=True)
    ge.run(_method(gt, gcls, "forward").body)
    if ge.result is None or ge.result[0] != "mvn":
        raise TranslateError(f"{gcls}.forward: unexpected shape of the result")
    out["gMean"], out["gCov"] = ge.result[1], ge.result[2]
    # ---- KL
    kl = _method(bt, "_VariationalStrategy", "kl_divergence")
    calls = [c for c in ast.walk(kl) if isinstance(c, ast.Call) and src(c.func).endswith("kl_divergence")
             and len(c.args) == 2]
    if len(calls) != 1:
        raise TranslateError("kl_divergence: expected exactly one two-argument kl_divergence call")
    names = {"self.variational_distribution": "q", "self.prior_distribution": "p"}
    a = [names.get(src(x)) for x in calls[0].args]
    if None in a:
        raise TranslateError(f"kl_divergence arguments not recognised: {src(calls[0])}")
    out["klArgs"] = a
    return out


def render(t):
    def d(name, doc, typ):
        return f"/-- {doc} -/\ndef {name} (e : Env M n r α) : {typ} :=\n  {lean(t[name])}\n"
    return f"""/-
GENERATED by harness/translate/g7_variational_algebra.py from gpytorch/variational/variational_strategy.py,
unwhitened_variational_strategy.py and _variational_strategy.py — do not edit.
The matrix expressions `forward` / `prior_distribution` / `kl_divergence` evaluate, as the code writes them.
-/
import GPVerif.Model.Variational

namespace Gen.VariationalAlgebra
open DMat Variational

set_option linter.unusedVariables false

/-- Everything the strategies read: blocks of the joint prior at `[Z; x]`, variational parameters, jitters
(`ε = self.jitter_val`, `εd` = the default of `add_jitter()`), and the results of the linear_operator primitives
(`L = _cholesky_factor(·)`, `Li = L⁻¹`, `Ki = (L Lᵀ)⁻¹`, `R = root_decomposition().root`). -/
structure Env (M n r : Nat) (α : Type) where
  Kzz : DMat M M α
  Kzx : DMat M n α
  Kxx : DMat n n α
  mX : DMat n 1 α
  mZ : DMat M 1 α
  m : DMat M 1 α
  S : DMat M M α
  R : DMat M r α
  L : DMat M M α
  Li : DMat M M α
  Ki : DMat M M α
  ε : α
  εd : α

variable {{α : Type}} [Field α] {{M n r : Nat}}

/-! ### VariationalStrategy -/

{d('wCholArg', 'argument of `self._cholesky_factor` in `VariationalStrategy.forward`', 'DMat M M α')}
{d('wInterp', '`interp_term = L.solve(induc_data_covar)`', 'DMat M n α')}
{d('wPriorCov', '`prior_distribution.lazy_covariance_matrix`', 'DMat M M α')}
{d('wMean', '`predictive_mean`', 'DMat n 1 α')}
{d('wCov', '`predictive_covar` (Gaussian q(u); trace_mode off)', 'DMat n n α')}
{d('wMeanDelta', '`predictive_mean`, point-mass q(u)', 'DMat n 1 α')}
{d('wCovDelta', '`predictive_covar`, point-mass q(u) (`variational_inducing_covar is None`)', 'DMat n n α')}
{d('wMeanTrace', '`predictive_mean` under `settings.trace_mode`', 'DMat n 1 α')}
{d('wCovTrace', '`predictive_covar` under `settings.trace_mode` (dense arithmetic branch)', 'DMat n n α')}
{d('wCovTraceDelta', '`predictive_covar` under `settings.trace_mode`, point-mass q(u)', 'DMat n n α')}
/-! ### UnwhitenedVariationalStrategy -/

{d('uCholArg', 'argument of `self._cholesky_factor` in `UnwhitenedVariationalStrategy.forward`', 'DMat M M α')}
{d('uSolveMat', 'the operator solved with (`CholLinearOperator(L)`)', 'DMat M M α')}
{d('uMean', '`predictive_mean` (eval mode, Gaussian q(u))', 'DMat n 1 α')}
{d('uCov', '`predictive_covar` (eval mode, Gaussian q(u))', 'DMat n n α')}
{d('uShortcutMean', 'mean returned by the `torch.equal(x, inducing_points)` shortcut', 'DMat M 1 α')}
{d('uShortcutCov', 'covariance returned by the shortcut', 'DMat M M α')}
{d('uPriorMean', 'mean of `prior_distribution` (uncached: eval mode / shortcut)', 'DMat M 1 α')}
{d('uPriorCov', 'covariance of `prior_distribution` (uncached)', 'DMat M M α')}
{d('uTrainPriorCov', 'covariance of the prior cached by the training-mode forward', 'DMat M M α')}
/-- `predictive_mean` of the TRAINING-mode branch -/
def uTrainMean (e : Env M n r α) : DMat n 1 α :=
  {lean(t['uTrainMean'])}

/-- `predictive_covar` of the TRAINING-mode branch: root term + `DiagLinearOperator((diag Kxx − inv_quad).clamp(0, ∞))` -/
def uTrainCov [LinearOrder α] (e : Env M n r α) : DMat n n α :=
  {lean(t['uTrainCov'])}

/-- jitter `prior_distribution` adds to `Kzz` -/
def uPriorJitter (e : Env M n r α) : α := {jit_sym(t['uPriorJitter'])}
/-- jitter `forward` adds to `Kzz` -/
def uForwardJitter (e : Env M n r α) : α := {jit_sym(t['uForwardJitter'])}

/-! ### `_VariationalStrategy.kl_divergence` -/

/-- `torch.distributions.kl.kl_divergence(<first>, <second>)` with `q = self.variational_distribution`,
`p = self.prior_distribution` -/
def klDivergence {{β γ : Type}} (KL : β → β → γ) (q p : β) : γ := KL {t['klArgs'][0]} {t['klArgs'][1]}

/-! ### BatchDecoupledVariationalStrategy.forward -/

/-- Both inducing sets of the stacked dimension (`0` = mean set, `1` = variance set): blocks of the two joint priors, the
two Cholesky factors (`L0 L0ᵀ = bdCholArg0`, …) and their inverses, the shared variational parameters. -/
structure EnvBD (M n : Nat) (α : Type) where
  Kzz0 : DMat M M α
  Kzz1 : DMat M M α
  Kzx0 : DMat M n α
  Kzx1 : DMat M n α
  Kxx0 : DMat n n α
  Kxx1 : DMat n n α
  mX0 : DMat n 1 α
  mX1 : DMat n 1 α
  L0 : DMat M M α
  L1 : DMat M M α
  Li0 : DMat M M α
  Li1 : DMat M M α
  m : DMat M 1 α
  S : DMat M M α
  ε : α

/-- slice `0` of the argument of `self._cholesky_factor` -/
def bdCholArg0 (e : EnvBD M n α) : DMat M M α :=
  {lean(t['bdCholArg0'])}

/-- slice `1` of the argument of `self._cholesky_factor` -/
def bdCholArg1 (e : EnvBD M n α) : DMat M M α :=
  {lean(t['bdCholArg1'])}

/-- `predictive_mean` -/
def bdMean (e : EnvBD M n α) : DMat n 1 α :=
  {lean(t['bdMean'])}

/-- `predictive_covar` -/
def bdCov (e : EnvBD M n α) : DMat n n α :=
  {lean(t['bdCov'])}

/-! ### OrthogonallyDecoupledVariationalStrategy -/

/-- The base strategy's `q(f)` at `[x; Z_mean]` (mean `(μx, μz)`, covariance blocks `Cxx, Cxz, Czz`), the point mass `m`,
`ε = self.jitter_val`. -/
structure EnvOrth (M n : Nat) (α : Type) where
  μx : DMat n 1 α
  μz : DMat M 1 α
  Cxx : DMat n n α
  Cxz : DMat n M α
  Czz : DMat M M α
  m : DMat M 1 α
  ε : α

/-- `predictive_mean` -/
def oMean (e : EnvOrth M n α) : DMat n 1 α :=
  {lean(t['oMean'])}

/-- `predictive_covar` -/
def oCov (e : EnvOrth M n α) : DMat n n α :=
  {lean(t['oCov'])}

/-- mean of `prior_distribution` (evaluation mode) -/
def oPriorMean (e : EnvOrth M n α) : DMat M 1 α :=
  {lean(t['oPriorMean'])}

/-- covariance of `prior_distribution` (evaluation mode) -/
def oPriorCov (e : EnvOrth M n α) : DMat M M α :=
  {lean(t['oPriorCov'])}

/-- covariance of the prior cached by the training-mode forward -/
def oTrainPriorCov (e : EnvOrth M n α) : DMat M M α :=
  {lean(t['oTrainPriorCov'])}

/-- `kl_divergence()` in evaluation mode (`klBase = self.model.kl_divergence()`) -/
def oKLEval (e : EnvOrth M n α) (klBase : α) : α :=
  {lean_scalar(t['oKLEval'])}

/-- `kl_divergence()` after a training-mode forward (cached prior) -/
def oKLTrain (e : EnvOrth M n α) (klBase : α) : α :=
  {lean_scalar(t['oKLTrain'])}

/-! ### GridInterpolationVariationalStrategy -/

/-- `W` = the interpolation matrix of `_compute_grid(x)`; `(m, S)` = q(u); `Kzz, mZ` = the prior at the grid;
`ε = self.jitter_val`, `εd` = the default of `add_jitter()` (the source uses a literal instead). -/
structure EnvGrid (M n : Nat) (α : Type) where
  W : DMat n M α
  m : DMat M 1 α
  S : DMat M M α
  Kzz : DMat M M α
  mZ : DMat M 1 α
  ε : α
  εd : α

/-- `predictive_mean` -/
def gMean (e : EnvGrid M n α) : DMat n 1 α :=
  {lean(t['gMean'])}

/-- `predictive_covar` -/
def gCov (e : EnvGrid M n α) : DMat n n α :=
  {lean(t['gCov'])}

/-- mean of `prior_distribution` -/
def gPriorMean (e : EnvGrid M n α) : DMat M 1 α :=
  {lean(t['gPriorMean'])}

/-- covariance of `prior_distribution` -/
def gPriorCov (e : EnvGrid M n α) : DMat M M α :=
  {lean(t['gPriorCov'])}

/-- jitter `prior_distribution` adds to `Kzz` (a literal of the source) -/
def gPriorJitter (e : EnvGrid M n α) : α := {jit_sym(t['gPriorJitter'])}

end Gen.VariationalAlgebra
"""


def _elaborates(text, out_path):
    """Type-check the candidate generated file with Lean *before* it replaces the current one: a source change that
    leads to an ill-scoped / ill-typed term (e.g. a dropped transpose -> dimension mismatch) is a broken tie
    (`TranslateError`), never a generated module that does not build."""
    import subprocess
    lean_dir = os.path.dirname(os.path.dirname(os.path.dirname(os.path.abspath(out_path))))
    os.makedirs(os.path.join(lean_dir, ".audit"), exist_ok=True)
    cand = os.path.join(lean_dir, ".audit", os.path.basename(out_path)[:-5] + "Candidate.lean")
    with open(cand, "w") as fh:
        fh.write(text)
    try:
        p = subprocess.run(["lake", "env", "lean", cand], cwd=lean_dir, capture_output=True, text=True, timeout=600)
    finally:
        os.remove(cand)
    errs = [l for l in (p.stdout + p.stderr).split("\n") if "error" in l]
    return p.returncode == 0 and not errs, "\n".join(errs[:5])


def generate(repo, out_path):
    t = translate(repo)
    text = render(t)
    old = open(out_path).read() if os.path.exists(out_path) else None
    if old != text:
        ok, errs = _elaborates(text, out_path)
        if not ok:
            raise TranslateError("generated definitions do not elaborate (ill-scoped or ill-typed term for the current "
                                 "source; the previous generated file is kept):\n" + errs)
        tmp = out_path + ".tmp"
        with open(tmp, "w") as fh:
            fh.write(text)
        os.replace(tmp, out_path)
    return t, old is not None and old != text


if __name__ == "__main__":
    import sys
    repo = os.environ.get("VERIF_REPO", "/repo")
    out = os.path.join(os.path.dirname(os.path.dirname(os.path.dirname(os.path.abspath(__file__)))),
                       "lean", "GPVerif", "Gen", "VariationalAlgebra.lean")
    t, changed = generate(repo, out)
    print(sorted(t), "changed" if changed else "unchanged", file=sys.stderr)

"""G5 (wave 2) — per-pair symbolic execution of kernel `forward` methods and of the `sq_dist` / `dist` helpers.

Sources (working tree of $VERIF_REPO):
  gpytorch/kernels/kernel.py                 sq_dist (x1_eq_x2 x on/off diagonal), dist
  gpytorch/kernels/rbf_kernel.py             RBFKernel.forward, generic branch (+ postprocess_rbf)
  gpytorch/kernels/matern_kernel.py          MaternKernel.forward, generic branch, nu in {1/2, 3/2, 5/2}
  gpytorch/kernels/rq_kernel.py              RQKernel.forward (+ nested postprocess_rq)
  gpytorch/kernels/periodic_kernel.py        PeriodicKernel.forward
  gpytorch/kernels/cosine_kernel.py          CosineKernel.forward
  gpytorch/kernels/linear_kernel.py          LinearKernel.forward (x1 is x2: RootLinearOperator; else Matmul)
  gpytorch/kernels/polynomial_kernel.py      PolynomialKernel.forward (diag / addmm / batched matmul)
  gpytorch/kernels/piecewise_polynomial_kernel.py   PiecewisePolynomialKernel.forward, q = 0..3
  gpytorch/kernels/constant_kernel.py        ConstantKernel.forward

Output: lean/GPVerif/Gen/KernelFormulas.lean — one scalar term per configuration for ONE pair of rows
`x1 x2 : List α` (the entry (i, j) of the kernel matrix, rows i of the first and j of the second argument),
parameters as scalars / per-dimension lists, the distance callback (`covar_dist`, `torch.cdist`) a parameter.

Abstraction that is trusted (everything else is executed):
  * tensors are classified as  row (one row per point: x1, x2, centred/scaled copies, concatenations),
    rowscalar (one number per row: squared norms), pair (kernel-sized), dimpair (kernel-sized with a trailing
    per-dimension axis: `last_dim_is_batch=True`), param (scalar parameter), rowparam (per-dimension parameter);
  * pure shape operations (`unsqueeze`, `view`, `expand`, `to`, `[..., 0, :, None]`, `transpose` of a parameter,
    `keepdim`) do not change the value of an entry; `a.matmul(b.transpose(-2,-1))`, `torch.addmm`,
    `MatmulLinearOperator`, `RootLinearOperator` pair row i of the left with row j of the right operand
    (a right operand that *is* the x1 tensor — aliasing under `x1_eq_x2` — contributes row j of x2 = x1);
  * `res.diagonal(...).fill_(0)` writes only the entries with i = j (configuration `on_diag`);
  * in-place semantics (identity of tensor objects, `.clone()`, trailing-underscore methods) as in g5_formulas.
Python-level control flow is executed on the concrete configuration; a reached `raise` or any construct outside
this vocabulary raises TranslateError (broken tie).
"""
import ast
import os
from fractions import Fraction

from .g5_formulas import TranslateError, NatVar, Marker, const, is_num, lean_rat


class T:
    """tensor object (identity matters).  kind: row | rowscalar | pair | dimpair | param | rowparam"""
    __slots__ = ("kind", "val")

    def __init__(self, kind, val):
        self.kind, self.val = kind, val


class Transposed:
    def __init__(self, t):
        self.t = t


class DiagView:
    def __init__(self, t):
        self.t = t


class Opaque:
    """a shape / dtype / device value: may only flow into shape-only positions"""
    def __init__(self, what="shape"):
        self.what = what


class Pairing:
    """a LinearOperator standing for the matrix of dot products of rows (Root / Matmul)"""
    def __init__(self, val):
        self.val = val


class SelfObj:
    def __init__(self, attrs):
        self.attrs = attrs


class Closure:
    def __init__(self, node, env):
        self.node, self.env = node, env


SCALARS = ("pair", "param")


def sval(x):
    if isinstance(x, T):
        if x.kind not in SCALARS:
            raise TranslateError(f"{x.kind} tensor used where a per-pair scalar is expected")
        return x.val
    if isinstance(x, NatVar):
        return ("ofnat", x.expr)
    if isinstance(x, tuple) and x and x[0] in ("sqrtc", "pi"):
        return x
    if is_num(x):
        return ("const", const(x))
    raise TranslateError(f"unsupported scalar operand {x!r}")


def is_scalar(x):
    return (isinstance(x, T) and x.kind in SCALARS) or isinstance(x, NatVar) or is_num(x) or \
        (isinstance(x, tuple) and x and x[0] in ("sqrtc", "pi"))


def skind(*xs):
    return "pair" if any(isinstance(x, T) and x.kind == "pair" for x in xs) else "param"


def subst_row(e, old, new):
    if isinstance(e, tuple):
        if e == ("row", old):
            return ("row", new)
        return tuple(subst_row(x, old, new) for x in e)
    if isinstance(e, list):
        return [subst_row(x, old, new) for x in e]
    return e


def mentions(e, name):
    if isinstance(e, (tuple, list)):
        if e == ("row", name):
            return True
        return any(mentions(x, name) for x in e)
    return False


class KExec:
    def __init__(self, env, cfg, module_fns):
        self.env = dict(env)
        self.cfg = cfg
        self.fns = module_fns
        self.ret = None
        self.done = False

    # ------------------------------------------------------------------ statements
    def run(self, body):
        for st in body:
            if self.done:
                return
            self.stmt(st)

    def stmt(self, st):
        if isinstance(st, ast.Expr) and isinstance(st.value, ast.Constant) and isinstance(st.value.value, str):
            return
        if isinstance(st, ast.Assign):
            if len(st.targets) != 1:
                raise TranslateError(f"line {st.lineno}: chained assignment")
            tgt = st.targets[0]
            v = self.ev(st.value)
            if isinstance(tgt, ast.Name):
                self.env[tgt.id] = v
            elif isinstance(tgt, ast.Tuple) and all(isinstance(e, ast.Name) for e in tgt.elts) and \
                    isinstance(v, tuple) and len(v) == len(tgt.elts):
                for e, x in zip(tgt.elts, v):
                    self.env[e.id] = x
            else:
                raise TranslateError(f"line {st.lineno}: assignment target outside the vocabulary")
        elif isinstance(st, ast.If):
            c = self.ev(st.test)
            if not isinstance(c, bool):
                raise TranslateError(f"line {st.lineno}: branch condition is not concrete")
            self.run(st.body if c else st.orelse)
        elif isinstance(st, ast.For):
            if not isinstance(st.target, ast.Name) or st.orelse:
                raise TranslateError(f"line {st.lineno}: for-loop form outside the vocabulary")
            it = self.ev(st.iter)
            if not isinstance(it, (list, tuple, range)):
                raise TranslateError(f"line {st.lineno}: loop over a non-concrete iterable")
            for x in it:
                self.env[st.target.id] = x
                self.run(st.body)
                if self.done:
                    return
        elif isinstance(st, ast.FunctionDef):
            self.env[st.name] = Closure(st, self)
        elif isinstance(st, ast.Raise):
            raise TranslateError(f"line {st.lineno}: `raise` reached in the translated configuration")
        elif isinstance(st, ast.Expr):
            self.ev(st.value)
        elif isinstance(st, ast.Return):
            self.ret = self.ev(st.value) if st.value is not None else None
            self.done = True
        elif isinstance(st, ast.Pass):
            pass
        else:
            raise TranslateError(f"line {st.lineno}: statement {type(st).__name__} outside the vocabulary")

    # ------------------------------------------------------------------ expressions
    def ev(self, e):
        m = getattr(self, "ev_" + type(e).__name__, None)
        if m is None:
            raise TranslateError(f"line {getattr(e, 'lineno', '?')}: expression {type(e).__name__} outside the vocabulary")
        return m(e)

    def ev_Constant(self, e):
        return e.value

    def ev_Name(self, e):
        if e.id in self.env:
            return self.env[e.id]
        if e.id in ("len", "range", "any", "all"):
            return Marker(e.id)
        if e.id in self.fns:
            return Marker("modfn:" + e.id)
        if e.id in ("RootLinearOperator", "MatmulLinearOperator", "math", "torch", "trace_mode", "pi"):
            return Marker(e.id)
        raise TranslateError(f"line {e.lineno}: unknown name {e.id}")

    def ev_Tuple(self, e):
        out = []
        for x in e.elts:
            if isinstance(x, ast.Starred):
                v = self.ev(x.value)
                if isinstance(v, Opaque):
                    out.append(v)
                elif isinstance(v, tuple):
                    out += list(v)
                else:
                    raise TranslateError("starred non-tuple")
            else:
                out.append(self.ev(x))
        return tuple(out)

    def ev_List(self, e):
        return [self.ev(x) for x in e.elts]

    def ev_Attribute(self, e):
        if isinstance(e.value, ast.Name) and e.value.id == "math" and "math" not in self.env:
            if e.attr == "pi":
                return ("pi",)
            raise TranslateError(f"math.{e.attr} outside the vocabulary")
        o = self.ev(e.value)
        if isinstance(o, SelfObj):
            if e.attr in o.attrs:
                return o.attrs[e.attr]
            raise TranslateError(f"line {e.lineno}: self.{e.attr} outside the vocabulary")
        if isinstance(o, T):
            if e.attr == "requires_grad":
                return bool(self.cfg.get("requires_grad", False))
            if e.attr == "shape":
                if o.kind == "row":
                    return ShapeOf(o)
                if o.kind == "pair":
                    return ("N",) if self.cfg.get("diag") else ("N", "M")
                return Opaque()
            if e.attr in ("dtype", "device"):
                return Opaque(e.attr)
        raise TranslateError(f"line {e.lineno}: attribute .{e.attr} outside the vocabulary")

    def ev_Subscript(self, e):
        o = self.ev(e.value)
        if isinstance(o, ShapeOf):
            s = e.slice
            if isinstance(s, ast.UnaryOp) and isinstance(s.op, ast.USub) and isinstance(s.operand, ast.Constant):
                i = -s.operand.value
                if i == -1:
                    return NatVar(("len", "x1"))        # the input dimension D
                return Opaque()
            if isinstance(s, ast.Constant) and s.value == 1 and self.cfg.get("last_dim_is_batch") is False:
                return Opaque()
            return Opaque()
        if isinstance(o, T) and o.kind in ("rowparam", "param"):
            # pure re-shaping index such as lengthscale[..., 0, :, None, None]
            parts = e.slice.elts if isinstance(e.slice, ast.Tuple) else [e.slice]
            for p in parts:
                ok = (isinstance(p, ast.Constant) and (p.value is Ellipsis or p.value is None or p.value == 0)) or \
                    (isinstance(p, ast.Slice) and p.lower is None and p.upper is None and p.step is None)
                if not ok:
                    raise TranslateError(f"line {e.lineno}: parameter indexing outside the vocabulary")
            return o
        if isinstance(o, (tuple, list)):
            i = self.ev(e.slice) if not isinstance(e.slice, ast.Slice) else None
            if isinstance(i, int):
                return o[i]
        raise TranslateError(f"line {e.lineno}: subscript outside the vocabulary")

    def ev_UnaryOp(self, e):
        v = self.ev(e.operand)
        if isinstance(e.op, ast.USub):
            if is_num(v):
                return -const(v)
            if isinstance(v, tuple) and v and v[0] == "sqrtc":
                return T("param", ("neg", v))
            if isinstance(v, T) and v.kind in SCALARS:
                return T(v.kind, ("neg", v.val))
            raise TranslateError(f"line {e.lineno}: negation of {getattr(v, 'kind', v)!r}")
        if isinstance(e.op, ast.Not) and isinstance(v, bool):
            return not v
        raise TranslateError(f"line {e.lineno}: unary operator outside the vocabulary")

    def ev_BoolOp(self, e):
        # short-circuit, like Python
        is_and = isinstance(e.op, ast.And)
        for x in e.values:
            v = self.ev(x)
            if not isinstance(v, bool):
                raise TranslateError(f"line {e.lineno}: boolean operator on a non-concrete value")
            if is_and and not v:
                return False
            if not is_and and v:
                return True
        return is_and

    def ev_Compare(self, e):
        if len(e.ops) != 1:
            raise TranslateError("chained comparison")
        a, b = self.ev(e.left), self.ev(e.comparators[0])
        op = e.ops[0]
        if isinstance(a, SizeOf) and isinstance(b, SizeOf) and isinstance(op, ast.Eq):
            return bool(self.cfg.get("x1_eq_x2", False))
        if a is None or b is None:
            if isinstance(op, ast.Is):
                return a is b
            if isinstance(op, ast.IsNot):
                return a is not b
        if isinstance(a, bool) and isinstance(b, bool) and isinstance(op, ast.Is):
            return a is b
        if not (is_num(a) and is_num(b)):
            raise TranslateError(f"line {e.lineno}: comparison of non-concrete values")
        a, b = const(a), const(b)
        table = {ast.Eq: a == b, ast.NotEq: a != b, ast.Gt: a > b, ast.GtE: a >= b, ast.Lt: a < b, ast.LtE: a <= b}
        for k, v in table.items():
            if isinstance(op, k):
                return v
        raise TranslateError("comparison operator outside the vocabulary")

    def ev_IfExp(self, e):
        c = self.ev(e.test)
        if not isinstance(c, bool):
            raise TranslateError(f"line {e.lineno}: conditional expression on a non-concrete test")
        return self.ev(e.body if c else e.orelse)

    def ev_BinOp(self, e):
        return self.binop(e.op, self.ev(e.left), self.ev(e.right), e.lineno)

    def binop(self, op, a, b, lineno):
        name = {ast.Add: "add", ast.Sub: "sub", ast.Mult: "mul", ast.Div: "div", ast.Pow: "pow"}.get(type(op))
        if name is None:
            raise TranslateError(f"line {lineno}: operator {type(op).__name__} outside the vocabulary")
        if isinstance(a, Opaque) or isinstance(b, Opaque) or (isinstance(a, tuple) and isinstance(b, tuple) and name == "add"
                                                             and not (a and a[0] in ("sqrtc", "pi")) and not (b and b[0] in ("sqrtc", "pi"))):
            return Opaque()                                   # shape arithmetic
        if isinstance(a, int) and isinstance(b, int) and not isinstance(a, bool) and not isinstance(b, bool) \
                and name in ("add", "sub", "mul"):
            return a + b if name == "add" else a - b if name == "sub" else a * b
        if is_num(a) and is_num(b):
            a, b = const(a), const(b)
            if name == "pow":
                if b.denominator != 1:
                    raise TranslateError("non-integer constant power")
                return a ** int(b)
            return a + b if name == "add" else a - b if name == "sub" else a * b if name == "mul" else a / b
        # natural-number arithmetic (j = floor(D/2) + q + 1)
        if isinstance(a, NatVar) and name == "add" and (isinstance(b, NatVar) or (isinstance(b, int) and not isinstance(b, bool) and b >= 0)):
            return NatVar(("natadd", a.expr, b.expr if isinstance(b, NatVar) else ("natlit", b)))
        if isinstance(a, NatVar) and name == "div" and is_num(b) and const(b) == 2:
            return HalfNat(a)
        # rows
        ra = isinstance(a, T) and a.kind == "row"
        rb = isinstance(b, T) and b.kind == "row"
        if ra or rb:
            if ra and rb and name in ("sub", "mul"):
                return T("row", ({"sub": "rsub", "mul": "rmul"}[name], a.val, b.val))
            if ra and isinstance(b, T) and b.kind == "rowparam" and name in ("mul", "div"):
                return T("row", ({"mul": "rmulp", "div": "rdivp"}[name], a.val, b.val))
            if rb and name == "mul" and is_scalar(a):
                return T("row", ("rmuls", b.val, sval(a)))
            if ra and name == "mul" and is_scalar(b):
                return T("row", ("rmuls", a.val, sval(b)))
            raise TranslateError(f"line {lineno}: row arithmetic `{name}` outside the vocabulary")
        if isinstance(a, T) and a.kind == "rowparam" and name == "div" and is_scalar(b) and not isinstance(b, T):
            return T("rowparam", ("rpdivs", a.val, sval(b)))
        if name == "pow":
            if isinstance(b, NatVar):
                return T(skind(a), ("npow", sval(a), b.expr))
            if is_num(b) and const(b).denominator == 1 and const(b) >= 0:
                return T(skind(a), ("npow", sval(a), ("natlit", int(const(b)))))
            raise TranslateError(f"line {lineno}: power with a non-integer exponent")
        if is_scalar(a) and is_scalar(b):
            return T(skind(a, b), (name, sval(a), sval(b)))
        raise TranslateError(f"line {lineno}: `{name}` of {getattr(a, 'kind', type(a).__name__)} and "
                             f"{getattr(b, 'kind', type(b).__name__)} outside the vocabulary")

    # ------------------------------------------------------------------ calls
    def call_closure(self, clo, args, kwargs):
        node = clo.node
        names = [a.arg for a in node.args.args]
        defaults = [self_ev_default(d) for d in node.args.defaults]
        env = dict(clo.env.env)
        vals = list(args)
        for i, n in enumerate(names):
            if i < len(vals):
                env[n] = vals[i]
            elif n in kwargs:
                env[n] = kwargs[n]
            else:
                j = i - (len(names) - len(defaults))
                if j < 0:
                    raise TranslateError(f"missing argument {n} of {node.name}")
                env[n] = defaults[j]
        ex = KExec(env, self.cfg, self.fns)
        ex.run(node.body)
        return ex.ret

    def ev_args(self, nodes):
        out = []
        for a in nodes:
            if isinstance(a, ast.Starred):
                v = self.ev(a.value)
                if isinstance(v, (tuple, list)):
                    out += list(v)
                elif isinstance(v, Opaque):
                    out.append(v)
                else:
                    raise TranslateError("starred argument of a non-tuple")
            else:
                out.append(self.ev(a))
        return out

    def pair_dot(self, left, right, lineno):
        """entry (i,j) of left @ right^T"""
        if not (isinstance(left, T) and left.kind == "row" and isinstance(right, Transposed) and right.t.kind == "row"):
            raise TranslateError(f"line {lineno}: matrix product form outside the vocabulary")
        lv, rv = left.val, right.t.val
        if mentions(lv, "x2"):
            raise TranslateError(f"line {lineno}: left operand of a product built from x2")
        if mentions(rv, "x1"):
            if not self.cfg.get("x1_eq_x2"):
                raise TranslateError(f"line {lineno}: right operand built from x1 although x1 is not x2")
            rv = subst_row(rv, "x1", "x2")
        return ("dot", lv, rv)

    def ev_Call(self, e):
        f = e.func
        kwargs = {}
        for k in e.keywords:
            if k.arg is None:
                v = self.ev(k.value)
                if not isinstance(v, dict):
                    raise TranslateError(f"line {e.lineno}: ** of a non-dict")
                kwargs.update(v)
            else:
                kwargs[k.arg] = self.ev(k.value)
        # ---- plain names
        if isinstance(f, ast.Name):
            fn = self.ev(f)
            args = self.ev_args(e.args)
            if isinstance(fn, Closure):
                return self.call_closure(fn, args, kwargs)
            if isinstance(fn, Marker):
                if fn.name == "len":
                    (a,) = args
                    if isinstance(a, (tuple, list)):
                        return len(a)
                    raise TranslateError("len of a non-tuple")
                if fn.name == "range":
                    if all(isinstance(a, int) for a in args):
                        return range(*args)
                    raise TranslateError("range over non-concrete bounds")
                if fn.name.startswith("modfn:"):
                    node = self.fns[fn.name[6:]]
                    return self.call_closure(Closure(node, KExec({}, self.cfg, self.fns)), args, kwargs)
                if fn.name == "RootLinearOperator":
                    (a,) = args
                    if not self.cfg.get("x1_eq_x2"):
                        raise TranslateError("RootLinearOperator although x1 is not x2")
                    return Pairing(self.pair_dot(a, Transposed(a), e.lineno))
                if fn.name == "MatmulLinearOperator":
                    a, b = args
                    return Pairing(self.pair_dot(a, b, e.lineno))
            raise TranslateError(f"line {e.lineno}: call of {f.id} outside the vocabulary")
        if not isinstance(f, ast.Attribute):
            raise TranslateError(f"line {e.lineno}: call form outside the vocabulary")
        # ---- module functions
        if isinstance(f.value, ast.Name) and f.value.id in ("math", "torch") and f.value.id not in self.env:
            return self.module_call(f.value.id, f.attr, self.ev_args(e.args), kwargs, e.lineno)
        if isinstance(f.value, ast.Name) and f.value.id == "trace_mode" and f.attr == "on":
            return bool(self.cfg.get("trace_mode", False))
        obj = self.ev(f.value)
        args = self.ev_args(e.args)
        return self.method(obj, f.attr, args, kwargs, e.lineno)

    def module_call(self, mod, fn, args, kw, lineno):
        if mod == "math":
            if fn == "sqrt" and len(args) == 1 and is_num(args[0]):
                return ("sqrtc", const(args[0]))
            if fn == "floor" and len(args) == 1 and isinstance(args[0], HalfNat):
                return NatVar(("natdiv2", args[0].n.expr))
            raise TranslateError(f"line {lineno}: math.{fn} outside the vocabulary")
        if fn == "equal" and len(args) == 2:
            return bool(self.cfg.get("x1_eq_x2", False))
        if fn in ("exp", "cos", "sin") and len(args) == 1:
            return T(skind(args[0]), (fn, sval(args[0])))
        if fn == "ones_like" and len(args) == 1 and isinstance(args[0], T) and args[0].kind == "rowscalar":
            return T("rowscalar", ("const", Fraction(1)))
        if fn == "cat" and len(args) == 1 and isinstance(args[0], list) and kw.get("dim") == -1:
            items = []
            for t in args[0]:
                if isinstance(t, T) and t.kind == "row":
                    items.append(("rowpart", t.val))
                elif isinstance(t, T) and t.kind == "rowscalar":
                    items.append(("single", t.val))
                else:
                    raise TranslateError(f"line {lineno}: torch.cat of {getattr(t, 'kind', t)!r}")
            return T("row", ("rcat", items))
        if fn == "cdist" and len(args) == 2 and all(isinstance(a, T) and a.kind == "row" for a in args):
            return T("pair", ("dist", "cdist", args[0].val, args[1].val))
        if fn == "addmm" and len(args) == 3:
            return T("pair", ("add", sval(args[0]), self.pair_dot(args[1], args[2], lineno)))
        if fn == "matmul" and len(args) == 2:
            return T("pair", self.pair_dot(args[0], args[1], lineno))
        if fn == "max" and len(args) == 2 and not kw:
            return T(skind(*args), ("max", sval(args[0]), sval(args[1])))
        if fn == "tensor" and len(args) == 1 and is_num(args[0]):
            return T("param", ("const", const(args[0])))
        if fn in ("promote_types", "broadcast_shapes"):
            return Opaque()
        raise TranslateError(f"line {lineno}: torch.{fn} outside the vocabulary")

    def method(self, obj, meth, args, kw, lineno):
        if isinstance(obj, dict):
            if meth in ("pop", "get") and 1 <= len(args) <= 2 and isinstance(args[0], str):
                d = args[1] if len(args) == 2 else None
                return obj.pop(args[0], d) if meth == "pop" else obj.get(args[0], d)
            raise TranslateError(f"line {lineno}: dict.{meth}")
        if isinstance(obj, SelfObj) and meth == "covar_dist":
            a, b = args
            if not (isinstance(a, T) and isinstance(b, T) and a.kind == b.kind == "row"):
                raise TranslateError(f"line {lineno}: covar_dist expects two row tensors")
            for k_ in kw:
                if k_ not in ("square_dist", "diag", "last_dim_is_batch"):
                    raise TranslateError(f"line {lineno}: covar_dist keyword {k_}")
            if kw.get("diag", False) is not bool(self.cfg.get("diag", False)):
                raise TranslateError(f"line {lineno}: covar_dist called with a diag flag different from forward's")
            name = "sqd" if kw.get("square_dist", False) else "distf"
            if kw.get("last_dim_is_batch", False):
                return T("dimpair", ("dzip", name, a.val, b.val))
            return T("pair", ("dist", name, a.val, b.val))
        if isinstance(obj, Pairing):
            if meth == "diagonal":
                return T("pair", obj.val)
            raise TranslateError(f"line {lineno}: LinearOperator.{meth}")
        if isinstance(obj, DiagView):
            if meth == "fill_" and len(args) == 1 and is_num(args[0]):
                if self.cfg.get("on_diag"):
                    obj.t.val = ("const", const(args[0]))
                return obj
            raise TranslateError(f"line {lineno}: diagonal view .{meth}")
        if not isinstance(obj, T):
            raise TranslateError(f"line {lineno}: method .{meth} on {type(obj).__name__}")
        k = obj.kind
        # ---- pure shape operations
        if meth in ("unsqueeze", "view", "expand", "to", "contiguous") and k in ("param", "rowparam", "pair"):
            return obj if meth != "to" else T(k, obj.val)
        if meth == "size" and not args:
            return SizeOf(obj)
        if meth == "dim" and not args:
            return int(self.cfg.get("ndim", 2))
        if meth == "transpose" and k == "row" and sorted(args) == [-2, -1]:
            return Transposed(obj)
        if meth == "clone" and not args:
            return T(k, obj.val)
        # ---- rows
        if k == "row":
            if meth == "mean":
                dim = args[0] if args else kw.get("dim")
                if dim != -2 or kw.get("keepdim") is not True or obj.val != ("row", "x1"):
                    raise TranslateError(f"line {lineno}: only x1.mean(-2, keepdim=True) is in the vocabulary")
                return T("row", ("row", "mean"))
            if meth == "div" and len(args) == 1 and isinstance(args[0], T):
                p = args[0]
                if p.kind == "rowparam":
                    return T("row", ("rdivp", obj.val, p.val))
                if p.kind == "param":
                    return T("row", ("rdivs", obj.val, p.val))
            if meth == "pow" and args == [2]:
                return T("row", ("rsq", obj.val))
            if meth == "sum" and kw.get("dim", args[0] if args else None) == -1:
                # (x1 * x2).sum(-1) or x.pow(2).sum(-1, keepdim=True)
                if kw.get("keepdim"):
                    return T("rowscalar", ("rsum", obj.val))
                if not self.cfg.get("diag"):
                    raise TranslateError(f"line {lineno}: row reduction to a kernel entry outside diag mode")
                return T("pair", ("rsum", obj.val))
            if meth == "matmul" and len(args) == 1:
                return T("pair", self.pair_dot(obj, args[0], lineno))
            raise TranslateError(f"line {lineno}: row method .{meth} outside the vocabulary")
        if k == "rowparam":
            if meth == "sqrt" and not args:
                return T("rowparam", ("rpsqrt", obj.val))
            raise TranslateError(f"line {lineno}: per-dimension parameter method .{meth}")
        if k == "dimpair":
            if meth == "sin" and not args:
                return T("dimpair", ("dsin", obj.val))
            if meth == "pow" and len(args) == 1 and is_num(args[0]) and const(args[0]).denominator == 1:
                return T("dimpair", ("dnpow", obj.val, int(const(args[0]))))
            if meth == "div" and len(args) == 1 and isinstance(args[0], T) and args[0].kind == "rowparam":
                return T("dimpair", ("ddivp", obj.val, args[0].val))
            if meth == "mul" and len(args) == 1 and is_num(args[0]):
                return T("dimpair", ("dmuls", obj.val, ("const", const(args[0]))))
            if meth == "sum" and kw.get("dim") == (-2 if self.cfg.get("diag") else -3):
                return T("pair", ("dsum", obj.val))
            raise TranslateError(f"line {lineno}: per-dimension kernel tensor method .{meth}")
        # ---- scalars (pair / param)
        if meth == "diagonal" and k == "pair":
            return DiagView(obj)
        un = {"exp": "exp", "sin": "sin", "cos": "cos", "sqrt": "sqrt", "neg": "neg"}
        if meth in un and not args:
            return T(k, (un[meth], obj.val))
        if meth.endswith("_") and meth[:-1] in un and not args:
            obj.val = (un[meth[:-1]], obj.val)
            return obj
        bi = {"div": "div", "mul": "mul", "add": "add", "sub": "sub"}
        if meth in bi and len(args) == 1 and is_scalar(args[0]):
            return T(skind(obj, args[0]), (bi[meth], obj.val, sval(args[0])))
        if meth.endswith("_") and meth[:-1] in bi and len(args) == 1 and is_scalar(args[0]):
            obj.val = (bi[meth[:-1]], obj.val, sval(args[0]))
            obj.kind = skind(obj, args[0])
            return obj
        if meth in ("clamp_min", "clamp_min_") and len(args) == 1 and is_num(args[0]):
            v = ("max", obj.val, ("const", const(args[0])))
            if meth.endswith("_"):
                obj.val = v
                return obj
            return T(k, v)
        if meth in ("pow", "pow_") and len(args) == 1:
            n = args[0]
            if isinstance(n, NatVar):
                v = ("npow", obj.val, n.expr)
            elif is_num(n) and const(n).denominator == 1 and const(n) >= 0:
                v = ("npow", obj.val, ("natlit", int(const(n))))
            elif isinstance(n, T) and n.kind in SCALARS:
                v = ("rpow", obj.val, n.val)
            else:
                raise TranslateError(f"line {lineno}: .{meth} exponent outside the vocabulary")
            if meth == "pow_":
                obj.val = v
                return obj
            return T(skind(obj, n), v)
        if meth == "square" and not args:
            return T(k, ("npow", obj.val, ("natlit", 2)))
        raise TranslateError(f"line {lineno}: tensor method .{meth} on {k} outside the vocabulary")


class ShapeOf:
    def __init__(self, t):
        self.t = t


class SizeOf:
    def __init__(self, t):
        self.t = t


class HalfNat:
    def __init__(self, n):
        self.n = n


def self_ev_default(d):
    if isinstance(d, ast.Constant):
        return d.value
    raise TranslateError("non-constant default argument")


# ----------------------------------------------------------------------------------------- Lean emission

def lnat(n):
    k = n[0]
    if k == "nat":
        return n[1]
    if k == "natlit":
        return str(n[1])
    if k == "natadd":
        return f"({lnat(n[1])} + {lnat(n[2])})"
    if k == "natdiv2":
        return f"({lnat(n[1])} / 2)"
    if k == "len":
        return f"{n[1]}.length"
    raise TranslateError(f"nat node {k}")


def lrp(p):
    k = p[0]
    if k == "rp":
        return p[1]
    if k == "rpdivs":
        return f"(Scalar.rowDivS {lrp(p[1])} {ls(p[2])})"
    if k == "rpsqrt":
        return f"({lrp(p[1])}.map Scalar.sqrt)"
    raise TranslateError(f"rowparam node {k}")


def lrow(r):
    k = r[0]
    if k == "row":
        return r[1]
    if k == "rsub":
        return f"(Scalar.rowSub {lrow(r[1])} {lrow(r[2])})"
    if k == "rmul":
        return f"(Scalar.rowMul {lrow(r[1])} {lrow(r[2])})"
    if k == "rdivs":
        return f"(Scalar.rowDivS {lrow(r[1])} {ls(r[2])})"
    if k == "rmuls":
        return f"(Scalar.rowMulS {lrow(r[1])} {ls(r[2])})"
    if k == "rdivp":
        return f"(Scalar.rowDiv {lrow(r[1])} {lrp(r[2])})"
    if k == "rmulp":
        return f"(Scalar.rowMul {lrow(r[1])} {lrp(r[2])})"
    if k == "rsq":
        return f"({lrow(r[1])}.map fun t => Scalar.npow t 2)"
    if k == "rcat":
        parts = [lrow(p[1]) if p[0] == "rowpart" else f"[{ls(p[1])}]" for p in r[1]]
        return "(" + " ++ ".join(parts) + ")"
    raise TranslateError(f"row node {k}")


def ldp(d):
    k = d[0]
    if k == "dzip":
        return f"(Scalar.zip (fun u v => {d[1]} [u] [v]) {lrow(d[2])} {lrow(d[3])})"
    if k == "dsin":
        return f"({ldp(d[1])}.map Scalar.sin)"
    if k == "dnpow":
        return f"({ldp(d[1])}.map fun t => Scalar.npow t {d[2]})"
    if k == "ddivp":
        return f"(Scalar.rowDiv {ldp(d[1])} {lrp(d[2])})"
    if k == "dmuls":
        return f"(Scalar.rowMulS {ldp(d[1])} {ls(d[2])})"
    raise TranslateError(f"per-dimension node {k}")


def ls(x):
    k = x[0]
    if k == "const":
        return f"(Scalar.lit {lean_rat(x[1])})"
    if k == "sqrtc":
        return f"(Scalar.sqrt (Scalar.lit {lean_rat(x[1])}))"
    if k == "pi":
        return "Scalar.pi"
    if k == "var":
        return x[1]
    if k == "ofnat":
        return f"(Scalar.lit (({lnat(x[1])} : Nat) : Rat))"
    if k == "dist":
        return f"({x[1]} {lrow(x[2])} {lrow(x[3])})"
    if k == "dot":
        return f"(Scalar.dot {lrow(x[1])} {lrow(x[2])})"
    if k == "rsum":
        return f"(Scalar.sum {lrow(x[1])})"
    if k == "dsum":
        return f"(Scalar.sum {ldp(x[1])})"
    if k in ("add", "sub", "mul", "div"):
        return f"({ls(x[1])} {dict(add='+', sub='-', mul='*', div='/')[k]} {ls(x[2])})"
    if k == "neg":
        return f"(-{ls(x[1])})"
    if k in ("exp", "sin", "cos", "sqrt"):
        return f"(Scalar.{k} {ls(x[1])})"
    if k == "max":
        return f"(Scalar.max {ls(x[1])} {ls(x[2])})"
    if k == "npow":
        return f"(Scalar.npow {ls(x[1])} {lnat(x[2])})"
    if k == "rpow":
        return f"(Scalar.rpow {ls(x[1])} {ls(x[2])})"
    raise TranslateError(f"scalar node {k}")


# ----------------------------------------------------------------------------------------- drivers

def _module(repo, rel):
    p = os.path.join(repo, rel)
    tree = ast.parse(open(p).read(), p)
    fns = {n.name: n for n in tree.body if isinstance(n, ast.FunctionDef)}
    classes = {n.name: {m.name: m for m in n.body if isinstance(m, ast.FunctionDef)} for n in tree.body
               if isinstance(n, ast.ClassDef)}
    return fns, classes


def _bind(fn, given):
    """environment from the signature: explicit values, declared defaults, `**params` -> {}"""
    env = {}
    a = fn.args
    names = [x.arg for x in a.args]
    defaults = [self_ev_default(d) for d in a.defaults]
    for i, n in enumerate(names):
        if n in given:
            env[n] = given[n]
        else:
            j = i - (len(names) - len(defaults))
            if j < 0:
                raise TranslateError(f"{fn.name}: no value for argument {n}")
            env[n] = defaults[j]
    if a.kwarg:
        env[a.kwarg.arg] = {}
    if a.vararg or a.kwonlyargs:
        raise TranslateError(f"{fn.name}: signature outside the vocabulary")
    unknown = set(given) - set(names)
    if unknown:
        raise TranslateError(f"{fn.name}: signature changed, no argument(s) {sorted(unknown)}")
    return env


def run_forward(fn, fns, self_attrs, cfg, extra=None):
    given = {"self": SelfObj(dict(self_attrs, covar_dist=Marker("covar_dist"))),
             "x1": T("row", ("row", "x1")), "x2": T("row", ("row", "x2"))}
    if "diag" in [a.arg for a in fn.args.args]:
        given["diag"] = bool(cfg.get("diag", False))
    given.update(extra or {})
    ex = KExec(_bind(fn, given), cfg, fns)
    ex.run(fn.body)
    r = ex.ret
    if isinstance(r, Pairing):
        r = T("pair", r.val)
    if isinstance(r, T) and r.kind in SCALARS:
        return r.val
    if is_num(r):
        return ("const", const(r))
    raise TranslateError(f"{fn.name}: does not return a kernel entry in configuration {cfg}")


HEADER = """/-
GENERATED by harness/translate/g5_kernels.py from $VERIF_REPO — do not edit.
Per-pair terms of kernel `forward` methods and of the `sq_dist` / `dist` helpers (entry (i,j): `x1` = row i of the
first argument, `x2` = row j of the second, `mean` = the row `x1.mean(-2)`); parameters as scalars or
per-dimension lists; the distance callbacks `sqd` / `distf` (`covar_dist`) and `cdist` (`torch.cdist`) are
parameters.  Shape-only operations and in-place aliasing have been resolved by the symbolic executor.
-/
import GPVerif.Model.Scalar

set_option linter.unusedVariables false

namespace Gen.KernelFormulas

variable {α : Type} [Add α] [Sub α] [Mul α] [Div α] [Neg α] [Scalar α]

"""

CB = "(sqd distf : List α → List α → α)"


def translate(repo):
    out = [HEADER]

    def emit(doc, name, params, term):
        out.append(f"/-- {doc} -/\ndef {name} {params} : α :=\n  {ls(term)}\n\n")

    rp = lambda n: T("rowparam", ("rp", n))          # noqa: E731
    sp = lambda n: T("param", ("var", n))            # noqa: E731

    # ---------------- kernel.py helpers
    fns, _ = _module(repo, "gpytorch/kernels/kernel.py")
    for tag, cfg in (("", {"x1_eq_x2": False, "on_diag": False}),
                     ("SameOff", {"x1_eq_x2": True, "on_diag": False}),
                     ("SameDiag", {"x1_eq_x2": True, "on_diag": True})):
        fn = fns["sq_dist"]
        ex = KExec(_bind(fn, {"x1": T("row", ("row", "x1")), "x2": T("row", ("row", "x2")),
                              "x1_eq_x2": cfg["x1_eq_x2"]}), cfg, fns)
        ex.run(fn.body)
        if not (isinstance(ex.ret, T) and ex.ret.kind == "pair"):
            raise TranslateError("sq_dist does not return a kernel-sized tensor")
        emit(f"`sq_dist(x1, x2, x1_eq_x2={cfg['x1_eq_x2']})`, entry {'on' if cfg['on_diag'] else 'off'} the diagonal "
             "(no input requires grad)", f"sqDistGen{tag}", "(x1 x2 mean : List α)", ex.ret.val)
        fn = fns["dist"]
        ex = KExec(_bind(fn, {"x1": T("row", ("row", "x1")), "x2": T("row", ("row", "x2")),
                              "x1_eq_x2": cfg["x1_eq_x2"]}), cfg, fns)
        ex.run(fn.body)
        if not (isinstance(ex.ret, T) and ex.ret.kind == "pair"):
            raise TranslateError("dist does not return a kernel-sized tensor")
        emit(f"`dist(x1, x2, x1_eq_x2={cfg['x1_eq_x2']})`, entry {'on' if cfg['on_diag'] else 'off'} the diagonal",
             f"distGen{tag}", "(cdist : List α → List α → α) (x1 x2 mean : List α)", ex.ret.val)

    # ---------------- RBF generic branch
    fns, cls = _module(repo, "gpytorch/kernels/rbf_kernel.py")
    for tag, diag in (("", False), ("Diag", True)):
        t = run_forward(cls["RBFKernel"]["forward"], fns, {"lengthscale": rp("lengthscale"), "ard_num_dims": None},
                        {"requires_grad": True, "diag": diag})
        emit(f"`RBFKernel.forward`, generic (autograd) branch, diag={diag}", f"rbfGeneric{tag}",
             f"{CB} (x1 x2 lengthscale : List α)", t)

    # ---------------- Matern generic branch
    fns, cls = _module(repo, "gpytorch/kernels/matern_kernel.py")
    for tag, nu in (("12", Fraction(1, 2)), ("32", Fraction(3, 2)), ("52", Fraction(5, 2))):
        t = run_forward(cls["MaternKernel"]["forward"], fns,
                        {"lengthscale": rp("lengthscale"), "ard_num_dims": None, "nu": nu},
                        {"requires_grad": True, "diag": False})
        emit(f"`MaternKernel.forward`, generic branch, nu = {nu}", f"matern{tag}Generic",
             f"{CB} (x1 x2 mean lengthscale : List α)", t)

    # ---------------- RQ
    fns, cls = _module(repo, "gpytorch/kernels/rq_kernel.py")
    for tag, diag in (("", False), ("Diag", True)):
        t = run_forward(cls["RQKernel"]["forward"], fns,
                        {"lengthscale": rp("lengthscale"), "alpha": sp("alpha"), "batch_shape": ()}, {"diag": diag})
        emit(f"`RQKernel.forward` (with the nested `postprocess_rq`), diag={diag}", f"rq{tag}",
             f"{CB} (x1 x2 lengthscale : List α) (alpha : α)", t)

    # ---------------- Periodic
    fns, cls = _module(repo, "gpytorch/kernels/periodic_kernel.py")
    for tag, diag in (("", False), ("Diag", True)):
        t = run_forward(cls["PeriodicKernel"]["forward"], fns,
                        {"lengthscale": rp("lengthscale"), "period_length": rp("period_length")}, {"diag": diag})
        emit(f"`PeriodicKernel.forward`, diag={diag}", f"periodic{tag}",
             f"{CB} (x1 x2 lengthscale period_length : List α)", t)

    # ---------------- Cosine
    fns, cls = _module(repo, "gpytorch/kernels/cosine_kernel.py")
    t = run_forward(cls["CosineKernel"]["forward"], fns, {"period_length": sp("period_length")}, {"diag": False})
    emit("`CosineKernel.forward`", "cosine", f"{CB} (x1 x2 : List α) (period_length : α)", t)

    # ---------------- Linear
    fns, cls = _module(repo, "gpytorch/kernels/linear_kernel.py")
    for tag, same in (("", False), ("Same", True)):
        t = run_forward(cls["LinearKernel"]["forward"], fns, {"variance": rp("variance")},
                        {"diag": False, "x1_eq_x2": same})
        emit(f"`LinearKernel.forward`, x1 {'is' if same else 'is not'} x2 "
             f"({'RootLinearOperator' if same else 'MatmulLinearOperator'})", f"linear{tag}",
             "(x1 x2 variance : List α)", t)

    # ---------------- Polynomial
    fns, cls = _module(repo, "gpytorch/kernels/polynomial_kernel.py")
    attrs = {"offset": sp("offset"), "power": NatVar(("nat", "power")), "batch_shape": ()}
    for tag, cfg in (("", {"diag": False, "ndim": 2}), ("Batched", {"diag": False, "ndim": 3}), ("Diag", {"diag": True, "ndim": 2})):
        t = run_forward(cls["PolynomialKernel"]["forward"], fns, attrs, cfg)
        emit(f"`PolynomialKernel.forward`, configuration {cfg}", f"polynomial{tag}",
             "(x1 x2 : List α) (offset : α) (power : Nat)", t)

    # ---------------- Piecewise polynomial
    fns, cls = _module(repo, "gpytorch/kernels/piecewise_polynomial_kernel.py")
    for q in range(4):
        t = run_forward(cls["PiecewisePolynomialKernel"]["forward"], fns,
                        {"lengthscale": rp("lengthscale"), "q": q}, {"diag": False, "last_dim_is_batch": False})
        emit(f"`PiecewisePolynomialKernel.forward`, q = {q} (j = floor(D/2) + q + 1 with D = x1.shape[-1])",
             f"piecewisePolynomial{q}", f"{CB} (x1 x2 lengthscale : List α)", t)

    # ---------------- Constant
    fns, cls = _module(repo, "gpytorch/kernels/constant_kernel.py")
    for tag, diag in (("", False), ("Diag", True)):
        t = run_forward(cls["ConstantKernel"]["forward"], fns, {"constant": sp("constant")}, {"diag": diag})
        emit(f"`ConstantKernel.forward`, diag={diag}", f"constantK{tag}", "(x1 x2 : List α) (constant : α)", t)

    out.append("end Gen.KernelFormulas\n")
    return "".join(out)


def generate(repo, path):
    text = translate(repo)
    old = open(path).read() if os.path.exists(path) else None
    if old != text:
        with open(path, "w") as fh:
            fh.write(text)
    return old != text


if __name__ == "__main__":
    import sys
    print(translate(sys.argv[1] if len(sys.argv) > 1 else os.environ.get("VERIF_REPO", "/repo")))

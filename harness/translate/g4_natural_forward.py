"""G4 (natural-parameter part) — Python-AST -> Lean translator for the FORWARD side of the natural parameterisation.

Reads `$VERIF_REPO/gpytorch/variational/natural_variational_distribution.py`:

  * `_NaturalToMuVarSqrt._forward(nat_mean, nat_covar)`           -> `Gen.NaturalForward.naturalForward`
  * `_NaturalToMuVarSqrt.forward` / `.backward` (autograd plumbing)  -> facts `savedAreOutputs`, `backwardReadsSaved`
  * `NaturalVariationalDistribution.forward`                         -> `Gen.NaturalForward.distForward` + `applyArgs`

(The BACKWARD side `_backward` / `_cholesky_backward` / `_phi_for_cholesky_` is translated by C19's `g5_natgrad` into
`Gen/NaturalGrad.lean`; C15's theorems use both.)

One batch element; 1-d tensors are `n x 1` columns (`unsqueeze(-1)` / `squeeze(-1)` are the identity in that
representation).  The two primitives `psd_safe_cholesky(., upper=False)` and `_triangular_inverse(., upper=False)` become
function PARAMETERS (`chol`, `triInv`) whose contracts are hypotheses of `C15.natural_forward_contract`.
A `try: X = E  except RuntimeError: raise ...` is read as the assignment `X = E` (the handlers only re-raise).
Anything else raises `TranslateError` (a broken tie, never silently skipped).
"""
import ast
import os


class TranslateError(Exception):
    pass


SRC = os.path.join("gpytorch", "variational", "natural_variational_distribution.py")


def _cls(tree, name):
    for n in tree.body:
        if isinstance(n, ast.ClassDef) and n.name == name:
            return n
    raise TranslateError(f"class {name} not found")


def _meth(cls, name):
    for n in cls.body:
        if isinstance(n, ast.FunctionDef) and n.name == name:
            return n
    raise TranslateError(f"{cls.name}.{name} not found")


def _is_minus_one_two(args):
    return [ast.unparse(a) for a in args] in (["-1", "-2"], ["-2", "-1"])


class Ex:
    """expression translator; `cols` = names of column (n x 1) values, everything else is n x n"""

    def __init__(self, cols):
        self.cols = set(cols)

    def is_col(self, node):
        if isinstance(node, ast.Name):
            return node.id in self.cols
        if isinstance(node, ast.Call) and isinstance(node.func, ast.Attribute) and node.func.attr in ("unsqueeze", "squeeze"):
            return self.is_col(node.func.value)
        if isinstance(node, ast.BinOp) and isinstance(node.op, ast.MatMult):
            return self.is_col(node.right)
        return False

    def tr(self, node):
        src = ast.unparse(node)
        if isinstance(node, ast.Name):
            return node.id
        if isinstance(node, ast.BinOp) and isinstance(node.op, ast.MatMult):
            return f"(DMat.mul {self.tr(node.left)} {self.tr(node.right)})"
        if isinstance(node, ast.BinOp) and isinstance(node.op, ast.Mult):
            for c, x in ((node.left, node.right), (node.right, node.left)):
                k = _const(c)
                if k is not None:
                    return f"(DMat.smul ({k} : α) {self.tr(x)})"
            raise TranslateError(f"product outside the vocabulary (constant * tensor expected): {src}")
        if isinstance(node, ast.Call) and isinstance(node.func, ast.Attribute):
            f, args = node.func, node.args
            if f.attr == "transpose" and _is_minus_one_two(args) and not node.keywords:
                return f"(DMat.transpose {self.tr(f.value)})"
            if f.attr in ("unsqueeze", "squeeze") and [ast.unparse(a) for a in args] == ["-1"] and not node.keywords:
                if not self.is_col(f.value):
                    raise TranslateError(f"{f.attr}(-1) of a non-vector: {src}")
                return self.tr(f.value)
            if f.attr == "mul" and len(args) == 1 and _const(args[0]) is not None:
                return f"(DMat.smul ({_const(args[0])} : α) {self.tr(f.value)})"
        if isinstance(node, ast.Call) and isinstance(node.func, ast.Name):
            kw = {k.arg: ast.unparse(k.value) for k in node.keywords}
            if node.func.id == "psd_safe_cholesky" and len(node.args) == 1 and kw == {"upper": "False"}:
                return f"(chol {self.tr(node.args[0])})"
            if node.func.id == "_triangular_inverse" and len(node.args) == 1 and kw == {"upper": "False"}:
                return f"(triInv {self.tr(node.args[0])})"
        raise TranslateError(f"expression outside the vocabulary: {src}")


def _const(node):
    """numeric literal (possibly negated) with an integer or half-integer value -> Lean literal text"""
    neg = False
    if isinstance(node, ast.UnaryOp) and isinstance(node.op, ast.USub):
        neg, node = True, node.operand
    if isinstance(node, ast.Constant) and isinstance(node.value, (int, float)) and not isinstance(node.value, bool):
        v = -float(node.value) if neg else float(node.value)
        if v.is_integer():
            return str(int(v))
        if (2 * v).is_integer():
            return f"{int(2 * v)} / 2"
    return None


def _body_statements(fn):
    """flatten: docstring dropped; `try: <one assignment> except …: <only raise / if-raise>` -> the assignment"""
    out = []
    for st in fn.body:
        if isinstance(st, ast.Expr) and isinstance(st.value, ast.Constant) and isinstance(st.value.value, str):
            continue
        if isinstance(st, ast.Try):
            if len(st.body) != 1 or not isinstance(st.body[0], ast.Assign) or st.orelse or st.finalbody:
                raise TranslateError(f"try block outside the vocabulary in {fn.name}")
            for h in st.handlers:
                for x in ast.walk(ast.Module(body=h.body, type_ignores=[])):
                    if isinstance(x, (ast.Assign, ast.AugAssign, ast.Return)):
                        raise TranslateError(f"exception handler of {fn.name} does more than re-raise")
            out.append(st.body[0])
        else:
            out.append(st)
    return out


def translate_forward(fn):
    args = [a.arg for a in fn.args.args]
    if args != ["nat_mean", "nat_covar"]:
        raise TranslateError(f"_forward arguments: {args}")
    ex = Ex(["nat_mean"])
    lets, ret = [], None
    for st in _body_statements(fn):
        if isinstance(st, ast.Assign) and len(st.targets) == 1 and isinstance(st.targets[0], ast.Name):
            name = st.targets[0].id
            col = ex.is_col(st.value)
            lets.append((name, "DMat n 1 α" if col else "DMat n n α", ex.tr(st.value)))
            (ex.cols.add if col else ex.cols.discard)(name)
        elif isinstance(st, ast.Return) and isinstance(st.value, ast.Tuple) and len(st.value.elts) == 2:
            if not ex.is_col(st.value.elts[0]) or ex.is_col(st.value.elts[1]):
                raise TranslateError(f"_forward must return (vector, matrix): {ast.unparse(st)}")
            ret = (ex.tr(st.value.elts[0]), ex.tr(st.value.elts[1]))
        else:
            raise TranslateError(f"statement outside the vocabulary in _forward: {ast.unparse(st)[:120]}")
    if ret is None:
        raise TranslateError("_forward: no `return mu, L`")
    return lets, ret


def plumbing(cls):
    """`forward`: calls `_forward` on its arguments, saves exactly the returned pair, returns it; `backward`: reads the
    saved pair in the same order, inverts L with `_triangular_inverse(L, upper=False)`, returns `_backward(...)`."""
    fw = [ast.unparse(s) for s in _body_statements(_meth(cls, "forward"))]
    saved_are_outputs = fw == ["mu, L = _NaturalToMuVarSqrt._forward(nat_mean, nat_covar)", "ctx.save_for_backward(mu, L)",
                               "return (mu, L)"]
    bw = [ast.unparse(s) for s in _body_statements(_meth(cls, "backward"))]
    backward_reads_saved = bw == ["mu, L = ctx.saved_tensors", "C = _triangular_inverse(L, upper=False)",
                                  "return _NaturalToMuVarSqrt._backward(dout_dmu, dout_dL, mu, L, C)"]
    fargs = [a.arg for a in _meth(cls, "forward").args.args]
    bargs = [a.arg for a in _meth(cls, "backward").args.args]
    if fargs != ["ctx", "nat_mean", "nat_covar"] or bargs != ["ctx", "dout_dmu", "dout_dL"]:
        raise TranslateError(f"autograd Function signature changed: forward{fargs} backward{bargs}")
    return saved_are_outputs, backward_reads_saved


def dist_forward(cls):
    """`NaturalVariationalDistribution.forward`: `_NaturalToMuVarSqrt.apply(self.natural_vec, self.natural_mat)` and
    `MultivariateNormal(mean, CholLinearOperator(TriangularLinearOperator(chol_covar)))` (covariance `L Lᵀ`)."""
    st = [ast.unparse(s) for s in _body_statements(_meth(cls, "forward"))]
    want = ["mean, chol_covar = _NaturalToMuVarSqrt.apply(self.natural_vec, self.natural_mat)",
            "res = MultivariateNormal(mean, CholLinearOperator(TriangularLinearOperator(chol_covar)))", "return res"]
    if st != want:
        raise TranslateError(f"NaturalVariationalDistribution.forward outside the vocabulary: {st}")
    return "(natural_vec, natural_mat)", "(DMat.mul chol_covar (DMat.transpose chol_covar))"


def translate(repo):
    tree = ast.parse(open(os.path.join(repo, SRC)).read())
    fcls = _cls(tree, "_NaturalToMuVarSqrt")
    lets, ret = translate_forward(_meth(fcls, "_forward"))
    sao, brs = plumbing(fcls)
    app, cov = dist_forward(_cls(tree, "NaturalVariationalDistribution"))
    body = "\n".join(f"  let {n} : {t} := {e}" for n, t, e in lets)
    b = lambda x: "true" if x else "false"      # noqa: E731
    return f"""/-
GENERATED by harness/translate/g4_natural_forward.py from gpytorch/variational/natural_variational_distribution.py — do not edit.
`_NaturalToMuVarSqrt._forward` (one batch element, vectors as columns), the autograd plumbing of
`_NaturalToMuVarSqrt.forward/.backward`, and `NaturalVariationalDistribution.forward`.
`chol` = `psd_safe_cholesky(·, upper=False)`, `triInv` = `_triangular_inverse(·, upper=False)`: parameters with a contract.
-/
import GPVerif.Model.DMat

set_option linter.unusedVariables false

namespace Gen.NaturalForward

variable {{n : Nat}} {{α : Type}} [Field α]

/-- `_NaturalToMuVarSqrt._forward(nat_mean, nat_covar)`: `(mu, L)` -/
def naturalForward (chol triInv : DMat n n α → DMat n n α) (nat_mean : DMat n 1 α) (nat_covar : DMat n n α) :
    DMat n 1 α × DMat n n α :=
{body}
  ({ret[0]}, {ret[1]})

/-- `NaturalVariationalDistribution.forward`: `_NaturalToMuVarSqrt.apply{app}`, then
`MultivariateNormal(mean, CholLinearOperator(TriangularLinearOperator(chol_covar)))`: `(mean, covariance)` -/
def distForward (chol triInv : DMat n n α → DMat n n α) (natural_vec : DMat n 1 α) (natural_mat : DMat n n α) :
    DMat n 1 α × DMat n n α :=
  let mean : DMat n 1 α := (naturalForward chol triInv natural_vec natural_mat).1
  let chol_covar : DMat n n α := (naturalForward chol triInv natural_vec natural_mat).2
  (mean, {cov})

/-- `_NaturalToMuVarSqrt.forward` saves exactly the pair it returns, in that order -/
def savedAreOutputs : Bool := {b(sao)}
/-- `_NaturalToMuVarSqrt.backward` reads `(mu, L)` back in that order, takes `C = _triangular_inverse(L, upper=False)`
and returns `_backward(dout_dmu, dout_dL, mu, L, C)` -/
def backwardReadsSaved : Bool := {b(brs)}

end Gen.NaturalForward
"""


def generate(repo, path, check=None):
    """Regenerate `path`; returns True when the text changed.  `check(text) -> error text | None` type-checks the
    candidate before it replaces the current file (an ill-typed candidate is a TranslateError; previous file kept)."""
    text = translate(repo)
    old = open(path).read() if os.path.exists(path) else None
    if old != text:
        if check is not None:
            err = check(text)
            if err:
                raise TranslateError("the regenerated Gen/NaturalForward.lean does not type-check (kept the previous "
                                     "file): " + err)
        tmp = path + ".tmp"
        with open(tmp, "w") as fh:
            fh.write(text)
        os.replace(tmp, path)
    return old is not None and old != text


if __name__ == "__main__":
    import sys
    print(translate(sys.argv[1] if len(sys.argv) > 1 else os.environ.get("VERIF_REPO", "/repo")), end="")

"""G7 — Python-AST -> Lean translator for the *algebra and routing* of the fantasy update (C04).

Reads from `$VERIF_REPO`:
  gpytorch/models/exact_prediction_strategies.py
      DefaultPredictionStrategy.get_fantasy_strategy      (bordered solve, cat_rows call, cache writes)
      InterpolatedPredictionStrategy.get_fantasy_strategy  (WISKI low-rank add, response cache)
      InterpolatedPredictionStrategy.fantasy_mean_cache / fantasy_covar_cache  (Woodbury form, add_jitter constant)
  gpytorch/likelihoods/gaussian_likelihood.py
      FixedNoiseGaussianLikelihood.get_fantasy_likelihood  (noise concatenation order)
  gpytorch/models/exact_gp.py
      ExactGP.get_fantasy_model                            (data concatenation order)
  gpytorch/models/model_list.py
      IndependentModelList.get_fantasy_model               (per-member keyword routing, call order)
and emits `GPVerif/Gen/FantasyAlgebra.lean`: every value that is written into a cache / handed to the new strategy
as a Lean definition over `DMat` (the statements of the method in SSA form, restricted to the dependency cone of the
value).  `Props/C04.lean` proves the generated definitions equal to the hand-written model of `Model/Fantasy.lean`,
`drivers/C04.lean` evaluates them.

Matrix vocabulary: names, `+`, `-`, `@` / `.matmul`, `.transpose(-1,-2)` / `.mT`, the mat-vec einsum of the mean cache,
`torch.cat((a, b), dim=-1)`, `psd_safe_cholesky` + `torch.cholesky_solve` and `.solve` (certified inverse),
`.add_jitter(c)` (scalar constant), `.add_low_rank(V)`, `.cat_rows(cross, new)` with `.root_decomposition().root` /
`.root_inv_decomposition().root`, shape-only operations (`unsqueeze/squeeze(-1)`, `to_dense`, `.detach()`,
`BatchRepeatLinearOperator(X, …)`, `.evaluate_kernel()`) as the identity on one batch element, and a table of leaves
(primitive outputs and inputs of the update).  Anything else that the value depends on raises `TranslateError`.
"""
import ast
import os
from fractions import Fraction


class TranslateError(Exception):
    pass


STRAT = "gpytorch/models/exact_prediction_strategies.py"
LIK = "gpytorch/likelihoods/gaussian_likelihood.py"
EXACT = "gpytorch/models/exact_gp.py"
MLIST = "gpytorch/models/model_list.py"

OPAQUE = object()


class Tagged:
    """A translated value that is not a plain matrix term."""

    def __init__(self, kind, **kw):
        self.kind = kind
        self.__dict__.update(kw)


def _find(tree, cls, meth, path):
    for node in tree.body:
        if isinstance(node, ast.ClassDef) and node.name == cls:
            for it in node.body:
                if isinstance(it, ast.FunctionDef) and it.name == meth:
                    return it
    raise TranslateError(f"{path}: {cls}.{meth} not found")


def _u(node):
    return ast.unparse(node)


def _is_last2(args):
    vals = []
    for a in args:
        try:
            vals.append(ast.literal_eval(a))
        except Exception:
            return False
    return sorted(vals) == [-2, -1]


def _const_rat(node, where):
    try:
        v = ast.literal_eval(node)
    except Exception:
        raise TranslateError(f"{where}: scalar `{_u(node)}` is not a literal constant")
    if isinstance(v, bool) or not isinstance(v, (int, float)):
        raise TranslateError(f"{where}: scalar `{_u(node)}` is not numeric")
    fr = Fraction(str(v)) if isinstance(v, float) else Fraction(v)
    return fr


def _lean_rat(fr):
    return f"(({fr.numerator} : α) / {fr.denominator})" if fr.denominator != 1 else f"({fr.numerator} : α)"


class Method:
    """SSA translation of one method.  `leaves`: list of (predicate on ast node, value) tried first."""

    def __init__(self, fn, rel, leaves):
        self.fn, self.rel, self.leaves = fn, rel, leaves
        self.env = {}       # python name -> ssa name | OPAQUE | Tagged
        self.defs = []      # (ssa, lean term, monadic: bool, deps)
        self.count = {}
        self.cache_writes = []   # (target object text, cache name, value: ssa/term)
        self.calls = {}          # recorded routing facts
        self.returns = []

    # ---- expressions
    def where(self, node):
        return f"{self.rel}:{getattr(node, 'lineno', '?')}"

    def fresh(self, name):
        k = self.count.get(name, 0)
        self.count[name] = k + 1
        return name if k == 0 else f"{name}_{k}"

    def bind(self, pyname, val):
        if isinstance(val, str):
            ssa = self.fresh(pyname)
            self.defs.append((ssa, val, False))
            self.env[pyname] = ssa
        else:
            self.env[pyname] = val

    def emit_monadic(self, hint, term):
        ssa = self.fresh(hint)
        self.defs.append((ssa, term, True))
        return ssa

    def tx(self, node):
        """-> Lean term (str), Tagged, or raises TranslateError."""
        for pred, val in self.leaves:
            if pred(node):
                return val
        w = self.where(node)
        if isinstance(node, ast.Name):
            v = self.env.get(node.id, None)
            if v is None:
                raise TranslateError(f"{w}: name `{node.id}` has no translated definition")
            if v is OPAQUE:
                why = self.env.get("__why__", {}).get(node.id, "")
                raise TranslateError(f"{w}: `{node.id}` is defined by a statement outside the vocabulary"
                                     + (f" <- {why}" if why else ""))
            return v
        if isinstance(node, ast.BinOp):
            a, b = self.mat(node.left), self.mat(node.right)
            if isinstance(node.op, ast.Sub):
                return f"({a}).sub ({b})"
            if isinstance(node.op, ast.Add):
                return f"({a}).add ({b})"
            if isinstance(node.op, ast.MatMult):
                return f"({a}).mul ({b})"
            raise TranslateError(f"{w}: operator `{type(node.op).__name__}` outside the vocabulary")
        if isinstance(node, ast.Attribute):
            if node.attr == "mT":
                return f"({self.mat(node.value)}).transpose"
            if node.attr == "root":
                base = self.tx(node.value)
                if isinstance(base, Tagged) and base.kind in ("root_of", "invroot_of"):
                    return base.term
                raise TranslateError(f"{w}: `.root` of `{_u(node.value)}`")
            raise TranslateError(f"{w}: attribute `{_u(node)}` outside the vocabulary")
        if isinstance(node, ast.Call):
            return self.tx_call(node)
        raise TranslateError(f"{w}: expression `{_u(node)}` outside the vocabulary")

    def mat(self, node):
        v = self.tx(node)
        if not isinstance(v, str):
            raise TranslateError(f"{self.where(node)}: `{_u(node)}` is not a matrix expression")
        return v

    def tx_call(self, node):
        w = self.where(node)
        f = node.func
        kw = {k.arg: k.value for k in node.keywords}
        # free functions
        if isinstance(f, ast.Name):
            if f.id in ("to_dense", "to_linear_operator") and len(node.args) == 1:
                return self.tx(node.args[0])
            if f.id == "BatchRepeatLinearOperator" and len(node.args) == 2:
                return self.tx(node.args[0])          # identity on one batch element
            if f.id == "psd_safe_cholesky" and len(node.args) == 1 and not kw:
                return Tagged("chol", of=self.mat(node.args[0]))
            if f.id == "RootLinearOperator" and len(node.args) == 1:
                r = self.mat(node.args[0])
                return f"({r}).mul ({r}).transpose"
            raise TranslateError(f"{w}: call of `{f.id}` outside the vocabulary")
        if not isinstance(f, ast.Attribute):
            raise TranslateError(f"{w}: call `{_u(node)}` outside the vocabulary")
        # torch.*
        if isinstance(f.value, ast.Name) and f.value.id == "torch":
            if f.attr == "cholesky_solve" and len(node.args) == 2:
                rhs = self.mat(node.args[0])
                ch = self.tx(node.args[1])
                if not (isinstance(ch, Tagged) and ch.kind == "chol"):
                    raise TranslateError(f"{w}: cholesky_solve with a factor that is not psd_safe_cholesky(…)")
                inv = self.emit_monadic("inv", f"DMat.inv? ({ch.of})")
                return f"({inv}).mul ({rhs})"
            if f.attr == "cat":
                dim = kw.get("dim", node.args[1] if len(node.args) > 1 else None)
                seq = node.args[0]
                if dim is None or ast.literal_eval(dim) != -1 or not isinstance(seq, (ast.Tuple, ast.List)) \
                        or len(seq.elts) != 2:
                    raise TranslateError(f"{w}: torch.cat other than of two blocks along dim=-1")
                return f"vcat ({self.mat(seq.elts[0])}) ({self.mat(seq.elts[1])})"
            if f.attr == "einsum":
                pat, ops = node.args[0], node.args[1]
                consts = [c.value for c in ast.walk(pat) if isinstance(c, ast.Constant) and isinstance(c.value, str)]
                if sorted(consts) != ["...y", "...yz,...z->"] or _u(pat).replace('"', "'") != "prefix + '...yz,...z->' + prefix + '...y'" or not isinstance(ops, (ast.List, ast.Tuple)) or len(ops.elts) != 2:
                    raise TranslateError(f"{w}: einsum `{_u(pat)}` is not the batched matrix-vector product")
                return f"({self.mat(ops.elts[0])}).mul ({self.mat(ops.elts[1])})"
            raise TranslateError(f"{w}: torch.{f.attr} outside the vocabulary")
        m = f.attr
        # shape-only / laziness-only methods: identity on one batch element (vectors are n×1 columns)
        if m in ("unsqueeze", "squeeze") and len(node.args) == 1 and ast.literal_eval(node.args[0]) == -1:
            return self.tx(f.value)
        if m in ("to_dense", "detach", "evaluate_kernel", "contiguous") and not node.args and not kw:
            return self.tx(f.value)
        if m == "transpose" and len(node.args) == 2 and _is_last2(node.args):
            return f"({self.mat(f.value)}).transpose"
        if m == "matmul" and len(node.args) == 1:
            recv = self.tx(f.value)
            arg = self.mat(node.args[0])
            if isinstance(recv, Tagged) and recv.kind == "invroot_of":
                # RootLinearOperator(R).matmul(X) = R (Rᵀ X): what the strategy uses as the inverse
                return f"({recv.gram}).mul ({arg})"
            if not isinstance(recv, str):
                raise TranslateError(f"{w}: matmul on `{_u(f.value)}`")
            return f"({recv}).mul ({arg})"
        if m == "add_jitter":
            c = _const_rat(node.args[0], w) if node.args else Fraction(1, 1000)   # linear_operator default 1e-3
            self.calls.setdefault("jitter", []).append(c)
            return f"({self.mat(f.value)}).add (DMat.smul {_lean_rat(c)} DMat.one)"
        if m == "add_low_rank" and len(node.args) == 1:
            v = self.mat(node.args[0])
            return f"({self.mat(f.value)}).add (({v}).mul ({v}).transpose)"
        if m == "solve" and len(node.args) == 1:
            recv = self.tx(f.value)
            arg = self.mat(node.args[0])
            if isinstance(recv, Tagged) and recv.kind == "noise":
                return f"({recv.inv}).mul ({arg})"
            if not isinstance(recv, str):
                raise TranslateError(f"{w}: solve on `{_u(f.value)}`")
            inv = self.emit_monadic("inv", f"DMat.inv? ({recv})")
            return f"({inv}).mul ({arg})"
        if m == "sqrt_inv_matmul" and len(node.args) == 1:
            recv = self.tx(f.value)
            if not (isinstance(recv, Tagged) and recv.kind == "noise"):
                raise TranslateError(f"{w}: sqrt_inv_matmul on something that is not the fantasy noise")
            return f"({recv.invsqrt}).mul ({self.mat(node.args[0])})"
        if m == "cat_rows" and len(node.args) == 2 and not kw:
            recv = self.tx(f.value)
            if not (isinstance(recv, Tagged) and recv.kind == "likcovar"):
                raise TranslateError(f"{w}: cat_rows on `{_u(f.value)}`, expected the strategy's lik_train_train_covar")
            cross, new = self.mat(node.args[0]), self.mat(node.args[1])
            self.calls["cat_rows"] = (cross, new)
            return Tagged("catrows", cross=cross, new=new)
        if m == "root_decomposition" and not node.args:
            recv = self.tx(f.value)
            if isinstance(recv, Tagged) and recv.kind == "catrows":
                return Tagged("root_of", term=f"rootUpdate L R ({recv.cross}) G")
            if isinstance(recv, Tagged) and recv.kind == "has_root":
                return Tagged("root_of", term=recv.root)
            raise TranslateError(f"{w}: root_decomposition of `{_u(f.value)}`")
        if m == "root_inv_decomposition" and not node.args and not kw:
            recv = self.tx(f.value)
            if isinstance(recv, Tagged) and recv.kind == "catrows":
                return Tagged("invroot_of", term=f"invRootUpdate R ({recv.cross}) Ginv", gram="?")
            if isinstance(recv, Tagged) and recv.kind == "likcovar":
                return Tagged("invroot_of", term="R", gram="Kinv")
            raise TranslateError(f"{w}: root_inv_decomposition of `{_u(f.value)}`")
        raise TranslateError(f"{w}: method `.{m}(…)` outside the vocabulary")

    # ---- statements
    def run(self, stmts, conditional=False):
        for s in stmts:
            self.stmt(s, conditional)

    def assign(self, name, value_node, conditional):
        try:
            v = self.tx(value_node)
        except TranslateError as e:
            self.env[name] = OPAQUE
            self.env.setdefault("__why__", {})[name] = str(e)
            return
        if conditional:
            cur = self.env.get(name)
            cur_term = next((t for (n_, t, _) in self.defs if n_ == cur), None) if isinstance(cur, str) else None
            if isinstance(v, str) and (v == cur or v == cur_term):
                return                       # conditional rebinding to the same value (batch repeat, detach)
            self.env[name] = OPAQUE
            self.env.setdefault("__why__", {})[name] = f"{self.where(value_node)}: conditional rebinding of `{name}`"
            return
        self.bind(name, v)

    def stmt(self, s, conditional):
        if isinstance(s, ast.Assign) and len(s.targets) == 1 and isinstance(s.targets[0], ast.Name):
            self.assign(s.targets[0].id, s.value, conditional)
        elif isinstance(s, ast.Assign):
            for t in s.targets:
                for nm in ast.walk(t):
                    if isinstance(nm, ast.Name):
                        self.env[nm.id] = OPAQUE
        elif isinstance(s, ast.AugAssign):
            if isinstance(s.target, ast.Name):
                self.env[s.target.id] = OPAQUE
        elif isinstance(s, ast.Expr) and isinstance(s.value, ast.Call):
            c = s.value
            if isinstance(c.func, ast.Name) and c.func.id == "add_to_cache" and len(c.args) >= 3:
                name = ast.literal_eval(c.args[1])
                try:
                    v = self.tx(c.args[2])
                except TranslateError as e:
                    v = e
                self.cache_writes.append((_u(c.args[0]), name, v, _u(c.args[2])))
            elif isinstance(c.func, ast.Attribute) and c.func.attr.endswith("_") and isinstance(c.func.value, ast.Name):
                self.env[c.func.value.id] = OPAQUE       # in-place tensor op
        elif isinstance(s, ast.If):
            t = _u(s.test)
            if t == "settings.detach_test_caches.on()":
                # both branches must give the same value up to .detach()
                before = dict(self.env)
                self.run(s.body, False)
                a_env = dict(self.env)
                self.env = dict(before)
                self.run(s.orelse, False)
                for k in set(a_env) | set(self.env):
                    va, vb = a_env.get(k), self.env.get(k)
                    if va is vb:
                        continue
                    ta = self.term_of(va)
                    tb = self.term_of(vb)
                    if ta is None or ta != tb:
                        self.env[k] = OPAQUE
            elif t == "isinstance(full_output, MultitaskMultivariateNormal)":
                self.run(s.orelse, False)          # single-task branch (the model is per flattened event)
            elif t == "not isinstance(full_output, MultitaskMultivariateNormal)":
                self.run(s.body, False)
            elif t == "settings.fast_pred_var.on()":
                self.run(s.orelse, False)          # exact (non-Lanczos) branch
            else:
                self.run(s.body, True)
                self.run(s.orelse, True)
        elif isinstance(s, ast.Return) and s.value is not None:
            try:
                self.returns.append(self.tx(s.value))
            except TranslateError as e:
                self.returns.append(e)
        elif isinstance(s, (ast.For, ast.While, ast.With, ast.Try)):
            for sub in ast.walk(s):
                if isinstance(sub, ast.Name) and isinstance(sub.ctx, ast.Store):
                    self.env[sub.id] = OPAQUE

    def term_of(self, v):
        if isinstance(v, str):
            return next((t for (n_, t, _) in self.defs if n_ == v), v)
        return None

    # ---- emission
    def cone(self, roots):
        """Definitions (in order) that the terms `roots` depend on."""
        import re
        names = {n for (n, _, _) in self.defs}
        need, out = set(), []
        stack = list(roots)
        while stack:
            t = stack.pop()
            for tok in set(re.findall(r"[A-Za-z_][A-Za-z_0-9]*", t)):
                if tok in names and tok not in need:
                    need.add(tok)
                    stack.append(next(tm for (n, tm, _) in self.defs if n == tok))
        for d in self.defs:
            if d[0] in need:
                out.append(d)
        return out

    def lean_def(self, name, binders, result, doc):
        defs = self.cone([result])
        monadic = any(m for (_, _, m) in defs)
        lines = [f"/-- {doc} -/", f"def {name} {binders} :=" + (" show Option _ from do" if monadic else "")]
        for n, t, m in defs:
            lines.append(f"  let {n} {'←' if m else ':='} {t}")
        lines.append(f"  {'pure ' if monadic else ''}({result})")
        return "\n".join(lines)

    def need(self, pyname):
        v = self.env.get(pyname)
        if v is None or v is OPAQUE or not isinstance(v, str):
            why = self.env.get("__why__", {}).get(pyname, "never assigned")
            raise TranslateError(f"{self.rel}: `{pyname}` could not be translated: {why}")
        return v


def _leaf(text, val):
    return (lambda node, text=text: _u(node) == text), val


def _leaf_pred(pred, val):
    return pred, val


def _slice_block(node, rows, cols):
    """full_covar[..., num_train:, :num_train]-style block of the joint prior covariance."""
    if not (isinstance(node, ast.Subscript) and isinstance(node.value, ast.Name) and node.value.id == "full_covar"):
        return False
    return _u(node.slice).replace(" ", "") == f"(...,{rows},{cols})"


def translate_default(tree):
    fn = _find(tree, "DefaultPredictionStrategy", "get_fantasy_strategy", STRAT)
    leaves = [
        _leaf("self.mean_cache", "meanCache"),
        _leaf("self.lik_train_train_covar", Tagged("likcovar")),
        _leaf("targets", "targets"),
        _leaf_pred(lambda n: _slice_block(n, "num_train:", ":num_train"), "fantTrain"),
        _leaf_pred(lambda n: _u(n) == "full_mean[..., num_train:]", "fantMean"),
        # fantasy-fantasy covariance *after* the fantasy likelihood (with the fantasy noise)
        _leaf("mvn_obs.covariance_matrix", "fantFantObs"),
    ]
    M = Method(fn, STRAT, leaves)
    M.run(fn.body)
    # routing facts about how `fantFantObs` is obtained
    facts = {}
    for s in ast.walk(fn):
        if isinstance(s, ast.Assign) and len(s.targets) == 1 and isinstance(s.targets[0], ast.Name):
            if s.targets[0].id in ("mvn_obs", "fant_likelihood", "mvn"):
                facts[s.targets[0].id] = _u(s.value)
            if s.targets[0].id == "fant_fant_covar" and _slice_block(s.value, "num_train:", "num_train:"):
                facts["fant_fant_prior"] = "full_covar[num_train:, num_train:]"
        if isinstance(s, ast.Assign) and isinstance(s.value, ast.Call) and _u(s.value.func) == "self.__class__":
            facts["strategy_kwargs"] = [(k.arg, _u(k.value)) for k in s.value.keywords]
    return M, facts


def translate_wiski(tree):
    fn = _find(tree, "InterpolatedPredictionStrategy", "get_fantasy_strategy", STRAT)
    noise = Tagged("noise", inv="Dfinv", invsqrt="DfInvSqrt")
    leaves = [
        _leaf("targets", "targets"),
        _leaf("full_mean[..., num_train:]", "fantMean"),
        _leaf("self.interp_inner_prod", "P"),
        _leaf("self.interp_response_cache", "c"),
        _leaf_pred(lambda n: isinstance(n, ast.Call) and _u(n.func) == "self.prepare_dense_wmat" and len(n.args) == 1,
                   "Wf"),
        _leaf_pred(lambda n: isinstance(n, ast.Call) and _u(n.func) == "fant_likelihood.noise_covar", noise),
    ]
    M = Method(fn, STRAT, leaves)
    M.run(fn.body)
    facts = {}
    for s in ast.walk(fn):
        if isinstance(s, ast.Assign) and len(s.targets) == 1 and isinstance(s.targets[0], ast.Name) \
                and s.targets[0].id == "fant_likelihood":
            facts["fant_likelihood"] = _u(s.value)
    return M, facts


def translate_wiski_cache(tree, meth):
    fn = _find(tree, "InterpolatedPredictionStrategy", meth, STRAT)
    leaves = [
        _leaf_pred(lambda n: isinstance(n, ast.Attribute) and n.attr == "base_linear_op", "K"),
        _leaf("self.interp_response_cache", "c"),
        _leaf("self.interp_inner_prod", Tagged("has_root", root="L")),
    ]
    M = Method(fn, STRAT, leaves)
    M.run(fn.body)
    return M


def translate_noise_concat(tree):
    fn = _find(tree, "FixedNoiseGaussianLikelihood", "get_fantasy_likelihood", LIK)
    leaves = [
        _leaf("old_noise_covar.noise", "oldNoise"),
        _leaf("kwargs.get('noise')", "newNoise"),
        _leaf_pred(lambda n: isinstance(n, ast.Call) and isinstance(n.func, ast.Attribute) and n.func.attr == "expand"
                   and _u(n.func.value) == "old_noise", "oldNoise"),
    ]
    M = Method(fn, LIK, leaves)
    M.run(fn.body)
    # the value handed to FixedGaussianNoise(noise=…) and stored as noise_covar of the *copy*
    found = None
    for s in ast.walk(fn):
        if isinstance(s, ast.Assign) and len(s.targets) == 1 and _u(s.targets[0]).endswith(".noise_covar") \
                and isinstance(s.value, ast.Call) and _u(s.value.func) == "FixedGaussianNoise":
            kw = {k.arg: k.value for k in s.value.keywords}
            if "noise" in kw and not _u(s.targets[0]).startswith("self."):
                found = kw["noise"]
    if found is None:
        raise TranslateError(f"{LIK}: get_fantasy_likelihood does not build FixedGaussianNoise(noise=…) for the copy")
    M2 = Method(fn, LIK, leaves)
    M2.env = M.env
    M2.defs = M.defs
    M2.count = M.count
    # torch.cat([old, new], -1): the list form
    if not (isinstance(found, ast.Call) and _u(found.func) == "torch.cat"):
        raise TranslateError(f"{LIK}:{found.lineno}: fantasy noise is not a torch.cat")
    return M2, M2.mat(found)


def translate_data_concat(tree):
    fn = _find(tree, "ExactGP", "get_fantasy_model", EXACT)
    tgt = None
    for s in ast.walk(fn):
        if isinstance(s, ast.Assign) and len(s.targets) == 1 and _u(s.targets[0]) == "full_targets":
            tgt = s.value
    if tgt is None or not (isinstance(tgt, ast.Call) and _u(tgt.func) == "torch.cat"):
        raise TranslateError(f"{EXACT}: full_targets is not a torch.cat")
    seq = tgt.args[0]
    if not isinstance(seq, (ast.List, ast.Tuple)) or len(seq.elts) != 2:
        raise TranslateError(f"{EXACT}:{tgt.lineno}: full_targets is not the concatenation of two blocks")

    def cls(e):
        t = _u(e)
        if t == "train_targets":
            return "trainTargets"
        if t.startswith("targets.expand(") or t == "targets":
            return "targets"
        raise TranslateError(f"{EXACT}:{e.lineno}: block `{t}` of full_targets outside the vocabulary")
    order_t = [cls(e) for e in seq.elts]
    # inputs: torch.cat([train_input, input.expand(…)], dim=-2) inside the list comprehension
    order_i = None
    for s in ast.walk(fn):
        if isinstance(s, ast.Assign) and len(s.targets) == 1 and _u(s.targets[0]) == "full_inputs" \
                and isinstance(s.value, ast.ListComp):
            c = s.value.elt
            if isinstance(c, ast.Call) and _u(c.func) == "torch.cat" and isinstance(c.args[0], (ast.List, ast.Tuple)):
                names = []
                for e in c.args[0].elts:
                    t = _u(e)
                    names.append("trainInputs" if t == "train_input" else "inputs" if t.startswith("input.expand(") or
                                 t == "input" else None)
                order_i = names
    if not order_i or None in order_i:
        raise TranslateError(f"{EXACT}: full_inputs is not [cat([train_input, input…]) for …]")
    return order_t, order_i


def translate_model_list(tree):
    """Keyword routing of IndependentModelList.get_fantasy_model as Lean over `Route.Kw`."""
    fn = _find(tree, "IndependentModelList", "get_fantasy_model", MLIST)
    where = lambda n: f"{MLIST}:{n.lineno}"   # noqa: E731
    top_if = [s for s in fn.body if isinstance(s, ast.If)]
    if len(top_if) != 1 or _u(top_if[0].test) not in ("'noise' in kwargs",):
        raise TranslateError(f"{MLIST}: expected exactly one `if 'noise' in kwargs:` at the top level")
    node = top_if[0]
    locals_ = {}

    def dict_term(d):
        """{**kwargs, 'noise': X} -> Lean"""
        if isinstance(d, ast.Name):
            if d.id == "kwargs":
                return "kwargs"
            if d.id in locals_:
                return locals_[d.id]
            raise TranslateError(f"{where(d)}: name `{d.id}` in the routing is not a translated dict")
        if isinstance(d, ast.Dict):
            term = None
            for k, v in zip(d.keys, d.values):
                if k is None:
                    if term is not None:
                        raise TranslateError(f"{where(d)}: dict display with a non-leading ** entry")
                    term = dict_term(v)
                else:
                    key = ast.literal_eval(k)
                    if key != "noise":
                        raise TranslateError(f"{where(d)}: routed keyword `{key}` outside the vocabulary")
                    term = f"Route.setKw ({term or '[]'}) Route.noiseKey ({val_term(v)})"
            return term or "[]"
        raise TranslateError(f"{where(d)}: `{_u(d)}` is not a dict display")

    def val_term(v):
        if isinstance(v, ast.Name) and v.id == "noise_":
            return "noise_"
        if isinstance(v, ast.Subscript) and _u(v.value) == "noise":
            i = ast.literal_eval(v.slice)
            return f"(noise[{i}]?).join" if i >= 0 else f"(noise.reverse[{-i - 1}]?).join"
        raise TranslateError(f"{where(v)}: routed noise value `{_u(v)}` outside the vocabulary")

    def elt_term(e):
        if isinstance(e, ast.IfExp):
            t = _u(e.test)
            if t == "noise_ is not None":
                return f"if noise_.isSome then {elt_term(e.body)} else {elt_term(e.orelse)}"
            if t == "noise_ is None":
                return f"if noise_.isSome then {elt_term(e.orelse)} else {elt_term(e.body)}"
            raise TranslateError(f"{where(e)}: routing condition `{t}` outside the vocabulary")
        return dict_term(e)

    noise_branch = None
    for s in node.body:
        if isinstance(s, ast.Assign) and len(s.targets) == 1 and isinstance(s.targets[0], ast.Name):
            nm, v = s.targets[0].id, s.value
            if nm == "noise":
                if _u(v) != "kwargs.pop('noise')":
                    raise TranslateError(f"{where(s)}: `noise` is not kwargs.pop('noise')")
            elif nm == "kwargs":
                if not (isinstance(v, ast.ListComp) and len(v.generators) == 1
                        and _u(v.generators[0].target) == "noise_" and _u(v.generators[0].iter) == "noise"
                        and not v.generators[0].ifs):
                    raise TranslateError(f"{where(s)}: per-member kwargs are not `[… for noise_ in noise]`")
                noise_branch = f"noise.map fun noise_ => {elt_term(v.elt)}"
            else:
                locals_[nm] = dict_term(v)
        else:
            raise TranslateError(f"{where(s)}: statement in the routing block outside the vocabulary")
    if noise_branch is None:
        raise TranslateError(f"{MLIST}: noise branch does not assign kwargs")
    if len(node.orelse) != 1 or _u(node.orelse[0]).replace(" ", "") != "kwargs=[kwargs]*len(inputs)":
        raise TranslateError(f"{MLIST}: else branch is not `kwargs = [kwargs] * len(inputs)`")
    # the member calls
    comp = None
    for s in fn.body:
        if isinstance(s, ast.Assign) and isinstance(s.value, ast.ListComp) and _u(s.targets[0]) == "fantasy_models":
            comp = s.value
    if comp is None:
        raise TranslateError(f"{MLIST}: fantasy_models list comprehension not found")
    g = comp.generators[0]
    if not (isinstance(g.iter, ast.Call) and _u(g.iter.func) == "length_safe_zip" and isinstance(g.target, ast.Tuple)):
        raise TranslateError(f"{MLIST}:{comp.lineno}: members are not iterated with length_safe_zip")
    src = {}
    for t, a in zip(g.target.elts, g.iter.args):
        at = _u(a)
        kind = {"self.models": "models", "_get_tensor_args(*inputs)": "inputs", "_get_tensor_args(*targets)": "targets",
                "kwargs": "kws"}.get(at)
        if kind is None:
            raise TranslateError(f"{MLIST}:{comp.lineno}: zipped iterable `{at}` outside the vocabulary")
        src[_u(t)] = kind
    call = comp.elt
    if not (isinstance(call, ast.Call) and isinstance(call.func, ast.Attribute) and call.func.attr == "get_fantasy_model"
            and src.get(_u(call.func.value)) == "models"):
        raise TranslateError(f"{MLIST}:{comp.lineno}: element is not <member>.get_fantasy_model(…)")
    pos = []
    for a in call.args:
        if not isinstance(a, ast.Starred) or _u(a.value) not in src:
            raise TranslateError(f"{MLIST}:{comp.lineno}: positional argument `{_u(a)}` outside the vocabulary")
        pos.append(src[_u(a.value)])
    kws = [src.get(_u(k.value)) for k in call.keywords if k.arg is None]
    if len(pos) != 2 or len(kws) != 1 or len(call.keywords) != 1 or kws[0] is None:
        raise TranslateError(f"{MLIST}:{comp.lineno}: call shape is not (*a, *b, **k)")
    return noise_branch, pos, kws[0]


def _strs(pairs):
    return "[" + ", ".join(f'("{a}", "{b}")' for a, b in pairs) + "]"


def generate(repo, out_path):
    def parse(rel):
        p = os.path.join(repo, rel)
        return ast.parse(open(p).read(), filename=p)
    st = parse(STRAT)
    out = ["/-  GENERATED by harness/translate/g7_fantasy_algebra.py from $VERIF_REPO — do not edit.  -/",
           "import GPVerif.Model.Fantasy", "", "set_option linter.unusedVariables false", "",
           "namespace Gen.FantasyAlgebra", "open Fantasy", "",
           "variable {α : Type} [Field α] [DecidableEq α] {n f m p q : Nat}", ""]
    info = {}

    # ---------------- DefaultPredictionStrategy.get_fantasy_strategy
    M, facts = translate_default(st)
    writes = {name: (obj, v, txt) for obj, name, v, txt in M.cache_writes}
    for nm in ("mean_cache", "covar_cache"):
        if nm not in writes:
            raise TranslateError(f"{STRAT}: get_fantasy_strategy does not add_to_cache(…, '{nm}', …)")
        if isinstance(writes[nm][1], TranslateError):
            raise writes[nm][1]
    B = ("(Kinv : DMat n n α) (meanCache : DMat n 1 α) (fantTrain : DMat f n α) (fantFantObs : DMat f f α) "
         "(targets fantMean : DMat f 1 α)")
    out.append(M.lean_def("defaultMeanCache?", B, writes["mean_cache"][1],
                          "value stored as `mean_cache` of the fantasy strategy (the bordered solve)"))
    out.append("")
    out.append(M.lean_def("defaultSchur", B, M.need("schur_complement"), "`schur_complement`"))
    out.append("")
    out.append(M.lean_def("defaultFantSolve", B, M.need("fant_solve"), "`fant_solve`"))
    out.append("")
    if "cat_rows" not in M.calls:
        raise TranslateError(f"{STRAT}: get_fantasy_strategy does not call cat_rows")
    RB = ("(L R : DMat n p α) (G : DMat f q α) (Ginv : DMat q f α) (fantTrain : DMat f n α) "
          "(fantFantObs : DMat f f α)")
    kw = dict(facts.get("strategy_kwargs", []))
    for k in ("root", "inv_root", "likelihood", "train_labels", "train_inputs"):
        if k not in kw:
            raise TranslateError(f"{STRAT}: new strategy is built without `{k}=`")
    root_term = M.mat(ast.parse(kw["root"], mode="eval").body)
    inv_term = M.mat(ast.parse(kw["inv_root"], mode="eval").body)
    out.append(M.lean_def("defaultNewRoot", RB, root_term, "`root=` of the new strategy: cat_rows(...).root_decomposition().root"))
    out.append("")
    out.append(M.lean_def("defaultNewInvRoot", RB, inv_term, "`inv_root=` of the new strategy"))
    out.append("")
    out.append(M.lean_def("defaultCovarCache", RB, writes["covar_cache"][1], "value stored as `covar_cache`"))
    out.append("")
    out.append(M.lean_def("defaultCatRowsNew", RB, M.calls["cat_rows"][1],
                          "second argument (`new_mat`) of cat_rows: the block whose Schur complement `G` is a root of"))
    out.append("")
    out.append(f"def defaultCacheTargets : List (String × String) := "
               f"{_strs([(writes[n_][0], n_) for n_ in ('mean_cache', 'covar_cache')])}")
    out.append(f"def defaultObsCovar : List (String × String) := "
               f"{_strs([(k, facts.get(k, '?')) for k in ('fant_fant_prior', 'mvn', 'fant_likelihood', 'mvn_obs')])}")
    out.append(f"def defaultStrategyKwargs : List (String × String) := "
               f"{_strs([(k, kw[k]) for k in ('likelihood', 'root', 'inv_root', 'train_labels', 'train_inputs')])}")
    out.append("")
    info["default_defs"] = len(M.defs)

    # ---------------- InterpolatedPredictionStrategy.get_fantasy_strategy
    W, wfacts = translate_wiski(st)
    ww = {name: (obj, v, txt) for obj, name, v, txt in W.cache_writes}
    for nm in ("interp_inner_prod", "interp_response_cache"):
        if nm not in ww:
            raise TranslateError(f"{STRAT}: WISKI get_fantasy_strategy does not add_to_cache(…, '{nm}', …)")
        if isinstance(ww[nm][1], TranslateError):
            raise ww[nm][1]
    WB = ("(P : DMat m m α) (c : DMat m 1 α) (Wf : DMat m f α) (Dfinv DfInvSqrt : DMat f f α) "
          "(targets fantMean : DMat f 1 α)")
    out.append(W.lean_def("wiskiInnerProd", WB, ww["interp_inner_prod"][1], "value stored as `interp_inner_prod`"))
    out.append("")
    out.append(W.lean_def("wiskiResponseCache", WB, ww["interp_response_cache"][1],
                          "value stored as `interp_response_cache`"))
    out.append("")
    out.append(f"def wiskiCacheTargets : List (String × String) := "
               f"{_strs([(ww[n_][0], n_) for n_ in ('interp_inner_prod', 'interp_response_cache')])}")
    out.append(f"def wiskiFantLikelihood : String := \"{wfacts.get('fant_likelihood', '?')}\"")
    out.append("")

    # ---------------- fantasy_mean_cache / fantasy_covar_cache
    CB = "(K : DMat m m α) (L : DMat m p α) (c : DMat m 1 α)"
    Cm = translate_wiski_cache(st, "fantasy_mean_cache")
    rets = [r for r in Cm.returns]
    if not rets or any(isinstance(r, TranslateError) for r in rets):
        raise next((r for r in rets if isinstance(r, TranslateError)), TranslateError(f"{STRAT}: fantasy_mean_cache returns nothing"))
    if len({Cm.term_of(r) if isinstance(r, str) else None for r in rets}) != 1:
        raise TranslateError(f"{STRAT}: fantasy_mean_cache returns different values on its branches")
    out.append(Cm.lean_def("wiskiMeanCache?", CB, rets[0], "`fantasy_mean_cache`"))
    out.append("")
    Cc = translate_wiski_cache(st, "fantasy_covar_cache")
    out.append(Cc.lean_def("wiskiCovarInner?", CB, Cc.need("inner_cache"),
                           "`inner_cache` of `fantasy_covar_cache` (fast_pred_var off)"))
    out.append("")
    jit = Cm.calls.get("jitter", []) + Cc.calls.get("jitter", [])
    info["jitter"] = [str(j) for j in jit]

    # ---------------- noise / data concatenation order
    lk = parse(LIK)
    N, nterm = translate_noise_concat(lk)
    out.append(N.lean_def("fixedNoiseConcat", "(oldNoise : DMat n 1 α) (newNoise : DMat f 1 α)", nterm,
                          "FixedNoiseGaussianLikelihood.get_fantasy_likelihood: noise of the fantasy likelihood"))
    out.append("")
    order_t, order_i = translate_data_concat(parse(EXACT))
    out.append("/-- ExactGP.get_fantasy_model: `full_targets` / `full_inputs` -/")
    out.append(f"def fullTargets (trainTargets : DMat n 1 α) (targets : DMat f 1 α) := vcat {order_t[0]} {order_t[1]}")
    out.append(f"def fullInputsOrder : List String := [" + ", ".join(f'"{x}"' for x in order_i) + "]")
    out.append("")

    # ---------------- model list routing
    nb, pos, kwsrc = translate_model_list(parse(MLIST))
    out.append("/-- IndependentModelList.get_fantasy_model: keyword arguments handed to each member -/")
    out.append("def modelListKwargs (kwargs : Route.Kw) (noise : Option (List (Option Nat))) (nInputs : Nat) : "
               "List Route.Kw :=\n  match noise with\n  | some noise => " + nb + "\n  | none => List.replicate nInputs kwargs")
    out.append("/-- … and the call `member.get_fantasy_model(*a, *b, **k)` -/")
    out.append(f"def modelListCalls (inputs targets : List Nat) (kws : List Route.Kw) : List (Nat × Nat × Route.Kw) :=\n"
               f"  List.zip {pos[0]} (List.zip {pos[1]} {kwsrc})")
    out.append("")
    out.append("end Gen.FantasyAlgebra")
    text = "\n".join(out) + "\n"
    old = open(out_path).read() if os.path.exists(out_path) else None
    if old != text:
        os.makedirs(os.path.dirname(out_path), exist_ok=True)
        with open(out_path, "w") as fh:
            fh.write(text)
    info["changed"] = old != text
    return info


if __name__ == "__main__":
    import sys
    repo = sys.argv[1] if len(sys.argv) > 1 else "/repo"
    out = sys.argv[2] if len(sys.argv) > 2 else os.path.join(os.path.dirname(__file__),
                                                             "../../lean/GPVerif/Gen/FantasyAlgebra.lean")
    print(generate(repo, os.path.abspath(out)))

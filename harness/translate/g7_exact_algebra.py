"""G7 — Python-AST -> Lean translator for the exact-GP prediction algebra.

Reads `$VERIF_REPO/gpytorch/models/exact_prediction_strategies.py` (class DefaultPredictionStrategy: `_mean_cache`
with its ignore/mask/fill branches, `mean_cache`, `covar_cache`, `_exact_predictive_covar_inv_quad_form_cache/_root`,
`exact_prediction` (the split of the joint at `num_train`), `exact_predictive_mean`, `exact_predictive_covar`
(skip / missing-obs / non-fast (3 shapes) / fast_pred_var (2 shapes)), `_exact_predictive_covar_missing_obs`) and
`gpytorch/models/exact_gp.py` (`ExactGP.__call__`: order of the concatenation, the `cg_tolerance(eval_cg_tolerance)`
block around `exact_prediction`), executes the method bodies *symbolically* and emits
`lean/GPVerif/Gen/ExactAlgebra.lean`: one Lean function per method whose body is the decision tree of the Python
control flow (`settings.X.on()/off()`, `nan_policy == …`, `torch.is_tensor(…)`, `….dim() == 2`,
`joint_covar.size(-1) <= max_eager_kernel_size`) with a straight-line matrix expression at every leaf.

Matrix-expression IR (tuples):  var | add a b | sub a b | mul a b | smul c a | T a | solve A B (let-bound, `A⁻¹B`
through the certified `ExactGP.solve?`) | slice a r0 c0 rows cols | zeros rows cols | maskSub / maskRows / maskCols /
fill / fillRows / zeroCols (the `MaskedLinearOperator` / `* mask` / `_fill_tensor` forms).
Shapes are inferred symbolically (affine in n = num_train, s = number of test points, k = columns of the cached root,
o = number of observed targets); a shape that does not fit is *not* an error of the translator — a re-sizing
`slice … 0 0` is inserted and recorded, so that a source with a missing transpose still yields a definition (about
which the property theorems then fail to build).

Vocabulary = what those functions use.  Anything else raises `TranslateError` (a broken tie, never skipped).
"""
import ast
import copy
import os


class TranslateError(Exception):
    pass


# ------------------------------------------------------------------ symbolic dimensions (affine in n, s, k, o)

class Dim:
    SYMS = ("n", "s", "k", "o")

    def __init__(self, const=0, **co):
        self.c = {k: v for k, v in co.items() if v}
        self.k0 = const

    def __add__(self, o):
        o = o if isinstance(o, Dim) else Dim(o)
        co = dict(self.c)
        for k, v in o.c.items():
            co[k] = co.get(k, 0) + v
        return Dim(self.k0 + o.k0, **co)

    def __neg__(self):
        return Dim(-self.k0, **{k: -v for k, v in self.c.items()})

    def __sub__(self, o):
        o = o if isinstance(o, Dim) else Dim(o)
        return self + (-o)

    def __eq__(self, o):
        o = o if isinstance(o, Dim) else Dim(o)
        return self.k0 == o.k0 and self.c == o.c

    def __hash__(self):
        return hash((self.k0, tuple(sorted(self.c.items()))))

    def lean(self):
        sym = {"n": "n", "s": "s", "k": "k", "o": "ExactGP.nObs obs"}
        pos, neg = [], []
        for k in self.SYMS:
            v = self.c.get(k, 0)
            t = sym[k] if abs(v) == 1 else f"{abs(v)} * {sym[k]}"
            if v > 0:
                pos.append(t)
            elif v < 0:
                neg.append(t)
        if self.k0 > 0:
            pos.append(str(self.k0))
        elif self.k0 < 0:
            neg.append(str(-self.k0))
        out = " + ".join(pos) if pos else "0"
        for t in neg:
            out = f"{out} - {t}"
        return out if len(pos) + len(neg) <= 1 and " " not in out else f"({out})"

    __repr__ = lean


N, S, K, O, ONE = Dim(n=1), Dim(s=1), Dim(k=1), Dim(o=1), Dim(1)


# ------------------------------------------------------------------ symbolic values

class M:
    """A tensor: matrix expression + symbolic shape.  1-D tensors are columns (cols == 1) with ndim == 1."""

    def __init__(self, e, rows, cols, ndim=2, tensor=None, nanrows=False):
        self.e, self.rows, self.cols, self.ndim, self.tensor, self.nanrows = e, rows, cols, ndim, tensor, nanrows
        # tensor: True (torch.Tensor) / False (LinearOperator) / None (not determined by the code);
        # nanrows: rows of missing targets are NaN (the residual y - m before `_fill_tensor`)

    def like(self, e, **kw):
        d = dict(rows=self.rows, cols=self.cols, ndim=self.ndim, tensor=self.tensor, nanrows=self.nanrows)
        d.update(kw)
        return M(e, **d)


class Dist:            # MultivariateNormal(mean, covar)
    def __init__(self, mean, covar):
        self.mean, self.covar = mean, covar


class Mask:            # kinds: missing | obs_bool | obs_f | col | row | outer | outer_d1 | full
    def __init__(self, kind):
        self.kind = kind


class NanVec:          # torch.full_like(labels, nan)
    pass


class Scatter:         # nan vector with the value `x` written at the observed positions
    def __init__(self, x):
        self.x = x


class SetNan:          # vector `a` whose entries at the missing positions were overwritten with NaN
    def __init__(self, a):
        self.a = a


class PolicySym:       # settings.observation_nan_policy.value()
    pass


class DimSym:          # test_test_covar.dim()
    def __init__(self, of):
        self.of = of


class SizeSym:         # joint_covar.size(-1)
    pass


class EagerLimit:      # settings.max_eager_kernel_size.value()
    pass


class Atom:            # an undetermined branch condition
    def __init__(self, name, negate=False):
        self.name, self.negate = name, negate


class Opaque:          # values that never reach an output (hook wrappers, shapes passed to torch.ones, …)
    def __init__(self, what=""):
        self.what = what


class Tup:
    def __init__(self, items):
        self.items = items


FLAGS = {"fast_pred_var": "fast", "skip_posterior_variances": "skip", "detach_test_caches": "detach"}


class State:
    def __init__(self):
        self.frames = [{}]
        self.known = {}            # atom name -> bool
        self.policy = {"ignore", "mask", "fill"}
        self.binds = []            # [(name, A_expr, B_expr)]  solve let-bindings, in order
        self.nsolve = 0
        self.casts = []

    @property
    def env(self):
        return self.frames[-1]

    def fork(self):
        st = State()
        st.frames = [dict(f) for f in self.frames]
        st.known = dict(self.known)
        st.policy = set(self.policy)
        st.binds = list(self.binds)
        st.nsolve = self.nsolve
        st.casts = self.casts      # shared log
        return st


# ------------------------------------------------------------------ the symbolic executor

class Exec:
    def __init__(self, cls_node, stub=()):
        self.methods = {}
        self.props = set()
        for it in cls_node.body:
            if isinstance(it, ast.FunctionDef):
                self.methods[it.name] = it
                for d in it.decorator_list:
                    if isinstance(d, ast.Name) and d.id == "property":
                        self.props.add(it.name)
        self.stub = set(stub)
        self.casts = []

    # ---- shapes
    def fit(self, v, rows, cols, st, why):
        """Make `v` (an M) have shape rows x cols; inserts a re-sizing slice when the source's shapes do not fit."""
        if v.rows == rows and v.cols == cols:
            return v.e
        st.casts.append(f"{why}: {v.rows.lean()}x{v.cols.lean()} used as {rows.lean()}x{cols.lean()}")
        return ("slice", v.e, 0, 0, rows, cols)

    # ---- self attributes
    def self_attr(self, name, st, k):
        if name == "train_labels":
            return k(M(("var", "y"), N, ONE, ndim=1, tensor=True), st)
        if name == "train_prior_dist":
            return k(Dist(M(("var", "mx"), N, ONE, ndim=1, tensor=True), M(("var", "Kxx"), N, N, tensor=False)), st)
        if name == "train_inputs":
            return k(Opaque("train_inputs"), st)
        if name == "num_train":
            return k(N, st)
        if name == "lik_train_train_covar":
            return k(M(("var", "A"), N, N, tensor=False), st)
        if name == "_last_test_train_covar":
            return k(Opaque("_last_test_train_covar"), st)
        if name in self.props:
            return self.call_method(name, [], st, k)
        raise TranslateError(f"self.{name}: attribute outside the vocabulary")

    def call_method(self, name, args, st, k):
        if name in self.stub:
            return k(Tup([Opaque("call:" + name)] + list(args)), st)
        if name not in self.methods:
            raise TranslateError(f"self.{name}(…): method not found in DefaultPredictionStrategy")
        fn = self.methods[name]
        params = [a.arg for a in fn.args.args][1:]
        if len(params) != len(args) or fn.args.vararg or fn.args.kwarg or fn.args.kwonlyargs:
            raise TranslateError(f"self.{name}: unsupported signature / arity")
        st.frames.append(dict(zip(params, args)))

        def ret(val, st2):
            st2.frames.pop()
            return k(val, st2)
        body = [s for s in fn.body if not (isinstance(s, ast.Expr) and isinstance(s.value, ast.Constant))]
        return self.block(body, st, ret)

    # ---- statements
    def block(self, stmts, st, ret):
        if not stmts:
            return ret(None, st)
        s, rest = stmts[0], stmts[1:]
        if isinstance(s, ast.Return):
            if s.value is None:
                return ret(None, st)
            return self.ev(s.value, st, ret)
        if isinstance(s, ast.Expr):
            if isinstance(s.value, ast.Constant):
                return self.block(rest, st, ret)
            if isinstance(s.value, ast.Call) and self.is_ignorable_call(s.value):
                return self.block(rest, st, ret)
            raise TranslateError(f"line {s.lineno}: expression statement outside the vocabulary: {ast.unparse(s)[:80]}")
        if isinstance(s, ast.Assign):
            if len(s.targets) != 1:
                raise TranslateError(f"line {s.lineno}: chained assignment")
            return self.assign(s.targets[0], s.value, st, lambda st2: self.block(rest, st2, ret), s.lineno)
        if isinstance(s, ast.If):
            if self.is_hook_block(s):
                return self.block(rest, st, ret)

            def on_test(c, st2):
                if isinstance(c, bool):
                    return self.block((s.body if c else s.orelse) + rest, st2, ret)
                if not isinstance(c, Atom):
                    raise TranslateError(f"line {s.lineno}: branch condition outside the vocabulary: {ast.unparse(s.test)}")
                st_t, st_f = st2.fork(), st2.fork()
                self.assume(c, True, st_t)
                self.assume(c, False, st_f)
                return ("node", c.name, self.block((s.body if not c.negate else s.orelse) + rest, st_t, ret),
                        self.block((s.orelse if not c.negate else s.body) + rest, st_f, ret))
            return self.ev(s.test, st, on_test)
        raise TranslateError(f"line {s.lineno}: statement outside the vocabulary: {type(s).__name__}")

    def assume(self, atom, val, st):
        """Record that the (un-negated) atom `atom.name` is `val` on this path."""
        name = atom.name
        if name.startswith("policy="):
            p = name[len("policy="):]
            st.policy = {p} if val else st.policy - {p}
        else:
            st.known[name] = val

    def is_hook_block(self, s):
        t = s.test
        ok = (isinstance(t, ast.Compare) and isinstance(t.left, ast.Attribute) and t.left.attr == "grad_fn"
              and len(t.ops) == 1 and isinstance(t.ops[0], ast.IsNot))
        if not ok:
            return False
        for b in s.body:
            txt = ast.unparse(b)
            if not (txt.startswith("wrapper = functools.partial(clear_cache_hook, self)") or
                    txt.startswith("functools.update_wrapper(wrapper, clear_cache_hook)") or
                    txt.endswith(".grad_fn.register_hook(wrapper)")):
                raise TranslateError(f"line {b.lineno}: grad_fn block does more than registering clear_cache_hook")
        return not s.orelse

    def is_ignorable_call(self, c):
        return ast.unparse(c.func) == "warnings.warn"

    def assign(self, target, value, st, k, lineno):
        if isinstance(target, ast.Name):
            def done(v, st2):
                st2.env[target.id] = v
                return k(st2)
            return self.ev(value, st, done)
        if isinstance(target, ast.Tuple) and all(isinstance(t, ast.Name) for t in target.elts):
            def done(v, st2):
                if not isinstance(v, Tup) or len(v.items) != len(target.elts):
                    raise TranslateError(f"line {lineno}: tuple assignment of a non-tuple")
                for t, x in zip(target.elts, v.items):
                    st2.env[t.id] = x
                return k(st2)
            return self.ev(value, st, done)
        if isinstance(target, ast.Attribute) and ast.unparse(target) == "self._last_test_train_covar":
            return self.ev(value, st, lambda v, st2: k(st2))      # bookkeeping for the interpolated strategy only
        if isinstance(target, ast.Subscript):
            txt = ast.unparse(target)
            # torch.diagonal(kernel_mask, dim1=-2, dim2=-1)[...] = 1
            if isinstance(target.value, ast.Call) and ast.unparse(target.value.func) == "torch.diagonal":
                c = target.value
                kw = {a.arg: ast.unparse(a.value) for a in c.keywords}
                if not (len(c.args) == 1 and isinstance(c.args[0], ast.Name) and kw == {"dim1": "-2", "dim2": "-1"}
                        and isinstance(target.slice, ast.Constant) and target.slice.value is Ellipsis
                        and isinstance(value, ast.Constant) and value.value == 1):
                    raise TranslateError(f"line {lineno}: diagonal assignment outside the vocabulary: {txt}")
                name = c.args[0].id
                m = st.env.get(name)
                if not (isinstance(m, Mask) and m.kind == "outer"):
                    raise TranslateError(f"line {lineno}: diagonal of {name} set to 1, but it is not an outer-product mask")
                st.env[name] = Mask("outer_d1")
                return k(st)
            if isinstance(target.value, ast.Name):
                name = target.value.id
                cur = st.env.get(name)

                def done(vals, st2):
                    idx, v = vals
                    # mean_cache[..., observed] = x
                    if isinstance(cur, NanVec) and self.is_obs_index(idx):
                        if not isinstance(v, M):
                            raise TranslateError(f"line {lineno}: scattering a non-tensor")
                        st2.env[name] = Scatter(v)
                        return k(st2)
                    # mean_cache[missing] = torch.nan
                    if isinstance(cur, M) and isinstance(idx, Mask) and idx.kind == "missing" and isinstance(v, Opaque) \
                            and v.what == "nan":
                        st2.env[name] = SetNan(cur)
                        return k(st2)
                    raise TranslateError(f"line {lineno}: subscript assignment outside the vocabulary: {txt}")
                return self.ev_seq([target.slice, value], st, done)
        raise TranslateError(f"line {lineno}: assignment target outside the vocabulary: {ast.unparse(target)}")

    @staticmethod
    def is_obs_index(idx):
        if isinstance(idx, Mask) and idx.kind == "obs_bool":
            return True
        return (isinstance(idx, Tup) and len(idx.items) == 2 and idx.items[0] is Ellipsis
                and isinstance(idx.items[1], Mask) and idx.items[1].kind == "obs_bool")

    # ---- expressions (continuation passing: inlined method calls may fork)
    def ev_seq(self, exprs, st, k):
        def go(i, acc, st2):
            if i == len(exprs):
                return k(acc, st2)
            return self.ev(exprs[i], st2, lambda v, st3: go(i + 1, acc + [v], st3))
        return go(0, [], st)

    def ev(self, e, st, k):
        if isinstance(e, ast.Constant):
            return k(e.value, st)
        if isinstance(e, ast.Name):
            if e.id in st.env:
                return k(st.env[e.id], st)
            raise TranslateError(f"line {e.lineno}: unknown name {e.id}")
        if isinstance(e, ast.Tuple):
            return self.ev_seq(list(e.elts), st, lambda vs, st2: k(Tup(vs), st2))
        if isinstance(e, ast.Starred):
            return self.ev(e.value, st, k)
        if isinstance(e, ast.UnaryOp):
            def un(v, st2):
                if isinstance(e.op, ast.USub) and isinstance(v, (int, float)):
                    return k(-v, st2)
                if isinstance(e.op, ast.Invert) and isinstance(v, Mask) and v.kind == "missing":
                    return k(Mask("obs_bool"), st2)
                raise TranslateError(f"line {e.lineno}: unary operator outside the vocabulary: {ast.unparse(e)}")
            return self.ev(e.operand, st, un)
        if isinstance(e, ast.Attribute):
            return self.attribute(e, st, k)
        if isinstance(e, ast.Subscript):
            return self.ev_seq([e.value, e.slice], st, lambda vs, st2: k(self.subscript(vs[0], vs[1], st2, e), st2))
        if isinstance(e, ast.Slice):
            return self.ev_seq([x if x is not None else ast.Constant(None) for x in (e.lower, e.upper, e.step)], st,
                               lambda vs, st2: k(slice(*vs), st2))
        if isinstance(e, ast.BinOp):
            return self.ev_seq([e.left, e.right], st, lambda vs, st2: k(self.binop(e, vs[0], vs[1], st2), st2))
        if isinstance(e, ast.Compare):
            if len(e.ops) != 1:
                raise TranslateError(f"line {e.lineno}: chained comparison")
            return self.ev_seq([e.left, e.comparators[0]], st,
                               lambda vs, st2: k(self.compare(e, vs[0], vs[1], st2), st2))
        if isinstance(e, ast.Call):
            return self.call(e, st, k)
        raise TranslateError(f"line {e.lineno}: expression outside the vocabulary: {type(e).__name__} {ast.unparse(e)[:60]}")

    def attribute(self, e, st, k):
        txt = ast.unparse(e)
        if isinstance(e.value, ast.Name) and e.value.id == "self":
            return self.self_attr(e.attr, st, k)
        if txt == "torch.nan":
            return k(Opaque("nan"), st)
        if txt in ("torch.bool", "torch.float"):
            return k(Opaque(txt), st)

        def on(v, st2):
            a = e.attr
            if isinstance(v, Dist):
                if a in ("loc", "mean"):
                    return k(v.mean, st2)
                if a == "lazy_covariance_matrix":
                    return k(v.covar, st2)
                if a == "__class__":
                    return k(Opaque("MVN-class"), st2)
            if isinstance(v, (M, Scatter, SetNan)) and a in ("shape", "device", "dtype"):
                return k(Opaque(a + ":" + ("vec" if getattr(v, "ndim", 1) == 1 else "mat")), st2)
            if isinstance(v, M) and a == "root":
                return k(v, st2)
            raise TranslateError(f"line {e.lineno}: attribute outside the vocabulary: {txt}")
        return self.ev(e.value, st, on)

    def compare(self, e, a, b, st):
        op = e.ops[0]
        if isinstance(a, PolicySym) and isinstance(b, str) and isinstance(op, (ast.Eq, ast.NotEq)):
            if b not in ("ignore", "mask", "fill"):
                raise TranslateError(f"line {e.lineno}: unknown policy literal {b!r}")
            if st.policy == {b}:
                res = True
            elif b not in st.policy:
                res = False
            else:
                return Atom("policy=" + b, negate=isinstance(op, ast.NotEq))
            return res if isinstance(op, ast.Eq) else not res
        if isinstance(a, str) and isinstance(b, str) and isinstance(op, (ast.Eq, ast.NotEq)):
            return (a == b) if isinstance(op, ast.Eq) else (a != b)
        if isinstance(a, DimSym) and b == 2 and isinstance(op, ast.Eq):
            return st.known["ttDim2"] if "ttDim2" in st.known else Atom("ttDim2")
        if isinstance(a, Opaque) and a.what == "len-shape:vec" and b == 4 and isinstance(op, ast.Eq):
            return st.known["cache4d"] if "cache4d" in st.known else Atom("cache4d")
        if isinstance(a, SizeSym) and isinstance(b, EagerLimit) and isinstance(op, ast.LtE):
            return st.known["eager"] if "eager" in st.known else Atom("eager")
        raise TranslateError(f"line {e.lineno}: comparison outside the vocabulary: {ast.unparse(e)}")

    def binop(self, e, a, b, st):
        op = e.op
        if isinstance(a, Dim) and isinstance(b, (int, Dim)) and isinstance(op, (ast.Add, ast.Sub)):
            return a + b if isinstance(op, ast.Add) else a - b
        if isinstance(op, ast.MatMult):
            return self.matmul(a, b, st, e.lineno)
        if isinstance(op, (ast.Add, ast.Sub)) and isinstance(a, M) and isinstance(b, M):
            tag = "add" if isinstance(op, ast.Add) else "sub"
            be = self.fit(b, a.rows, a.cols, st, f"line {e.lineno}: {tag}")
            tensor = True if (a.tensor and b.tensor) else (False if (a.tensor is False or b.tensor is False) else None)
            nanrows = (a.nanrows or b.nanrows) or (a.e == ("var", "y") or b.e == ("var", "y"))
            return M((tag, a.e, be), a.rows, a.cols, ndim=max(a.ndim, b.ndim), tensor=tensor, nanrows=nanrows)
        if isinstance(op, ast.Mult):
            if isinstance(a, Mask) and isinstance(b, Mask):
                if {a.kind, b.kind} == {"col", "row"}:
                    return Mask("outer")
                raise TranslateError(f"line {e.lineno}: product of masks outside the vocabulary")
            if isinstance(b, Mask) and isinstance(a, M):
                a, b = b, a
            if isinstance(a, Mask) and isinstance(b, M):
                if a.kind == "row":
                    return b.like(("zeroCols", b.e))
                if a.kind == "outer_d1":
                    if b.rows != b.cols:
                        raise TranslateError(f"line {e.lineno}: diagonal-kept mask on a non-square operand")
                    return b.like(("fill", b.e))
                raise TranslateError(f"line {e.lineno}: tensor * mask of kind {a.kind} outside the vocabulary")
            if isinstance(a, (int, float)) and isinstance(b, M):
                return b.like(smul(a, b.e))
            if isinstance(b, (int, float)) and isinstance(a, M):
                return a.like(smul(b, a.e))
        raise TranslateError(f"line {e.lineno}: binary operation outside the vocabulary: {ast.unparse(e)[:80]}")

    def matmul(self, a, b, st, lineno):
        if not (isinstance(a, M) and isinstance(b, M)):
            raise TranslateError(f"line {lineno}: matmul of non-tensors")
        if b.ndim == 1:
            raise TranslateError(f"line {lineno}: matrix @ 1-d tensor is outside the vocabulary (unsqueeze first)")
        be = self.fit(b, a.cols, b.cols, st, f"line {lineno}: matmul")
        return M(("mul", a.e, be), a.rows, b.cols, tensor=(a.tensor and b.tensor) or None)

    def subscript(self, v, idx, st, node):
        items = idx.items if isinstance(idx, Tup) else [idx]
        lineno = node.lineno
        if isinstance(v, Opaque) and v.what.startswith("shape:"):
            return Opaque("shape-entry")
        if isinstance(v, Mask):
            if v.kind == "obs_f" and len(items) == 2 and items[0] is Ellipsis and items[1] is None:
                return Mask("col")
            if v.kind == "obs_f" and len(items) == 3 and items[0] is Ellipsis and items[1] is None and \
                    items[2] == slice(None, None, None):
                return Mask("row")
            raise TranslateError(f"line {lineno}: mask indexing outside the vocabulary: {ast.unparse(node)}")
        if isinstance(v, Scatter):
            if self.is_obs_index(idx):
                return v.x
            raise TranslateError(f"line {lineno}: indexing the masked mean cache with something else than `observed`")
        if not isinstance(v, M):
            raise TranslateError(f"line {lineno}: subscript of a non-tensor: {ast.unparse(node)}")
        if items and items[0] is Ellipsis:
            items = items[1:]
        else:
            raise TranslateError(f"line {lineno}: index without leading `...`: {ast.unparse(node)}")
        full = slice(None, None, None)
        if v.ndim == 1:
            if len(items) != 1:
                raise TranslateError(f"line {lineno}: 1-d tensor indexed with {len(items)} indices")
            rsel, csel = items[0], full
        elif len(items) == 1:
            rsel, csel = full, items[0]
        elif len(items) == 2:
            rsel, csel = items
        else:
            raise TranslateError(f"line {lineno}: too many indices: {ast.unparse(node)}")
        # boolean masks
        if isinstance(rsel, Mask) or isinstance(csel, Mask):
            if isinstance(rsel, Mask) and rsel.kind == "obs_bool" and csel == full:
                if v.rows != N:
                    raise TranslateError(f"line {lineno}: `observed` indexes a dimension of size {v.rows.lean()}")
                return v.like(("maskRows", v.e), rows=O, nanrows=False)
            if isinstance(csel, Mask) and csel.kind == "obs_bool" and rsel == full:
                if v.cols != N:
                    raise TranslateError(f"line {lineno}: `observed` indexes a dimension of size {v.cols.lean()}")
                return v.like(("maskCols", v.e), cols=O)
            raise TranslateError(f"line {lineno}: boolean indexing outside the vocabulary: {ast.unparse(node)}")
        r0, rn = self.bounds(rsel, v.rows, lineno)
        c0, cn = self.bounds(csel, v.cols, lineno)
        if r0 == Dim(0) and c0 == Dim(0) and rn == v.rows and cn == v.cols:
            return v
        return v.like(("slice", v.e, r0, c0, rn, cn), rows=rn, cols=cn)

    def bounds(self, sl, size, lineno):
        if not isinstance(sl, slice) or sl.step is not None:
            raise TranslateError(f"line {lineno}: index outside the vocabulary (need a unit-step slice)")

        def norm(x, default):
            if x is None:
                return default
            if isinstance(x, int):
                return Dim(x) if x >= 0 else size + x
            if isinstance(x, Dim):
                return x
            raise TranslateError(f"line {lineno}: slice bound outside the vocabulary")
        lo, hi = norm(sl.start, Dim(0)), norm(sl.stop, size)
        return lo, hi - lo

    # ---- calls
    def call(self, e, st, k):
        f = e.func
        txt = dotted(f) or "<expr>." + (f.attr if isinstance(f, ast.Attribute) else "?")
        kw = {a.arg: a.value for a in e.keywords}
        # settings
        if txt.startswith("settings."):
            parts = txt.split(".")
            if len(parts) == 3 and parts[1] in FLAGS and parts[2] in ("on", "off") and not e.args:
                name = FLAGS[parts[1]]
                if name in st.known:
                    return k(st.known[name] == (parts[2] == "on"), st)
                return k(Atom(name, negate=(parts[2] == "off")), st)
            if txt == "settings.observation_nan_policy.value":
                return k(PolicySym(), st)
            if txt == "settings.max_eager_kernel_size.value":
                return k(EagerLimit(), st)
            if txt == "settings.observation_nan_policy._get_observed":
                def obs(vs, st2):
                    src = vs[0]
                    ok = (isinstance(src, M) and src.e == ("var", "y")) or isinstance(src, (Scatter, SetNan))
                    if not ok:
                        raise TranslateError(f"line {e.lineno}: _get_observed of something whose NaN pattern is not the missing targets")
                    return k(Mask("obs_bool"), st2)
                return self.ev_seq(list(e.args), st, obs)
            if txt == "settings.observation_nan_policy._fill_tensor":
                def fl(vs, st2):
                    x = vs[0]
                    if isinstance(x, SetNan):
                        return k(x.a.like(("fillRows", x.a.e)), st2)
                    if isinstance(x, M) and x.nanrows:
                        return k(x.like(("fillRows", x.e), nanrows=False), st2)
                    raise TranslateError(f"line {e.lineno}: _fill_tensor of a tensor whose NaN pattern is unknown")
                return self.ev_seq(list(e.args), st, fl)
            raise TranslateError(f"line {e.lineno}: settings call outside the vocabulary: {txt}")
        # self.method(...)
        if isinstance(f, ast.Attribute) and isinstance(f.value, ast.Name) and f.value.id == "self":
            if f.attr == "likelihood":
                def lik(vs, st2):
                    d = vs[0]
                    if not (isinstance(d, Dist) and isinstance(d.covar, M) and d.covar.e == ("var", "Kxx")):
                        raise TranslateError(f"line {e.lineno}: self.likelihood(…) of something else than the train prior")
                    return k(Dist(d.mean, M(("var", "A"), N, N, tensor=False)), st2)
                return self.ev_seq(list(e.args), st, lik)
            return self.ev_seq(list(e.args), st, lambda vs, st2: self.call_method(f.attr, vs, st2, k))
        # torch / linear_operator free functions
        if txt in ("to_dense", "to_linear_operator"):
            return self.ev_seq(list(e.args), st, lambda vs, st2: k(
                self.need_M(vs[0], e).like(vs[0].e, tensor=(txt == "to_dense")), st2))
        if txt == "torch.is_tensor":
            def ist(vs, st2):
                v = self.need_M(vs[0], e)
                if v.tensor is not None:
                    return k(v.tensor, st2)
                return k(st2.known["ttIsTensor"] if "ttIsTensor" in st2.known else Atom("ttIsTensor"), st2)
            return self.ev_seq(list(e.args), st, ist)
        if txt == "torch.zeros_like":
            return self.ev_seq(list(e.args), st, lambda vs, st2: k(
                self.need_M(vs[0], e).like(("zeros", vs[0].rows, vs[0].cols)), st2))
        if txt == "torch.full_like":
            def fl(vs, st2):
                if isinstance(vs[0], M) and vs[0].e == ("var", "y") and isinstance(vs[1], Opaque) and vs[1].what == "nan":
                    return k(NanVec(), st2)
                raise TranslateError(f"line {e.lineno}: torch.full_like outside the vocabulary")
            return self.ev_seq(list(e.args), st, fl)
        if txt == "torch.isnan":
            def isn(vs, st2):
                src = vs[0]
                if (isinstance(src, M) and src.e == ("var", "y")) or isinstance(src, (Scatter, SetNan)):
                    return k(Mask("missing"), st2)
                raise TranslateError(f"line {e.lineno}: torch.isnan of a tensor whose NaN pattern is unknown")
            return self.ev_seq(list(e.args), st, isn)
        if txt == "torch.ones":
            if "dtype" in kw and ast.unparse(kw["dtype"]) == "torch.bool":
                return k(Mask("full"), st)
            raise TranslateError(f"line {e.lineno}: torch.ones outside the vocabulary")
        if txt == "torch.Size":
            return k(Opaque("size"), st)
        if txt == "len":
            return self.ev_seq(list(e.args), st, lambda vs, st2: k(
                Opaque("len-" + vs[0].what) if isinstance(vs[0], Opaque) else self.bad(e), st2))
        if txt == "ZeroLinearOperator":
            def z(vs, st2):
                if len(vs) == 1 and isinstance(vs[0], Tup) and len(vs[0].items) == 2:
                    r, c = vs[0].items
                    return k(M(("zeros", r, c), r, c, tensor=False), st2)
                raise TranslateError(f"line {e.lineno}: ZeroLinearOperator outside the vocabulary")
            return self.ev_seq(list(e.args), st, z)
        if txt == "MatmulLinearOperator":
            return self.ev_seq(list(e.args), st, lambda vs, st2: k(self._mm_lazy(vs, st2, e), st2))
        if txt == "MaskedLinearOperator":
            def ml(vs, st2):
                x, rm, cm = self.need_M(vs[0], e), vs[1], vs[2]
                if not (isinstance(rm, Mask) and isinstance(cm, Mask)):
                    raise TranslateError(f"line {e.lineno}: MaskedLinearOperator with non-mask arguments")
                kinds = (rm.kind, cm.kind)
                if kinds == ("obs_bool", "obs_bool"):
                    if x.rows != N or x.cols != N:
                        raise TranslateError(f"line {e.lineno}: MaskedLinearOperator(observed, observed) on a non n x n operand")
                    return k(x.like(("maskSub", x.e), rows=O, cols=O, tensor=False), st2)
                if kinds == ("full", "obs_bool"):
                    if x.cols != N:
                        raise TranslateError(f"line {e.lineno}: column mask on a dimension of size {x.cols.lean()}")
                    return k(x.like(("maskCols", x.e), cols=O, tensor=False), st2)
                if kinds == ("obs_bool", "full"):
                    if x.rows != N:
                        raise TranslateError(f"line {e.lineno}: row mask on a dimension of size {x.rows.lean()}")
                    return k(x.like(("maskRows", x.e), rows=O, tensor=False), st2)
                raise TranslateError(f"line {e.lineno}: MaskedLinearOperator mask kinds {kinds}")
            return self.ev_seq(list(e.args), st, ml)
        if txt in ("torch.addmm", "torch.baddbmm"):
            def addmm(vs, st2):
                inp, a, b = [self.need_M(v, e) for v in vs[:3]]
                beta, alpha = vs[3], vs[4]
                prod = self.matmul(a, b, st2, e.lineno)
                pe = self.fit(prod, inp.rows, inp.cols, st2, f"line {e.lineno}: {txt}")
                return k(M(("add", smul(beta, inp.e), smul(alpha, pe)), inp.rows, inp.cols, tensor=True), st2)
            extra = [kw.get("beta", ast.Constant(1)), kw.get("alpha", ast.Constant(1))]
            if len(e.args) != 3 or set(kw) - {"beta", "alpha"}:
                raise TranslateError(f"line {e.lineno}: {txt} with an unsupported argument list")
            return self.ev_seq(list(e.args) + extra, st, addmm)
        if txt == "torch.add":
            def tadd(vs, st2):
                a, b, alpha = self.need_M(vs[0], e), self.need_M(vs[1], e), vs[2]
                be = self.fit(b, a.rows, a.cols, st2, f"line {e.lineno}: torch.add")
                return k(M(("add", a.e, smul(alpha, be)), a.rows, a.cols, tensor=True), st2)
            if len(e.args) != 2 or set(kw) - {"alpha"}:
                raise TranslateError(f"line {e.lineno}: torch.add with an unsupported argument list")
            return self.ev_seq(list(e.args) + [kw.get("alpha", ast.Constant(1))], st, tadd)
        # constructor of the prior's class: X.__class__(mean, covar)
        if isinstance(f, ast.Attribute) and f.attr == "__class__":
            return self.ev_seq(list(e.args), st, lambda vs, st2: k(Dist(vs[0], vs[1]), st2))
        # methods on values
        if isinstance(f, ast.Attribute):
            return self.ev(f.value, st, lambda recv, st2: self.ev_seq(
                list(e.args), st2, lambda vs, st3: self.method(recv, f.attr, vs, kw, st3, e, k)))
        raise TranslateError(f"line {e.lineno}: call outside the vocabulary: {txt}")

    def _mm_lazy(self, vs, st, e):
        r = self.matmul(self.need_M(vs[0], e), self.need_M(vs[1], e), st, e.lineno)
        return r.like(r.e, tensor=False)

    def bad(self, e):
        raise TranslateError(f"line {e.lineno}: call outside the vocabulary: {ast.unparse(e)[:80]}")

    def need_M(self, v, e):
        if not isinstance(v, M):
            raise TranslateError(f"line {e.lineno}: tensor expected in {ast.unparse(e)[:80]}")
        return v

    def method(self, recv, name, args, kw, st, e, k):
        ln = e.lineno
        if isinstance(recv, Mask):
            if name == "reshape" and args == [-1]:
                return k(recv, st)
            if name == "to" and recv.kind == "obs_bool":
                return k(Mask("obs_f"), st)
            raise TranslateError(f"line {ln}: mask method outside the vocabulary: .{name}")
        if isinstance(recv, (Scatter, SetNan, NanVec)):
            if name == "detach":
                return k(recv, st)
            if name == "squeeze" and args == [1] and st.known.get("cache4d") is True:
                return k(recv, st)      # singleton *batch* dimension of fantasy models: identity per element
            raise TranslateError(f"line {ln}: method .{name} on the NaN-marked mean cache is outside the vocabulary")
        if not isinstance(recv, M):
            raise TranslateError(f"line {ln}: method .{name} on a non-tensor: {ast.unparse(e)[:80]}")
        if name in ("detach", "evaluate_kernel", "contiguous"):
            return k(recv, st)
        if name == "to_dense":
            return k(recv.like(recv.e, tensor=True), st)
        if name == "transpose":
            if sorted(args) != [-2, -1]:
                raise TranslateError(f"line {ln}: transpose of other dimensions than the last two")
            if recv.ndim != 2:
                raise TranslateError(f"line {ln}: transpose of a 1-d tensor")
            return k(recv.like(("T", recv.e), rows=recv.cols, cols=recv.rows), st)
        if name == "mul":
            if len(args) == 1 and isinstance(args[0], (int, float)):
                return k(recv.like(smul(args[0], recv.e)), st)
            raise TranslateError(f"line {ln}: .mul with a non-constant argument")
        if name == "matmul":
            return k(self.matmul(recv, self.need_M(args[0], e), st, ln), st)
        if name == "unsqueeze":
            if args == [-1] and recv.ndim == 1:
                return k(recv.like(recv.e, ndim=2), st)
            raise TranslateError(f"line {ln}: unsqueeze outside the vocabulary")
        if name == "squeeze":
            if args == [-1] and recv.ndim == 2 and recv.cols == ONE:
                return k(recv.like(recv.e, ndim=1), st)
            if args == [1] and st.known.get("cache4d") is True:
                return k(recv, st)      # drops a singleton *batch* dimension (fantasy models): identity per element
            raise TranslateError(f"line {ln}: squeeze outside the vocabulary")
        if name == "solve":
            rhs = self.need_M(args[0], e)
            if recv.rows != recv.cols:
                raise TranslateError(f"line {ln}: solve with a non-square operand")
            be = self.fit(rhs, recv.rows, rhs.cols, st, f"line {ln}: solve")
            st.nsolve += 1
            nm = f"x{st.nsolve}"
            st.binds.append((nm, recv.e, be))
            return k(M(("var", nm), recv.rows, rhs.cols, ndim=rhs.ndim, tensor=True), st)
        if name == "root_inv_decomposition" and not args:
            if recv.e != ("var", "A"):
                raise TranslateError(f"line {ln}: root_inv_decomposition of something else than the train-train covariance")
            return k(M(("var", "R"), N, K, tensor=False), st)
        if name == "size":
            if not args:
                return k(Tup([recv.rows, recv.cols]), st)
            if args == [-1]:
                return k(SizeSym(), st)
            raise TranslateError(f"line {ln}: size() outside the vocabulary")
        if name == "dim" and not args:
            return k(DimSym(recv), st)
        raise TranslateError(f"line {ln}: tensor method outside the vocabulary: .{name}")


def dotted(f):
    """'a.b.c' for a pure Name/Attribute chain, else None."""
    parts = []
    while isinstance(f, ast.Attribute):
        parts.append(f.attr)
        f = f.value
    if isinstance(f, ast.Name):
        return ".".join([f.id] + parts[::-1])
    return None


def smul(c, e):
    if not isinstance(c, (int, float)):
        raise TranslateError(f"scalar factor is not a numeric literal: {c!r}")
    if c == 1:
        return e
    return ("smul", c, e)


# ------------------------------------------------------------------ Lean emission

def lean_expr(e):
    t = e[0]
    if t == "var":
        return e[1]
    if t in ("add", "sub", "mul"):
        return f"({lean_expr(e[1])}).{t} ({lean_expr(e[2])})"
    if t == "smul":
        c = e[1]
        cs = str(int(c)) if float(c).is_integer() else repr(c)
        return f"DMat.smul ({cs} : α) ({lean_expr(e[2])})"
    if t == "T":
        return f"({lean_expr(e[1])}).transpose"
    if t == "slice":
        r0 = e[2].lean() if isinstance(e[2], Dim) else str(e[2])
        c0 = e[3].lean() if isinstance(e[3], Dim) else str(e[3])
        return f"(GenOps.slice ({lean_expr(e[1])}) {r0} {c0} : DMat {e[4].lean()} {e[5].lean()} α)"
    if t == "zeros":
        return f"(GenOps.zeros : DMat {e[1].lean()} {e[2].lean()} α)"
    if t in ("maskSub", "maskRows", "maskCols", "fill", "zeroCols"):
        return f"ExactGP.{t} ({lean_expr(e[1])}) obs"
    if t == "fillRows":
        return f"ExactGP.fillRows ({lean_expr(e[1])}) obs cfill"
    raise TranslateError(f"cannot emit {t}")


def value_expr(v, what):
    if isinstance(v, M):
        return lean_expr(v.e)
    if isinstance(v, Scatter):
        return lean_expr(v.x.e)
    if isinstance(v, SetNan):
        return lean_expr(v.a.e)
    if isinstance(v, Tup):
        return "(" + ", ".join(value_expr(x, what) for x in v.items) + ")"
    raise TranslateError(f"{what}: result is not a tensor ({type(v).__name__})")


ATOM_LEAN = {"fast": "cfg.fast = true", "skip": "cfg.skip = true", "detach": "cfg.detach = true",
             "eager": "cfg.eager = true", "ttIsTensor": "cfg.ttIsTensor = true", "ttDim2": "cfg.ttDim2 = true",
             "cache4d": "cfg.cache4d = true", "policy=ignore": "cfg.policy = ExactGP.Policy.ignore",
             "policy=mask": "cfg.policy = ExactGP.Policy.mask", "policy=fill": "cfg.policy = ExactGP.Policy.fill"}


def emit_tree(tree, ind, what, pure):
    pad = "  " * ind
    if tree[0] == "leaf":
        _, binds, val = tree
        if pure:
            if binds:
                raise TranslateError(f"{what}: a solve inside a function emitted as pure")
            return f"{pad}{value_expr(val, what)}"
        lines = [f"{pad}do"]
        for nm, a, b in binds:
            lines.append(f"{pad}  let {nm} ← ExactGP.solve? ({lean_expr(a)}) ({lean_expr(b)})")
        lines.append(f"{pad}  pure ({value_expr(val, what)})")
        return "\n".join(lines)
    _, atom, t, f = tree
    return (f"{pad}if {ATOM_LEAN[atom]} then\n{emit_tree(t, ind + 1, what, pure)}\n{pad}else\n"
            f"{emit_tree(f, ind + 1, what, pure)}")


def simplify(tree):
    """Collapse a branch whose two subtrees are the same expression (e.g. `.detach()` only)."""
    if tree[0] == "leaf":
        return tree
    t, f = simplify(tree[2]), simplify(tree[3])
    if canon(t) == canon(f):
        return t
    return ("node", tree[1], t, f)


def tree_atoms(tree, acc=None):
    acc = acc if acc is not None else []
    if tree[0] == "node":
        if tree[1] not in acc:
            acc.append(tree[1])
        tree_atoms(tree[2], acc)
        tree_atoms(tree[3], acc)
    return acc


def tree_leaves(tree):
    return 1 if tree[0] == "leaf" else tree_leaves(tree[2]) + tree_leaves(tree[3])


def canon(tree):
    """Stable text of a decision tree (used for the diff against the baseline and in the evidence)."""
    if tree[0] == "leaf":
        b = "; ".join(f"{nm} := solve({lean_expr(a)}, {lean_expr(bb)})" for nm, a, bb in tree[1])
        return f"[{b} ⊢ {value_expr(tree[2], 'canon')}]"
    return f"({tree[1]} ? {canon(tree[2])} : {canon(tree[3])})"


# ------------------------------------------------------------------ ExactGP.__call__ facts

def call_facts(repo):
    """Structural facts of ExactGP.__call__'s posterior branch that the algebra relies on."""
    src = open(os.path.join(repo, "gpytorch/models/exact_gp.py")).read()
    mod = ast.parse(src)
    cls = next((n for n in mod.body if isinstance(n, ast.ClassDef) and n.name == "ExactGP"), None)
    if cls is None:
        raise TranslateError("class ExactGP not found")
    fn = next((n for n in cls.body if isinstance(n, ast.FunctionDef) and n.name == "__call__"), None)
    if fn is None:
        raise TranslateError("ExactGP.__call__ not found")
    cats, preds = [], []
    for node in ast.walk(fn):
        if isinstance(node, ast.Call) and ast.unparse(node.func) == "torch.cat":
            cats.append(node)
        if isinstance(node, ast.With):
            hdr = [ast.unparse(i.context_expr) for i in node.items]
            for sub in ast.walk(node):
                if isinstance(sub, ast.Call) and ast.unparse(sub.func) == "self.prediction_strategy.exact_prediction":
                    preds.append((hdr, [ast.unparse(a) for a in sub.args]))
    if len(cats) != 1:
        raise TranslateError(f"ExactGP.__call__: expected exactly one torch.cat, found {len(cats)}")
    cat = cats[0]
    order = [ast.unparse(x) for x in cat.args[0].elts] if isinstance(cat.args[0], ast.List) else None
    dim = {k.arg: ast.unparse(k.value) for k in cat.keywords}.get("dim")
    if len(preds) != 1:
        raise TranslateError("ExactGP.__call__: exact_prediction is not called exactly once inside a `with` block")
    hdr, args = preds[0]
    all_calls = [n for n in ast.walk(fn) if isinstance(n, ast.Call)
                 and ast.unparse(n.func) == "self.prediction_strategy.exact_prediction"]
    return {"catTrainFirst": order == ["train_input", "input"], "catDimPoints": dim == "-2",
            "evalTolInForce": hdr == ["settings.cg_tolerance(settings.eval_cg_tolerance.value())"] and len(all_calls) == 1,
            "predictsFromJoint": args == ["full_mean", "full_covar"]}


# ------------------------------------------------------------------ driver

HEADER = '''/-
GENERATED by harness/translate/g7_exact_algebra.py from
  $VERIF_REPO/gpytorch/models/exact_prediction_strategies.py  (class DefaultPredictionStrategy)
  $VERIF_REPO/gpytorch/models/exact_gp.py                     (ExactGP.__call__)
Do not edit: regenerated on every `./check C01` / `./check C16`.  A committed copy is the baseline.

Each function is the decision tree of the Python control flow with a straight-line matrix expression at every leaf;
`solve` is `ExactGP.solve?` (certified `A⁻¹B`).  Parameters: `A` = covariance of `likelihood(train prior)`,
`mx`/`y` = train prior mean / targets, `mt`, `Kts`, `Ktt` = test mean, test–train, test–test covariance,
`J`/`mj` = joint covariance / mean on `[train; test]`, `R` = `A.root_inv_decomposition().root`,
`obs` = observed-targets indicator, `cfill` = `observation_nan_policy._fill_value`.
-/
import GPVerif.Model.ExactGP
import GPVerif.Model.GenOps

set_option linter.unusedVariables false

namespace Gen.ExactAlgebra

/-- The branch conditions of the translated code. -/
structure Cfg where
  fast : Bool        -- settings.fast_pred_var.on()
  skip : Bool        -- settings.skip_posterior_variances.on()
  detach : Bool      -- settings.detach_test_caches.on()
  eager : Bool       -- joint_covar.size(-1) <= settings.max_eager_kernel_size.value()
  ttIsTensor : Bool  -- torch.is_tensor(test_test_covar)
  ttDim2 : Bool      -- test_test_covar.dim() == 2
  cache4d : Bool     -- len(mean_cache.shape) == 4
  policy : ExactGP.Policy   -- settings.observation_nan_policy.value()

variable {n s k : Nat} {α : Type} [Field α] [DecidableEq α]

'''

SIGS = {
    "split": ("(cfg : Cfg) (J : DMat (n + s) (n + s) α) (mj : DMat (n + s) 1 α)",
              "DMat s 1 α × DMat s n α × DMat s s α × DMat s n α", True),
    "mean_cache_ignore": ("(cfg : Cfg) (A : DMat n n α) (mx y : DMat n 1 α)", "Option (DMat n 1 α)", False),
    "mean_cache_mask": ("(cfg : Cfg) (A : DMat n n α) (mx y : DMat n 1 α) (obs : Fin n → Bool)",
                        "Option (DMat (ExactGP.nObs obs) 1 α)", False),
    "mean_cache_fill": ("(cfg : Cfg) (A : DMat n n α) (mx y : DMat n 1 α) (obs : Fin n → Bool) (cfill : α)",
                        "Option (DMat n 1 α)", False),
    "exact_predictive_mean": ("(cfg : Cfg) (mt : DMat s 1 α) (Kts : DMat s n α) (A : DMat n n α) (mx y : DMat n 1 α) "
                              "(obs : Fin n → Bool) (cfill : α)", "Option (DMat s 1 α)", False),
    "exact_predictive_covar": ("(cfg : Cfg) (Ktt : DMat s s α) (Kts : DMat s n α) (A : DMat n n α) (R : DMat n k α) "
                               "(obs : Fin n → Bool)", "Option (DMat s s α)", False),
    "exact_predictive_covar_missing_obs": ("(cfg : Cfg) (Ktt : DMat s s α) (Kts : DMat s n α) (A : DMat n n α) "
                                           "(obs : Fin n → Bool)", "Option (DMat s s α)", False),
    "exact_prediction": ("(cfg : Cfg) (J : DMat (n + s) (n + s) α) (mj : DMat (n + s) 1 α) (A : DMat n n α) "
                         "(mx y : DMat n 1 α) (R : DMat n k α) (obs : Fin n → Bool) (cfill : α)",
                         "Option (DMat s 1 α × DMat s s α)", False),
}

DOC = {
    "split": "`exact_prediction`: the split of the joint at `num_train` — `(test_mean, test_train (as passed to the mean), test_test, test_train (as passed to the covariance))`.",
    "mean_cache_ignore": "`_mean_cache('ignore')`.",
    "mean_cache_mask": "`_mean_cache('mask')`: the values written at the observed positions.",
    "mean_cache_fill": "`_mean_cache('fill')`: the full-size solve (before its missing entries are overwritten with NaN).",
    "exact_predictive_mean": "`exact_predictive_mean` with `self.mean_cache` inlined.",
    "exact_predictive_covar": "`exact_predictive_covar` (skip / missing observations / non-fast in its three shapes / fast in its two).",
    "exact_predictive_covar_missing_obs": "`_exact_predictive_covar_missing_obs` (`mask` when `cfg.policy = mask`, otherwise `fill`).",
    "exact_prediction": "`exact_prediction`: split + mean + covariance.",
}


def _parse_cls(repo):
    path = os.path.join(repo, "gpytorch/models/exact_prediction_strategies.py")
    mod = ast.parse(open(path).read())
    cls = next((n for n in mod.body if isinstance(n, ast.ClassDef) and n.name == "DefaultPredictionStrategy"), None)
    if cls is None:
        raise TranslateError("class DefaultPredictionStrategy not found")
    return cls


def translate(repo):
    import sys
    if sys.getrecursionlimit() < 50000:
        sys.setrecursionlimit(50000)       # the executor is written in continuation-passing style
    cls = _parse_cls(repo)
    trees, casts = {}, []

    def run(name, method, args, stub=(), policy=None, known=None):
        ex = Exec(cls, stub=stub)
        st = State()
        st.casts = casts
        if policy:
            st.policy = {policy}
        st.known.update(known or {})

        def leaf(val, st2):
            return ("leaf", list(st2.binds), val)
        trees[name] = ex.call_method(method, args, st, leaf)

    mt = M(("var", "mt"), S, ONE, ndim=1, tensor=True)
    kts = M(("var", "Kts"), S, N)
    ktt = M(("var", "Ktt"), S, S)
    J = M(("var", "J"), N + S, N + S, tensor=False)
    mj = M(("var", "mj"), N + S, ONE, ndim=1, tensor=True)

    # the split: exact_prediction with the two callees stubbed (they return their arguments)
    ex = Exec(cls, stub=("exact_predictive_mean", "exact_predictive_covar"))
    st = State()
    st.casts = casts

    def split_leaf(val, st2):
        if not (isinstance(val, Tup) and len(val.items) == 2 and all(isinstance(t, Tup) for t in val.items)):
            raise TranslateError("exact_prediction does not return (exact_predictive_mean(…), exact_predictive_covar(…))")
        m, c = val.items
        if not (m.items[0].what == "call:exact_predictive_mean" and c.items[0].what == "call:exact_predictive_covar"
                and len(m.items) == 3 and len(c.items) == 3):
            raise TranslateError("exact_prediction: unexpected callee / arity in the returned pair")
        tm, kts_m = m.items[1], m.items[2]
        tt, kts_c = c.items[1], c.items[2]
        for v, (r, cc), nm in ((tm, (S, ONE), "test_mean"), (kts_m, (S, N), "test_train_covar (mean)"),
                               (tt, (S, S), "test_test_covar"), (kts_c, (S, N), "test_train_covar (covar)")):
            if not isinstance(v, M):
                raise TranslateError(f"exact_prediction passes a non-tensor as {nm}")
        fit = ex.fit
        return ("leaf", [], Tup([M(fit(tm, S, ONE, st2, "split: test_mean"), S, ONE),
                                 M(fit(kts_m, S, N, st2, "split: test_train (mean)"), S, N),
                                 M(fit(tt, S, S, st2, "split: test_test"), S, S),
                                 M(fit(kts_c, S, N, st2, "split: test_train (covar)"), S, N)]))
    trees["split"] = ex.call_method("exact_prediction", [mj, J], st, split_leaf)

    for pol in ("ignore", "mask", "fill"):
        run("mean_cache_" + pol, "_mean_cache", [pol], policy=pol)
        # inside _mean_cache the parameter is a plain string: conditions evaluate concretely
    run("exact_predictive_mean", "exact_predictive_mean", [mt, kts])
    run("exact_predictive_covar", "exact_predictive_covar", [ktt, kts])

    # _exact_predictive_covar_missing_obs(test_test, test_train, nan_policy) with nan_policy in {mask, fill}
    ex = Exec(cls)
    st = State()
    st.casts = casts
    st.policy = {"mask", "fill"}
    trees["exact_predictive_covar_missing_obs"] = ex.call_method(
        "_exact_predictive_covar_missing_obs", [ktt, kts, PolicySym()], st, lambda v, s2: ("leaf", list(s2.binds), v))
    run("exact_prediction", "exact_prediction", [mj, J])
    facts = call_facts(repo)
    trees = {k_: simplify(t) for k_, t in trees.items()}
    return trees, casts, facts


def emit(trees, casts, facts):
    out = [HEADER]
    for name in ("split", "mean_cache_ignore", "mean_cache_mask", "mean_cache_fill", "exact_predictive_mean",
                 "exact_predictive_covar", "exact_predictive_covar_missing_obs", "exact_prediction"):
        params, rty, pure = SIGS[name]
        out.append(f"/-- {DOC[name]} -/\ndef {name} {params} :\n    {rty} :=\n{emit_tree(trees[name], 1, name, pure)}\n\n")
    out.append("/-! ### Structural facts of `ExactGP.__call__` (posterior branch) -/\n\n")
    docs = {"catTrainFirst": "`torch.cat([train_input, input], …)`: the joint is on `[train; test]` in this order.",
            "catDimPoints": "… concatenated along the point axis `dim=-2`.",
            "evalTolInForce": "`exact_prediction` is called exactly once, inside `with settings.cg_tolerance(settings.eval_cg_tolerance.value())`.",
            "predictsFromJoint": "`exact_prediction(full_mean, full_covar)` receives the joint mean / covariance."}
    for k_, v in facts.items():
        out.append(f"/-- {docs[k_]} -/\ndef {k_} : Bool := {'true' if v else 'false'}\n\n")
    out.append("/-- Number of places where the source's shapes did not fit and a re-sizing slice was inserted (0 for a\n"
               "shape-consistent source). -/\n"
               f"def shapeMismatches : Nat := {len(casts)}\n")
    for c in casts:
        out.append(f"-- shape mismatch: {c}\n")
    out.append("\nend Gen.ExactAlgebra\n")
    return "".join(out)


def _write(path, text):
    old = open(path).read() if os.path.exists(path) else None
    if old == text:
        return False
    os.makedirs(os.path.dirname(path), exist_ok=True)
    with open(path, "w") as fh:
        fh.write(text)
    return True


def generate(repo, out_path):
    trees, casts, facts = translate(repo)
    text = emit(trees, casts, facts)
    changed = _write(out_path, text)
    summary = {name: {"leaves": tree_leaves(t), "atoms": tree_atoms(t)} for name, t in trees.items()}
    return {"changed": changed, "summary": summary, "casts": list(casts), "facts": facts,
            "canon": {name: canon(t) for name, t in trees.items()}}


if __name__ == "__main__":
    import sys
    repo = sys.argv[1] if len(sys.argv) > 1 else "/repo"
    out = sys.argv[2] if len(sys.argv) > 2 else os.path.join(os.path.dirname(__file__),
                                                            "../../lean/GPVerif/Gen/ExactAlgebra.lean")
    r = generate(repo, os.path.abspath(out))
    print("changed =", r["changed"], "| casts:", r["casts"], "| facts:", r["facts"])
    for k_, v in r["summary"].items():
        print(f"  {k_}: {v['leaves']} leaves, atoms {v['atoms']}")

#!/usr/bin/env python3
"""Round-3 prompt: property text + the mechanisms already used in rounds 1-2 (summaries of earlier seeded changes only,
nothing about the checks); worktree /tmp/mut3-<id>."""
import json, sys, glob, subprocess
TESTS = {
 "C01": "test/models test/examples/test_simple_gp_regression.py test/examples/test_batch_gp_regression.py test/likelihoods/test_gaussian_likelihood.py",
 "C02": "test/mlls test/examples/test_simple_gp_regression.py test/examples/test_batch_gp_regression.py test/distributions",
 "C03": "test/models test/examples/test_simple_gp_regression.py test/examples/test_sgpr_regression.py test/examples/test_kissgp_gp_regression.py test/examples/test_svgp_gp_regression.py test/test_module.py",
 "C04": "test/models test/examples/test_simple_gp_regression.py test/examples/test_kissgp_gp_regression.py test/likelihoods/test_gaussian_likelihood.py",
 "C05": "test/kernels test/functions --deselect test/kernels/test_spectral_mixture_kernel.py",
 "C06": "test/lazy test/kernels/test_rbf_kernel.py test/kernels/test_scale_kernel.py test/kernels/test_additive_and_product_kernels.py test/kernels/test_linear_kernel.py test/kernels/test_index_kernel.py test/examples/test_kronecker_multitask_gp_regression.py",
 "C07": "test/kernels/test_rbf_kernel.py test/kernels/test_matern_kernel.py test/distributions test/likelihoods/test_gaussian_likelihood.py test/examples/test_simple_gp_regression.py test/variational/test_variational_strategy.py",
 "C08": "test/kernels/test_rbf_kernel.py test/kernels/test_scale_kernel.py test/kernels/test_rq_kernel.py test/means test/likelihoods test/mlls test/examples/test_batch_gp_regression.py test/examples/test_batch_svgp_gp_regression.py test/examples/test_model_list_gp_regression.py",
 "C09": "test/kernels/test_grid_kernel.py test/kernels/test_grid_interpolation_kernel.py test/kernels/test_inducing_point_kernel.py test/kernels/test_index_kernel.py test/kernels/test_rff_kernel.py test/utils test/examples/test_sgpr_regression.py test/examples/test_kissgp_gp_regression.py",
 "C10": "test/distributions test/variational/test_variational_strategy.py",
 "C11": "test/distributions",
 "C12": "test/likelihoods test/examples/test_simple_gp_regression.py",
 "C13": "test/likelihoods test/utils test/functions",
 "C14": "test/variational test/examples/test_svgp_gp_regression.py",
 "C15": "test/mlls test/optim test/variational/test_natural_variational_distribution.py test/examples/test_svgp_gp_regression.py test/examples/test_svgp_gp_classification.py",
 "C16": "test/examples/test_missing_data.py test/models test/mlls test/likelihoods/test_gaussian_likelihood.py test/test_settings.py",
 "C17": "test/constraints test/priors test/test_module.py test/kernels/test_rbf_kernel.py test/likelihoods",
 "C18": "test/test_module.py test/kernels/test_rbf_kernel.py test/kernels/test_grid_kernel.py test/kernels/test_rff_kernel.py test/priors test/constraints test/variational/test_variational_strategy.py test/models test/examples/test_sgpr_regression.py test/examples/test_kissgp_gp_regression.py",
 "C19": "test/functions test/kernels/test_rbf_kernel.py test/kernels/test_matern_kernel.py test/variational/test_natural_variational_distribution.py test/variational/test_ciq_variational_strategy.py",
 "C20": "test/test_settings.py test/examples/test_simple_gp_regression.py test/likelihoods test/variational/test_variational_strategy.py",
}
pid = sys.argv[1]; rnd = sys.argv[2] if len(sys.argv) > 2 else "3"
base = subprocess.check_output(['python3', '/verif/harness/mk_mut_prompt.py', pid, TESTS[pid], __import__('os').environ.get('MUT_K', '3')], text=True)
base = base.replace(f"/tmp/mut-{pid.lower()}", f"/tmp/mut{rnd}-{pid.lower()}")
used = []
for d in sorted(glob.glob(f'/verif/seeded/{pid}-*')):
    used.append('- ' + json.load(open(d + '/meta.json')).get('summary', '')[:260])
extra = ("\n\nThe following changes were already produced in earlier rounds — do NOT reuse these mechanisms or code sites; "
         "find three NEW ones, in different functions/files where possible. This round, favour in particular: (i) a fault that only "
         "shows after a specific multi-step history on ONE object (build, use, modify/reload/copy, use again; or objects created under "
         "one global setting and used under another); (ii) two cooperating edits in different files that each look harmless alone; "
         "(iii) an exception / early-return path that leaves state behind; (iv) a rarely used but documented argument, subclass or "
         "configuration cell (e.g. a non-default constructor flag, a less common kernel / likelihood / strategy class, >= 2 batch "
         "dimensions, size-1 dimensions, sizes that coincide):\n" + "\n".join(used) +
         "\n\nSet OMP_NUM_THREADS=2 for everything you run (the machine is shared). Do not use `git stash` (it is shared between "
         "worktrees); use `git diff > file`, `git checkout -- .`, `git apply file`. Pre-existing test failures that also occur without "
         "your change (e.g. numpy.trapz in test_spectral_mixture_kernel.py) do not count; record them.")
print(base + extra)

"""C17 — constraints, parameter setters and priors: bounds, bijection, round trips.

Tie: translator G5 (`Gen/Constraints.lean`, regenerated from constraints.py / transforms.py / module.py; the
theorems of `Props/C17.lean` are about those definitions at ℝ) AND correspondence:
  (1) the generated formulas run at Lean `Float` vs the real `constraint.transform / inverse_transform` on
      the whole finite float range, scalar and tensor-valued bounds;
  (2) the property itself on the real code (spec oracle, no model involved): closed-interval membership,
      monotonicity, inverse round trip on an explicitly conditioned region;
  (3) every module of kernels/likelihoods/means exposing a constrained parameter: setter -> read back,
      out-of-bounds -> raises, random histories (initialize / optimiser steps with huge learning rates /
      raw assignments / constraint replacement) -> reads stay inside bounds; the scalar-parameter histories
      are also replayed through the Lean store model (`ParamStore`);
  (3b) op-then-use histories: bound buffers replaced after construction (load_state_dict from objects built with other
      bounds at constraint / kernel level, strict or not, into an already used module; buffer assignment; float()/double();
      deepcopy / pickle) — the constraint must equal a freshly built one with its CURRENT bounds; aliasing — initialize /
      non-enforced setters / unconstrained parameters never share storage with the caller's tensor or another module's
      parameter (source changed afterwards by in-place op, optimiser step, setter); `initial_value=` (0.0 included), 0.0 setters;
  (4b) ONE Prior instance shared by 2–3 registrations (same module, two kernels of a sum/product, kernel + likelihood of
      an ExactGP): `named_priors()` enumerates every registration with its own closure, summed log-density = sum over
      registrations = scipy, setting closures / `sample_from_prior` per registration, exact MLL adds every term;
  (4) priors: closures, `sample_from_prior`, `log_prob` vs scipy.stats, vs the Lean `Float` formulas, vs the
      density documented in the class docstring, numerical normalisation where claimed.
Wave 3:
  (3c) ONE `initialize(**kwargs)` call with several names (plain + dotted, up to four levels, `nn.ModuleList` indices, >= 2
      names below one direct child, repeated targets, an out-of-bounds value / unknown name in the middle) on 9 module
      trees; specification = the pairs applied one by one directly on the owning module; the same tree and kwargs run
      through the program REGENERATED from `Module.initialize` (translator `g5_initialize`, `Gen/InitDispatch.lean`) and
      through `initFold` in the Lean driver (theorem `gen_initialize_eq_fold`);
  (4c) prior hyper-parameters changed after construction: load through the owner / grand-parent kernel / likelihood /
      ExactGP / plain nn.Module / nn.ModuleList (strict or not, via torch.save), `Prior.load_state_dict`, attribute
      assignment, combined with dtype moves, deepcopy, pickle before / after; then state dict = public attributes =
      the hyper-parameters the density (scipy + Lean Float) and the samples use;
  (4d) MultivariateNormalPrior / LKJCholeskyFactorPrior against the exact models of `Model/MatrixPriors.lean` run in ℚ by
      `drivers/C17mat.lean` (logs by mpmath), incl. the exponent table of the implementation read off the gradient at I.
"""
import inspect
import math
import os
import re
import struct
import sys
import warnings

from lib import common as C

ID = "C17"
PROP_MODULES = ["GPVerif.Props.C17"]
BUILD_TARGETS = ["GPVerif.Props.C17", "GPVerif.Gen.Constraints", "GPVerif.Gen.Priors", "GPVerif.Gen.InitDispatch",
                 "GPVerif.Model.ParamStore", "GPVerif.Model.Priors", "GPVerif.Model.MatrixPriors"]
RULE = ("(a) transform sweeps: 4 constraint classes x scalar/tensor bounds x {special values over the whole finite float "
        "range, random}; distinct = (class, bounds, x-bucket); (b) every constructible class of kernels/likelihoods/means "
        "__all__ x every constrained parameter x {default, 4 replaced constraints}: setter/oob/history; distinct = "
        "(class, parameter, constraint kind, op); (c) every prior class of gpytorch.priors x random parameters/points; "
        "non-trivial = the case exercises a transform, a bound check or a density; "
        "(d) multi-name initialize: 9 module trees x 7 kwargs patterns x random names/values; distinct = (tree, pattern, #names, "
        "depth, names below one child); (e) prior reload: 8 scalar prior families + MVN x 7 hosts x pre/load/post operations; "
        "distinct = (prior, host, pre, load, post); (f) matrix priors: constructor form x dimension, LKJ n x eta class")
EXHAUSTIVE = False
TRUSTED = ["translator harness/translate/g5_constraints.py (Python ast -> Gen/Constraints.lean)",
           "translator harness/translate/g5_initialize.py (Module.initialize -> Gen/InitDispatch.lean; the leaf chain is one "
           "statement, prior-support validation a no-op of the store model)",
           "mpmath (40 digits) for the logarithms of the exact rational pieces of the matrix-prior densities; torch autograd "
           "to read the LKJ exponent table off log_prob at the identity",
           "modelled not verified: nn.Module.load_state_dict / _apply / deepcopy / pickle moving prior buffers",
           "modelled not verified: torch.sigmoid, torch.nn.Softplus (incl. its threshold=20 shortcut), torch.log/expm1, "
           "torch.distributions log_prob of Normal/HalfNormal/LogNormal/Uniform/HalfCauchy/Gamma/LKJCholesky",
           "scipy.stats reference densities, scipy.integrate.quad (normalisation)",
           "Lean Float = IEEE double with C libm; expm1/log1p by Kahan's formulas (ScalarFn.lean)"]
ASSUMPTIONS = ["raw parameter values are finite floats (NaN / inf raws are outside the property's quantifier)",
               "closed interval [l,u] in floats (saturation of sigmoid/softplus) vs open interval (l,u) in the theorems",
               "IEEE: log of a negative number is NaN and NaN fails every comparison (how out-of-bounds requests are rejected)",
               "inverse round trip is required only on the explicitly conditioned region (a-priori error bound <= 1e-9)"]

GEN = os.path.join(C.LEAN_DIR, "GPVerif", "Gen", "Constraints.lean")
EPS = 2.0 ** -52
_state = {}


def generate(ctx):
    sys.path.insert(0, os.path.join(C.VERIF, "harness"))
    from translate import g5_constraints
    tr, changed = g5_constraints.generate(C.REPO, GEN)
    _state["tr"] = tr
    from translate import g6_priors
    changed = g6_priors.generate(C.REPO, os.path.join(C.LEAN_DIR, "GPVerif", "Gen", "Priors.lean")) or changed
    from translate import g5_initialize
    tri, ch2 = g5_initialize.generate(C.REPO, os.path.join(C.LEAN_DIR, "GPVerif", "Gen", "InitDispatch.lean"))
    changed = ch2 or changed
    ctx.notes["initialize_dispatch"] = tri.info
    ctx.notes["gen_changed"] = changed
    ctx.notes["standard_setters"] = len(tr.std_setters)
    ctx.notes["nonstandard_setters"] = [list(x) for x in tr.nonstd_setters]
    ctx.notes["class_defaults"] = {k: {"transform": v["transform"], "inverse": v["inverse"]} for k, v in tr.table.items()}


# ------------------------------------------------------------------ helpers

def bits(x):
    return str(struct.unpack("<Q", struct.pack("<d", float(x)))[0])


def unbits(s):
    return struct.unpack("<d", struct.pack("<Q", int(s)))[0]


KIND_LETTER = {"Interval": "I", "GreaterThan": "G", "Positive": "P", "LessThan": "L"}


def kind_of(con):
    """(class name, l, u) of a constraint with default transforms, or None when transforms are not the defaults."""
    import torch
    from gpytorch.constraints import GreaterThan, Interval, LessThan, Positive
    from gpytorch.constraints.constraints import softplus
    from gpytorch.utils.transforms import inv_sigmoid, inv_softplus
    t = type(con)
    if t is Interval:
        ok = con._transform is torch.sigmoid and con._inv_transform is inv_sigmoid
    elif t in (GreaterThan, Positive, LessThan):
        ok = con._transform is softplus and con._inv_transform is inv_softplus
    else:
        return None
    return t.__name__ if ok else None


def special_values(rng):
    xs = [0.0, 5e-324, -5e-324, 1e-310, -1e-310, 1e-300, -1e-300, 1e-30, -1e-30, 1e-8, -1e-8,
          0.5, -0.5, 1.0, -1.0, 19.999, 20.0, 20.0001, -20.0, 36.7, 37.0, -37.0, 40.0, -40.0,
          700.0, -700.0, 709.7, 710.0, -710.0, 745.0, -745.2, 800.0, -800.0, 1e5, -1e5, 1e16, -1e16,
          1e308, -1e308, 1.7976931348623157e308, -1.7976931348623157e308]
    return xs


def random_values(rng, n):
    out = []
    for _ in range(n):
        r = rng.random()
        if r < 0.5:
            out.append(rng.uniform(-45, 45))
        elif r < 0.7:
            out.append(rng.gauss(0, 3))
        elif r < 0.9:
            out.append(rng.choice([-1, 1]) * 10 ** rng.uniform(-12, 3))
        else:
            out.append(rng.choice([-1, 1]) * 10 ** rng.uniform(-320, 308))
    return out


def make_constraint(name, l, u):
    from gpytorch.constraints import GreaterThan, Interval, LessThan, Positive
    if name == "Interval":
        return Interval(l, u)
    if name == "GreaterThan":
        return GreaterThan(l)
    if name == "LessThan":
        return LessThan(u)
    return Positive()


def random_bounds(rng, name):
    """Bounds with max(|l|,|u|)/(u-l) <= 100 (conditioning of the affine part is then <= 100)."""
    if name == "Interval":
        w = 10 ** rng.uniform(-3, 3)
        l = rng.choice([0.0, 1e-4, -1.0, rng.uniform(-50, 50) * w])
        if abs(l) > 100 * w:
            l = 0.0
        return l, l + w
    if name == "GreaterThan":
        return rng.choice([0.0, 1e-4, 2.0, -3.0, rng.uniform(-10, 10)]), math.inf
    if name == "LessThan":
        return -math.inf, rng.choice([0.0, 1.0, -2.5, rng.uniform(-10, 10)])
    return 0.0, math.inf


# a-priori error bounds (abs) of the round trip x -> transform -> inverse, in float64, used to *define* the
# conditioned region: the round trip is required to within 1e-9*max(1,|x|) wherever bound(x) <= that.
def roundtrip_bound(name, l, u, x):
    if name == "Interval":
        if abs(x) > 700:
            return math.inf
        s = 1.0 / (1.0 + math.exp(-x))
        sc = s * (1.0 - s)
        if sc <= 0:
            return math.inf
        k = 1.0 + max(abs(l), abs(u)) / (u - l)
        return 16 * EPS * k / sc
    # softplus family: z = softplus(±x); y = ±z + bound; inverse cancels the bound (abs error eps*max(|b|,|y|))
    b = l if name in ("GreaterThan", "Positive") else u
    xx = x if name in ("GreaterThan", "Positive") else -x
    if xx > 700:
        z = xx
    elif xx < -700:
        return math.inf      # exp(x) leaves the normal range: softplus underflows to subnormals / 0
    else:
        z = math.log1p(math.exp(xx)) if xx < 30 else xx
    if z <= 0:
        return math.inf
    y = z + abs(b)
    dinv = 1.0 / (-math.expm1(-z))     # derivative of inv_softplus at z
    thr = 2.0 * math.exp(-xx) if xx > 20 else 0.0   # torch.nn.Softplus threshold shortcut
    return 16 * EPS * (max(abs(b), y) * dinv + abs(x)) + thr


def transform_tol(name, l, u, x, y):
    """|Lean Float - torch| allowed for transform values: 1e-12 relative to the operand scale, plus the
    documented Softplus threshold shortcut (torch returns x for x > 20)."""
    if name == "Interval":
        return 1e-12 * (abs(l) + abs(u - l)) + 1e-300
    b = l if name in ("GreaterThan", "Positive") else u
    xx = x if name in ("GreaterThan", "Positive") else -x
    thr = 1.01 * math.exp(-xx) if xx > 20 else 0.0
    return 1e-12 * (abs(b) + abs(y - b)) + thr + 1e-320


def inverse_tol(name, l, u, y, r):
    if name == "Interval":
        t = (y - l) / (u - l)
        if not (0 < t < 1):
            return math.inf
        return 1e-12 * (abs(math.log(t)) + abs(math.log1p(-t)) + 1.0)
    b = l if name in ("GreaterThan", "Positive") else u
    z = abs(y - b)
    return 1e-12 * (z + abs(r) + 1.0)


# ------------------------------------------------------------------ (1)+(2) transform sweeps

def check_transform_case(ctx, name, l, u, xs, tag, lean_lines, lean_recs):
    """l, u: python floats or 1-D lists (tensor-valued bounds, same length as xs)."""
    import torch
    tens = isinstance(l, list) or isinstance(u, list)
    n = len(xs)
    lt = torch.tensor(l if isinstance(l, list) else [l] * n, dtype=torch.float64)
    ut = torch.tensor(u if isinstance(u, list) else [u] * n, dtype=torch.float64)
    con = make_constraint(name, lt if tens and name in ("Interval", "GreaterThan") else (l if not isinstance(l, list) else lt),
                          ut if tens and name in ("Interval", "LessThan") else (u if not isinstance(u, list) else ut))
    x = torch.tensor(xs, dtype=torch.float64)
    y = con.transform(x)
    yl = y.tolist()
    ll, ul = lt.tolist(), ut.tolist()
    replay = lambda i: {"kind": "transform", "class": name, "l": ll[i], "u": ul[i], "x": xs[i], "tensor_bounds": tens}
    for i in range(n):
        ctx.case(f"T:{name}:{tag}:{_bucket(xs[i])}", sample={"class": name, "l": ll[i], "u": ul[i], "x": xs[i], "y": yl[i]})
        if not (yl[i] == yl[i]) or yl[i] < ll[i] or yl[i] > ul[i]:
            ctx.fail(f"bounds:{name}.transform", f"{name}({ll[i]}, {ul[i]}).transform({xs[i]!r}) = {yl[i]!r} is outside "
                     f"[{ll[i]}, {ul[i]}]", replay(i))
    # the public bound checks: check(v) on constrained values, check_raw(x) on raw values
    if not tens:
        ctx.case(f"T:{name}:{tag}:check")
        inside = [v for v in yl if v == v]
        probes = []
        if math.isfinite(ll[0]):
            probes.append(ll[0] - max(1e-9, 1e-9 * abs(ll[0])))
        if math.isfinite(ul[0]):
            probes.append(ul[0] + max(1e-9, 1e-9 * abs(ul[0])))
        if inside and not con.check(torch.tensor(inside, dtype=torch.float64)):
            ctx.fail(f"check:{name}", f"{name}({ll[0]}, {ul[0]}).check(v) is False for values produced by its own transform "
                     f"(e.g. {inside[len(inside) // 2]!r})", {"kind": "check", "class": name, "l": ll[0], "u": ul[0], "v": inside[len(inside) // 2]})
        for pv in probes:
            if con.check(torch.tensor([pv], dtype=torch.float64)):
                ctx.fail(f"check:{name}", f"{name}({ll[0]}, {ul[0]}).check({pv!r}) is True for an out-of-bounds value",
                         {"kind": "check", "class": name, "l": ll[0], "u": ul[0], "v": pv})
        if not con.check_raw(x):
            ctx.fail(f"check:{name}", f"{name}({ll[0]}, {ul[0]}).check_raw(x) is False for finite raw values",
                     {"kind": "check", "class": name, "l": ll[0], "u": ul[0]})
    # monotone on sorted inputs (only meaningful for shared bounds)
    if not tens:
        order = sorted(range(n), key=lambda i: xs[i])
        for a, b in zip(order, order[1:]):
            if yl[a] > yl[b]:
                ctx.fail(f"monotone:{name}.transform", f"{name}({ll[a]}, {ul[a]}): x={xs[a]!r} < x'={xs[b]!r} but "
                         f"transform gives {yl[a]!r} > {yl[b]!r}", {"kind": "monotone", "class": name, "l": ll[a], "u": ul[a],
                                                                   "x": xs[a], "x2": xs[b]})
    # inverse round trip on the conditioned region
    back = con.inverse_transform(y).tolist()
    for i in range(n):
        bnd = roundtrip_bound(name, ll[i], ul[i], xs[i])
        tol = 1e-9 * max(1.0, abs(xs[i]))
        if bnd <= tol:
            ctx.count("roundtrip_checked")
            if not abs(back[i] - xs[i]) <= tol:
                ctx.fail(f"roundtrip:{name}", f"{name}({ll[i]}, {ul[i]}): inverse_transform(transform({xs[i]!r})) = "
                         f"{back[i]!r} (error {abs(back[i] - xs[i]):.3e} > {tol:.1e}; a-priori bound {bnd:.1e})", replay(i))
        else:
            ctx.count("roundtrip_outside_conditioned_region")
    # Lean Float correspondence (elementwise, per distinct bounds)
    for i in range(n):
        if abs(xs[i]) <= 700:
            lean_lines.append(f"T {KIND_LETTER[name]} {bits(ll[i] if math.isfinite(ll[i]) else 0.0)} "
                              f"{bits(ul[i] if math.isfinite(ul[i]) else 0.0)} {bits(xs[i])}")
            lean_recs.append(("T", name, ll[i], ul[i], xs[i], yl[i]))
            if math.isfinite(back[i]) and ll[i] < yl[i] < ul[i]:
                lean_lines.append(f"V {KIND_LETTER[name]} {bits(ll[i] if math.isfinite(ll[i]) else 0.0)} "
                                  f"{bits(ul[i] if math.isfinite(ul[i]) else 0.0)} {bits(yl[i])}")
                lean_recs.append(("V", name, ll[i], ul[i], yl[i], back[i]))


def _bucket(x):
    if x == 0:
        return "0"
    a = abs(x)
    s = "+" if x > 0 else "-"
    for b in (1e-300, 1e-30, 1e-3, 1, 20, 40, 700, 1e4, 1e300):
        if a < b:
            return f"{s}<{b:g}"
    return f"{s}>=1e300"


def sweep_transforms(ctx):
    rng = ctx.rng("transforms")
    lean_lines, lean_recs = [], []
    reps = 3 if ctx.quick else 20
    nrand = 60 if ctx.quick else 400
    for name in ("Interval", "GreaterThan", "Positive", "LessThan"):
        fixed = {"Interval": [(0.0, 1.0), (1e-4, 2.0), (-1.0, 1.0), (5.0, 5.5), (-1e3, 1e3), (0.0, 1e-6)],
                 "GreaterThan": [(1e-4, math.inf), (0.0, math.inf), (2.0, math.inf), (-3.0, math.inf), (1e6, math.inf)],
                 "Positive": [(0.0, math.inf)],
                 "LessThan": [(-math.inf, 0.0), (-math.inf, 1.0), (-math.inf, -2.5), (-math.inf, 1e6)]}[name]
        blist = fixed + [random_bounds(rng, name) for _ in range(reps)]
        for (l, u) in blist:
            xs = special_values(rng) + random_values(rng, nrand)
            check_transform_case(ctx, name, l, u, xs, f"{l}:{u}", lean_lines, lean_recs)
        # tensor-valued bounds: one bound per element
        if name != "Positive":
            for _ in range(reps):
                xs = special_values(rng) + random_values(rng, nrand // 2)
                bl = [random_bounds(rng, name) for _ in xs]
                check_transform_case(ctx, name, [b[0] for b in bl], [b[1] for b in bl], xs, "tensor", lean_lines, lean_recs)
    return lean_lines, lean_recs


def compare_lean_transforms(ctx, recs, replies):
    bad = 0
    for (op, name, l, u, a, want), rep in zip(recs, replies):
        try:
            got = unbits(rep)
        except Exception:
            ctx.broke("correspondence", f"driver:{op}:{name}", f"reply {rep!r}")
            return
        tol = transform_tol(name, l, u, a, want) if op == "T" else inverse_tol(name, l, u, a, want)
        ctx.count("lean_float_comparisons")
        if not (abs(got - want) <= tol or (got == want)):
            bad += 1
            if bad <= 5:
                fn = "transform" if op == "T" else "inverse_transform"
                ctx.fail(f"model:{name}.{fn}", f"{name}({l}, {u}).{fn}({a!r}) = {want!r} but the generated formula "
                         f"evaluates to {got!r} (|diff| {abs(got - want):.3e} > {tol:.1e})",
                         {"kind": "lean-" + fn, "class": name, "l": l, "u": u, "arg": a})
    ctx.count("lean_float_mismatches", bad)


# ------------------------------------------------------------------ (3) modules

def _simple_objects():
    import torch
    import gpytorch
    K = gpytorch.kernels
    return {
        "base_kernel": lambda: K.RBFKernel(), "radial_base_kernel": lambda: K.RBFKernel(),
        "data_covar_module": lambda: K.RBFKernel(), "base_kernels": lambda: [K.RBFKernel(), K.MaternKernel()],
        "num_dims": lambda: 2, "num_tasks": lambda: 2, "num_angular_weights": lambda: 3, "vocab_size": lambda: 4,
        "power": lambda: 2, "num_samples": lambda: 5, "input_size": lambda: 2, "grid_size": lambda: 8,
        "grid": lambda: [torch.linspace(0, 1, 5)], "noise": lambda: torch.tensor([0.1, 0.2, 0.3]),
        "targets": lambda: torch.tensor([0, 1, 1, 0]), "distance_function": lambda: (lambda a, b: (a - b).pow(2).sum(-1)),
        "inducing_points": lambda: torch.randn(4, 2), "likelihood": lambda: gpytorch.likelihoods.GaussianLikelihood(),
        "base_means": lambda: [gpytorch.means.ConstantMean(), gpytorch.means.ZeroMean()],
        "noise_model": lambda: None, "noise_covar": lambda: None, "device_ids": lambda: None,
    }


EXTRA_KW = {  # optional arguments that switch constrained parameters on
    "GridInterpolationKernel": {"num_dims": 1}, "SpectralMixtureKernel": {"num_mixtures": 2, "ard_num_dims": 1},
    "SoftmaxLikelihood": {"num_features": 3, "num_classes": 2}, "RFFKernel": {"num_dims": 2},
    "SpectralDeltaKernel": {"num_deltas": 4}, "MultitaskGaussianLikelihood": {"rank": 1},
    "IndexKernel": {"rank": 1}, "LikelihoodList": {}, "AdditiveKernel": {}, "ProductKernel": {},
    "ArcKernel": {"ard_num_dims": 2}, "CylindricalKernel": {},
    "FixedNoiseGaussianLikelihood": {"learn_additional_noise": True},
    "DirichletClassificationLikelihood": {"learn_additional_noise": True},
    "ConstantMean": {"constant_constraint": "Interval(-5,5)"}, "ConstantMeanGrad": {"constant_constraint": "Interval(-5,5)"},
    "ConstantMeanGradGrad": {"constant_constraint": "Interval(-5,5)"},
}


def construct(cls, extra=None):
    """Instance of `cls` built from simple arguments, or (None, reason)."""
    import torch
    objs = _simple_objects()
    name = cls.__name__
    if inspect.isabstract(cls):
        return None, "abstract class"
    try:
        sig = inspect.signature(cls.__init__)
    except (TypeError, ValueError) as e:
        return None, f"no signature: {e}"
    kw = {}
    for p in sig.parameters.values():
        if p.name == "self" or p.kind in (p.VAR_POSITIONAL, p.VAR_KEYWORD):
            continue
        if p.default is inspect._empty:
            if p.name not in objs:
                return None, f"required argument `{p.name}` has no simple value"
            v = objs[p.name]()
            if v is None:
                return None, f"required argument `{p.name}` needs another model object"
            kw[p.name] = v
    kw.update(EXTRA_KW.get(name, {}))
    if kw.get("constant_constraint") == "Interval(-5,5)":
        from gpytorch.constraints import Interval
        kw["constant_constraint"] = Interval(-5.0, 5.0)
    if extra:
        kw.update(extra)
    try:
        with warnings.catch_warnings():
            warnings.simplefilter("ignore")
            if name in ("AdditiveKernel", "ProductKernel"):
                import gpytorch
                return cls(gpytorch.kernels.RBFKernel(), gpytorch.kernels.MaternKernel()), None
            if name == "LikelihoodList":
                import gpytorch
                return cls(gpytorch.likelihoods.GaussianLikelihood(), gpytorch.likelihoods.GaussianLikelihood()), None
            return cls(**kw), None
    except Exception as e:
        return None, f"constructor raised {type(e).__name__}: {str(e)[:100]}"


def module_classes():
    import gpytorch
    out = []
    for modname in ("kernels", "likelihoods", "means"):
        mod = getattr(gpytorch, modname)
        for n in mod.__all__:
            obj = getattr(mod, n)
            if inspect.isclass(obj):
                out.append((modname, n, obj))
            else:
                out.append((modname, n, None))
    return out


def owner_and_public(module, pname):
    """('a.b.raw_x') -> (owner module, 'raw_x', 'x' or None)."""
    parts = pname.split(".")
    owner = module
    for p in parts[:-1]:
        owner = getattr(owner, p)
    raw = parts[-1]
    pub = raw[4:] if raw.startswith("raw_") else None
    if pub is not None:
        prop = getattr(type(owner), pub, None)
        if not (isinstance(prop, property) and prop.fset is not None):
            pub = None
    return owner, raw, pub


def interior_values(rng, kind, l, u, shape):
    """Tensor of well-conditioned interior values (python floats l,u possibly inf)."""
    import torch
    n = 1
    for s in shape:
        n *= s
    vals = []
    for _ in range(max(n, 1)):
        if kind == "Interval":
            vals.append(l + (u - l) * rng.uniform(0.05, 0.95))
        elif kind in ("GreaterThan", "Positive"):
            vals.append(l + math.exp(rng.gauss(0, 1.5)) * max(1.0, abs(l)) * 0.5)
        else:
            vals.append(u - math.exp(rng.gauss(0, 1.5)) * max(1.0, abs(u)) * 0.5)
    return torch.tensor(vals, dtype=torch.float64).reshape(shape)


def bounds_of(con):
    return con.lower_bound.min().item(), con.upper_bound.max().item()


def in_bounds(val, con):
    import torch
    return bool(torch.all(val >= con.lower_bound) and torch.all(val <= con.upper_bound))


def test_parameter(ctx, rng, cname, module, pname, lean_lines, lean_recs):
    """All C17 obligations for one constrained parameter of one module instance."""
    import torch
    owner, raw, pub = owner_and_public(module, pname)
    con0 = owner.constraint_for_parameter_name(raw)
    param = getattr(owner, raw)
    shape = tuple(param.shape)
    base = {"module": cname, "param": pname}
    variants = [("default", None)]
    for k in ("Interval", "GreaterThan", "LessThan", "Positive"):
        l, u = random_bounds(rng, k)
        variants.append((k, (l, u)))
    if not ctx.quick:
        variants.append(("Interval-tensor", None))
    for vname, b in variants:
        if vname == "default":
            con = con0
        elif vname == "Interval-tensor":
            if len(shape) == 0 or shape[-1] < 1:
                continue
            lo = torch.tensor([rng.uniform(-2, 2) for _ in range(shape[-1])], dtype=torch.float64)
            con = make_constraint("Interval", lo, lo + torch.tensor([10 ** rng.uniform(-1, 1) for _ in range(shape[-1])]))
        else:
            con = make_constraint(vname, *b)
        if vname != "default":
            try:
                owner.register_constraint(raw, con)
            except Exception as e:
                ctx.count("register_constraint_raised")
                ctx.notes.setdefault("register_raised", []).append(f"{cname}.{pname} <- {vname}: {type(e).__name__}")
                continue
            con = owner.constraint_for_parameter_name(raw)
        kind = kind_of(con)
        if kind is None:
            ctx.count("non_default_transform_constraints")
            continue
        l, u = bounds_of(con)
        tensor_bounds = con.lower_bound.numel() > 1 or con.upper_bound.numel() > 1
        read = (lambda: getattr(owner, pub)) if pub else (lambda: con.transform(getattr(owner, raw)))
        rp = dict(base, constraint=vname, bounds=[l, u], kind=kind)
        # --- read is inside bounds right after construction / registration
        ctx.case(f"M:{cname}.{pname}:{vname}:initial")
        v0 = read().detach()
        if not in_bounds(v0, con):
            ctx.fail(f"bounds:{cname}.{pname}", f"{cname}.{pname} with {con} reads {v0.flatten()[:3].tolist()} outside its bounds "
                     "right after registration", dict(rp, op="initial"))
        # --- setter -> read back
        if pub:
            if tensor_bounds:
                lo_t, hi_t = con.lower_bound, con.upper_bound
                val = (lo_t + (hi_t - lo_t) * torch.tensor([rng.uniform(0.1, 0.9) for _ in range(lo_t.numel())],
                                                           dtype=torch.float64).reshape(lo_t.shape)).expand(shape).clone()
            else:
                val = interior_values(rng, kind, l, u, shape)
            for form in (("tensor",) if tensor_bounds else ("tensor", "float")):
                if form == "float":
                    v_in = float(val.flatten()[0]) if val.numel() else None
                    if v_in is None:
                        continue
                    want = torch.full(shape, v_in, dtype=torch.float64)
                else:
                    v_in, want = val, val
                ctx.case(f"M:{cname}.{pname}:{vname}:set-{form}", sample=dict(rp, op="set", value=v_in))
                try:
                    with warnings.catch_warnings():
                        warnings.simplefilter("ignore")
                        setattr(owner, pub, v_in)
                except (TypeError, AttributeError) as e:
                    if form == "float":
                        # the setter does not convert python floats (type rejection, nothing stored): observation only
                        ctx.count("float_assignment_rejected_by_type")
                        ctx.notes.setdefault("float_assignment_type_errors", {})[f"{cname}.{pub}"] = type(e).__name__
                        continue
                    ctx.fail(f"setter:{cname}.{pname}", f"{cname}.{pub} = <tensor> (interior of {con}) raised "
                             f"{type(e).__name__}: {str(e)[:120]}", dict(rp, op="set", value=v_in, form=form))
                    continue
                except Exception as e:
                    ctx.fail(f"setter:{cname}.{pname}", f"{cname}.{pub} = {C.jsonable(v_in)} (interior of {con}) raised "
                             f"{type(e).__name__}: {str(e)[:120]}", dict(rp, op="set", value=v_in, form=form))
                    continue
                got = read().detach()
                tol = 1e-9 * torch.clamp(want.abs(), min=1.0)
                if got.shape != want.shape or not bool(torch.all((got - want).abs() <= tol)):
                    ctx.fail(f"setter:{cname}.{pname}", f"{cname}.{pub} = v then reading gives {got.flatten()[:3].tolist()} "
                             f"for v = {want.flatten()[:3].tolist()} ({con})", dict(rp, op="set", value=v_in, form=form))
            # --- out of bounds -> rejected, value unchanged
            before = read().detach().clone()
            for side in ("below", "above"):
                if (side == "below" and not math.isfinite(l)) or (side == "above" and not math.isfinite(u)):
                    continue
                delta = 10 ** rng.uniform(-6, 2) * max(1.0, abs(l if side == "below" else u))
                bad = (l - delta) if side == "below" else (u + delta)
                if tensor_bounds:
                    bad = (con.lower_bound.min().item() - delta) if side == "below" else (con.upper_bound.max().item() + delta)
                ctx.case(f"M:{cname}.{pname}:{vname}:oob-{side}", sample=dict(rp, op="oob", value=bad))
                raised = False
                try:
                    with warnings.catch_warnings():
                        warnings.simplefilter("ignore")
                        setattr(owner, pub, torch.full(shape, bad, dtype=torch.float64) if rng.random() < 0.5 else bad)
                except Exception:
                    raised = True
                after = read().detach()
                if not raised:
                    ctx.fail(f"oob:{cname}.{pname}", f"{cname}.{pub} = {bad!r} (outside {con}) was accepted; reads "
                             f"{after.flatten()[:3].tolist()}", dict(rp, op="oob", value=bad))
                elif not torch.equal(after, before):
                    ctx.fail(f"oob:{cname}.{pname}", f"rejected assignment {cname}.{pub} = {bad!r} still changed the value",
                             dict(rp, op="oob-changed", value=bad))
        else:
            ctx.count("no_public_setter")
        # --- histories: initialize / optimiser steps with huge learning rates / raw assignments
        steps = 6 if ctx.quick else 25
        hist = []
        lean_ok = (param.numel() == 1 and not tensor_bounds)
        raw0 = getattr(owner, raw).detach().flatten()[0].item() if lean_ok else None
        for it in range(steps):
            op = rng.choice(["init", "sgd", "adam", "assign", "set"])
            p = getattr(owner, raw)
            raised = False
            arg = None
            try:
                with warnings.catch_warnings():
                    warnings.simplefilter("ignore")
                    if op == "init":
                        r = torch.tensor([rng.choice(random_values(rng, 1) + special_values(rng)) for _ in range(max(p.numel(), 1))],
                                         dtype=torch.float64).reshape(p.shape)
                        arg = r.flatten()[0].item() if p.numel() else None
                        owner.initialize(**{raw: r})
                    elif op in ("sgd", "adam"):
                        lr = 10 ** rng.uniform(0, 12)
                        opt = (torch.optim.SGD if op == "sgd" else torch.optim.Adam)([p], lr=lr)
                        opt.zero_grad()
                        val = con.transform(p)
                        loss = rng.choice([lambda t: t.pow(2).sum(), lambda t: -t.sum(), lambda t: (t - 0.3).abs().sum()])(val)
                        loss.backward()
                        opt.step()
                        p.grad = None
                    elif op == "assign":
                        r = torch.tensor([rng.choice(random_values(rng, 1) + special_values(rng)) for _ in range(max(p.numel(), 1))],
                                         dtype=torch.float64).reshape(p.shape)
                        p.data = r
                        arg = r.flatten()[0].item() if p.numel() else None
                    elif op == "set":
                        if not pub:
                            continue
                        v = interior_values(rng, kind, l, u, shape) if not tensor_bounds else None
                        if v is None:
                            continue
                        if rng.random() < 0.25:   # sometimes out of bounds
                            v = torch.full(shape, (l - 1.0) if math.isfinite(l) else (u + 1.0), dtype=torch.float64)
                        arg = v.flatten()[0].item() if v.numel() else None
                        if v.numel() > 1:
                            v = torch.full(shape, arg, dtype=torch.float64)
                        setattr(owner, pub, v)
            except Exception as e:
                raised = True
                if op in ("sgd", "adam", "assign"):
                    ctx.notes.setdefault("history_op_errors", []).append(f"{cname}.{pname} {op}: {type(e).__name__}")
            p = getattr(owner, raw)
            if not bool(torch.all(torch.isfinite(p))):
                # outside the quantifier (finite raws): reset and go on
                ctx.count("nonfinite_raw_after_" + op)
                with torch.no_grad():
                    p.data = torch.zeros_like(p)
                lean_ok = False
                continue
            got = read().detach()
            ctx.case(f"M:{cname}.{pname}:{vname}:hist-{op}")
            if not in_bounds(got, con):
                ctx.fail(f"bounds:{cname}.{pname}", f"after {op} (history step {it}) {cname}.{pname} with {con} reads "
                         f"{got.flatten()[:3].tolist()} (raw {p.detach().flatten()[:3].tolist()}) outside its bounds",
                         dict(rp, op="history", step=op, raw=p.detach().flatten()[:4].tolist()))
            if lean_ok:
                rawv = p.detach().flatten()[0].item()
                if op == "set" and arg is not None:
                    hist.append(("S", arg, raised, got.flatten()[0].item(), rawv))
                elif op == "init" and arg is not None:
                    hist.append(("R", arg, raised, got.flatten()[0].item(), rawv))
                else:
                    hist.append(("A", rawv, False, got.flatten()[0].item(), rawv))
        if lean_ok and hist and len(lean_lines) < (400 if ctx.quick else 4000):
            fl = lambda z: bits(z if math.isfinite(z) else 0.0)
            lean_lines.append(f"H {KIND_LETTER[kind]} {fl(l)} {fl(u)} {bits(raw0)} " +
                              " ".join(f"{o} {bits(a)}" for o, a, _, _, _ in hist))
            lean_recs.append((cname, pname, kind, l, u, hist))


def sweep_modules(ctx):
    import torch
    rng = ctx.rng("modules")
    torch.manual_seed(rng.torch_seed())
    lean_lines, lean_recs = [], []
    skipped, tested, no_params = {}, [], []
    for modname, n, cls in module_classes():
        if cls is None:
            skipped[f"{modname}.{n}"] = "not a class"
            continue
        m, why = construct(cls)
        if m is None:
            skipped[f"{modname}.{n}"] = why
            continue
        try:
            triples = [(pn, p, c) for pn, p, c in m.named_parameters_and_constraints() if c is not None]
        except Exception as e:
            skipped[f"{modname}.{n}"] = f"named_parameters_and_constraints raised {type(e).__name__}"
            continue
        if not triples:
            no_params.append(f"{modname}.{n}")
            continue
        tested.append(f"{modname}.{n}")
        for rnd in range(1 if ctx.quick else 4):
            for pn, _, _ in triples:
                # a fresh instance per parameter so that histories do not interact
                mm, _ = construct(cls)
                try:
                    test_parameter(ctx, rng, n, mm, pn, lean_lines, lean_recs)
                except Exception as e:
                    import traceback
                    ctx.broke("correspondence", f"module:{n}.{pn}", traceback.format_exc())
    ctx.notes["modules_tested"] = tested
    ctx.notes["modules_skipped"] = skipped
    ctx.notes["modules_without_constrained_parameters"] = no_params
    return lean_lines, lean_recs


def compare_lean_histories(ctx, recs, replies):
    bad = 0
    for (cname, pname, kind, l, u, hist), rep in zip(recs, replies):
        toks = rep.split()
        if len(toks) != len(hist):
            ctx.broke("correspondence", f"driver:H:{cname}.{pname}", f"reply {rep[:200]!r}")
            continue
        for (op, arg, raised, read, raw), t in zip(hist, toks):
            r_, rd_, rw_ = t.split(":")
            m_raised, m_read, m_raw = r_ == "1", unbits(rd_), unbits(rw_)
            ctx.count("lean_history_steps")
            ok = (m_raised == raised)
            if ok and not raised:
                if abs(raw) <= 700:
                    ok = abs(m_read - read) <= transform_tol(kind, l, u, raw, read) + 1e-9 * abs(read)
                if op == "S":
                    ok = ok and abs(m_raw - raw) <= inverse_tol(kind, l, u, arg, raw) + 1e-9 * abs(raw)
            if not ok:
                bad += 1
                if bad <= 5:
                    ctx.broke("correspondence", f"store-model:{cname}.{pname}:{op}",
                              f"{kind}({l},{u}) op {op} {arg!r}: real raised={raised} read={read!r} raw={raw!r}; "
                              f"model raised={m_raised} read={m_read!r} raw={m_raw!r}")
                break
    ctx.count("lean_history_mismatches", bad)



# ------------------------------------------------------------------ (3b) bounds replaced after construction; aliasing

def _oracle_current_bounds(ctx, con, name, how, rng, rp):
    """The constraint must behave as a freshly built constraint with its CURRENT bound buffers."""
    import torch
    lt, ut = con.lower_bound.detach().double(), con.upper_bound.detach().double()
    xs = special_values(rng) + random_values(rng, 40)
    n = lt.numel() if lt.numel() > 1 else (ut.numel() if ut.numel() > 1 else 1)
    if n > 1:
        xs = xs[: (len(xs) // n) * n]
        x = torch.tensor(xs, dtype=con.lower_bound.dtype).reshape(-1, n)
    else:
        x = torch.tensor(xs, dtype=con.lower_bound.dtype)
    ctx.case(f"R:{name}:{how}", sample=dict(rp, lower=lt.flatten()[:3].tolist(), upper=ut.flatten()[:3].tolist()))
    y = con.transform(x)
    key = f"rebound:{name}:{how}"
    if not bool(torch.all(y >= con.lower_bound) and torch.all(y <= con.upper_bound) and not torch.isnan(y).any()):
        bad = ((y < con.lower_bound) | (y > con.upper_bound) | torch.isnan(y)).nonzero()[0].tolist()
        ctx.fail(key, f"after {how}: {name} with bounds [{lt.flatten()[:3].tolist()}, {ut.flatten()[:3].tolist()}] transforms "
                 f"{x[tuple(bad)].item()!r} to {y[tuple(bad)].item()!r}, outside its current bounds", rp)
        return
    fresh = make_constraint(name, con.lower_bound.detach().clone().double(), con.upper_bound.detach().clone().double())
    fresh = fresh.to(con.lower_bound.dtype)
    yf = fresh.transform(x)
    if not torch.equal(y, yf):
        i = (y != yf).nonzero()[0].tolist()
        ctx.fail(key, f"after {how}: {name}.transform({x[tuple(i)].item()!r}) = {y[tuple(i)].item()!r} but a constraint built with the "
                 f"same (current) bounds gives {yf[tuple(i)].item()!r}", rp)
        return
    interior = (y > con.lower_bound) & (y < con.upper_bound) & (x.abs() <= 10)
    back, backf = con.inverse_transform(y), fresh.inverse_transform(y)
    if not torch.equal(back[interior], backf[interior]):
        ctx.fail(key, f"after {how}: {name}.inverse_transform differs from a constraint built with the same (current) bounds", rp)
        return
    if con.lower_bound.dtype == torch.float64 and n == 1:
        l, u = lt.item(), ut.item()
        for xi, bi in zip(x.flatten().tolist(), back.flatten().tolist()):
            tol = 1e-9 * max(1.0, abs(xi))
            if roundtrip_bound(name, l, u, xi) <= tol and not abs(bi - xi) <= tol:
                ctx.fail(key, f"after {how}: {name}({l}, {u}): inverse_transform(transform({xi!r})) = {bi!r}", rp)
                return


def sweep_bound_changes(ctx, rng):
    """Constraints whose bound buffers change AFTER construction (load_state_dict from an object built with other bounds,
    at constraint / kernel / model level, strict and not; assigning new buffers; dtype moves; deepcopy / pickle), then used."""
    import copy
    import io
    import pickle
    import torch
    import gpytorch
    K = gpytorch.kernels
    reps = 2 if ctx.quick else 10
    for name in ("Interval", "GreaterThan", "LessThan"):
        for rep in range(reps):
            tensor_b = rep % 2 == 1
            def bounds():
                if not tensor_b:
                    return random_bounds(rng, name)
                bl = [random_bounds(rng, name) for _ in range(3)]
                return (torch.tensor([b[0] for b in bl], dtype=torch.float64), torch.tensor([b[1] for b in bl], dtype=torch.float64))
            l1, u1 = bounds()
            l2, u2 = bounds()
            rp = {"kind": "rebound", "class": name, "tensor_bounds": tensor_b}
            # 1. constraint-level load_state_dict
            a, b = make_constraint(name, l1, u1), make_constraint(name, l2, u2)
            b.load_state_dict(a.state_dict())
            _oracle_current_bounds(ctx, b, name, "load_state_dict", rng, rp)
            # 2. assigning new bound buffers
            c = make_constraint(name, l1, u1)
            if name != "LessThan":
                c.lower_bound = torch.as_tensor(l2, dtype=torch.float64)
            if name != "GreaterThan":
                c.upper_bound = torch.as_tensor(u2, dtype=torch.float64)
            if bool(torch.all(c.lower_bound < c.upper_bound)):
                _oracle_current_bounds(ctx, c, name, "buffer-assignment", rng, rp)
            # 3. dtype moves and copies
            d = make_constraint(name, l1, u1)
            _oracle_current_bounds(ctx, d.float(), name, "float()", rng, rp)
            _oracle_current_bounds(ctx, d.double(), name, "float().double()", rng, rp)
            _oracle_current_bounds(ctx, copy.deepcopy(b), name, "load_state_dict+deepcopy", rng, rp)
            _oracle_current_bounds(ctx, pickle.loads(pickle.dumps(b)), name, "load_state_dict+pickle", rng, rp)
            # 4. kernel / model level: state dict saved from a model built with other bounds
            if not tensor_b:
                k1 = K.ScaleKernel(K.RBFKernel(lengthscale_constraint=make_constraint(name, l1, u1)),
                                   outputscale_constraint=make_constraint(name, l2, u2)).double()
                k2 = K.ScaleKernel(K.RBFKernel(lengthscale_constraint=make_constraint(name, l2, u2)),
                                   outputscale_constraint=make_constraint(name, l1, u1)).double()
                v1 = interior_values(rng, name, float(l1), float(u1), (1, 1))
                k1.base_kernel.lengthscale = v1
                k1.outputscale = interior_values(rng, name, float(l2), float(u2), ())
                buf = io.BytesIO()
                torch.save(k1.state_dict(), buf)
                buf.seek(0)
                strict = rng.random() < 0.5
                k2.base_kernel.lengthscale = interior_values(rng, name, float(l2), float(u2), (1, 1))     # k2 has been used before
                k2.load_state_dict(torch.load(buf), strict=strict)
                how = f"kernel.load_state_dict(strict={strict})"
                ctx.case(f"R:{name}:{how}:read")
                for nm, ka, kb in (("lengthscale", k1.base_kernel, k2.base_kernel), ("outputscale", k1, k2)):
                    ra, rb = getattr(ka, nm).detach(), getattr(kb, nm).detach()
                    cb = kb.constraint_for_parameter_name("raw_" + nm)
                    if not (torch.equal(ra, rb) and in_bounds(rb, cb)):
                        ctx.fail(f"rebound:{name}:{how}", f"after loading the state dict of a kernel built with {name} bounds "
                                 f"({l1}, {u1}) / ({l2}, {u2}) into one built with the bounds swapped, {nm} reads {rb.flatten().tolist()} "
                                 f"(source {ra.flatten().tolist()}, constraint now {cb})", dict(rp, param=nm))
                _oracle_current_bounds(ctx, k2.base_kernel.raw_lengthscale_constraint, name, how, rng, rp)
                # and the loaded module still sets / reads / rejects correctly
                cb = k2.base_kernel.raw_lengthscale_constraint
                lo, hi = bounds_of(cb)
                v = interior_values(rng, name, lo, hi, (1, 1))
                try:
                    k2.base_kernel.lengthscale = v
                    got = k2.base_kernel.lengthscale.detach()
                    if not torch.allclose(got, v, rtol=1e-9):
                        ctx.fail(f"rebound:{name}:{how}", f"after {how}: lengthscale = {v.item()!r} reads back {got.item()!r} ({cb})", rp)
                except Exception as e:
                    ctx.fail(f"rebound:{name}:{how}", f"after {how}: lengthscale = {v.item()!r} (interior of {cb}) raised "
                             f"{type(e).__name__}", rp)
    ctx.count("bound_change_rounds", 3 * reps)


def sweep_aliasing(ctx, rng):
    """A module's parameter must never share storage with a tensor the caller handed in (initialize, setters whose
    constraint is not enforced, unconstrained parameters) nor with another module's parameter: later in-place changes of
    the source (setter / optimiser step on the other module, the caller recycling its buffer) leave the value alone."""
    import torch
    import gpytorch
    from gpytorch.constraints import Interval, Positive
    K, L, M = gpytorch.kernels, gpytorch.likelihoods, gpytorch.means

    def cases():
        yield "RBFKernel.raw_lengthscale", lambda: K.RBFKernel(ard_num_dims=2).double(), "raw_lengthscale", "lengthscale"
        yield "ScaleKernel.raw_outputscale", lambda: K.ScaleKernel(K.RBFKernel()).double(), "raw_outputscale", "outputscale"
        yield "GaussianLikelihood.noise_covar.raw_noise", lambda: L.GaussianLikelihood().double(), "noise_covar.raw_noise", "noise"
        yield "PeriodicKernel.raw_period_length", lambda: K.PeriodicKernel().double(), "raw_period_length", "period_length"
        yield "ConstantMean.raw_constant(unconstrained)", lambda: M.ConstantMean().double(), "raw_constant", "constant"
        yield ("RBFKernel.raw_lengthscale(transform=None)",
               lambda: K.RBFKernel(lengthscale_constraint=Interval(0.01, 100.0, transform=None, inv_transform=None)).double(),
               "raw_lengthscale", "lengthscale")
        yield ("LinearMean.weights(unconstrained)", lambda: M.LinearMean(2).double(), "weights", None)

    def get(mod, dotted):
        for part in dotted.split("."):
            mod = getattr(mod, part)
        return mod

    for rep in range(1 if ctx.quick else 4):
        for cname, mk, raw, pub in cases():
            rp = {"kind": "alias", "case": cname}
            # A. copy hyper-parameters between two modules, then change the source
            for how in ("parameter", "detach", "data"):
                with warnings.catch_warnings():
                    warnings.simplefilter("ignore")
                    m1, m2 = mk(), mk()
                p1 = get(m1, raw)
                with torch.no_grad():
                    p1.copy_(torch.tensor([rng.uniform(0.2, 1.5) for _ in range(p1.numel())]).reshape(p1.shape))
                src = {"parameter": p1, "detach": p1.detach(), "data": p1.data}[how]
                ctx.case(f"A:{cname}:between-modules:{how}")
                m2.initialize(**{raw: src})
                p2 = get(m2, raw)
                before = p2.detach().clone()
                read_before = (getattr(m2, pub).detach().clone() if pub else before)
                ops = rng.choice(["inplace", "sgd", "setter"])
                if ops == "inplace" or (ops == "setter" and pub is None):
                    with torch.no_grad():
                        p1.add_(3.0)
                elif ops == "sgd":
                    opt = torch.optim.SGD([p1], lr=10.0)
                    (p1 ** 2).sum().backward()
                    opt.step()
                else:
                    try:
                        setattr(m1, pub, getattr(m1, pub).detach() * 1.7 + 0.1)
                    except Exception:
                        with torch.no_grad():
                            p1.add_(3.0)
                after = get(m2, raw).detach()
                read_after = (getattr(m2, pub).detach() if pub else after)
                if p2.data_ptr() == p1.data_ptr() or not torch.equal(before, after) or not torch.equal(read_before, read_after):
                    ctx.fail(f"alias:{cname}", f"m2.initialize({raw}=m1.{raw} [{how}]) then a {ops} change of m1 moved m2: "
                             f"{read_before.flatten()[:2].tolist()} -> {read_after.flatten()[:2].tolist()} "
                             f"(shared storage: {p2.data_ptr() == p1.data_ptr()})", dict(rp, via=how, then=ops))
            # B. the caller recycles the tensor it passed to initialize / to the setter
            for entry in ("initialize", "setter"):
                if entry == "setter" and pub is None:
                    continue
                with warnings.catch_warnings():
                    warnings.simplefilter("ignore")
                    m = mk()
                p = get(m, raw)
                t = torch.tensor([rng.uniform(0.3, 1.2) for _ in range(p.numel())], dtype=p.dtype).reshape(p.shape)
                ctx.case(f"A:{cname}:caller-buffer:{entry}")
                try:
                    if entry == "initialize":
                        m.initialize(**{raw: t})
                    else:
                        setattr(m, pub, t)
                except Exception as e:
                    ctx.fail(f"alias:{cname}", f"{entry} with a tensor of the parameter's own shape raised {type(e).__name__}: "
                             f"{str(e)[:80]}", dict(rp, entry=entry))
                    continue
                read0 = (getattr(m, pub).detach().clone() if pub else get(m, raw).detach().clone())
                with torch.no_grad():
                    t.fill_(-1e6)
                read1 = (getattr(m, pub).detach() if pub else get(m, raw).detach())
                if get(m, raw).data_ptr() == t.data_ptr() or not torch.equal(read0, read1):
                    ctx.fail(f"alias:{cname}", f"after {entry}(<tensor t>) the caller overwrote t: the parameter now reads "
                             f"{read1.flatten()[:2].tolist()} (was {read0.flatten()[:2].tolist()}; shared storage: "
                             f"{get(m, raw).data_ptr() == t.data_ptr()})", dict(rp, entry=entry))
                con = None
                try:
                    owner, rawn, _ = owner_and_public(m, raw)
                    con = owner.constraint_for_parameter_name(rawn)
                except Exception:
                    pass
                if con is not None and con.enforced and not in_bounds(read1, con):
                    ctx.fail(f"bounds:{cname}", f"after the caller recycled its buffer the parameter reads {read1.flatten()[:2].tolist()} "
                             f"outside {con}", dict(rp, entry=entry))
    ctx.count("aliasing_rounds", 1 if ctx.quick else 4)


def sweep_initial_values(ctx, rng):
    """`initial_value=` of a constraint (0.0 included where it is interior) is what the parameter reads after
    register_constraint; setters accept 0.0 / negative interior values."""
    import torch
    import gpytorch
    from gpytorch.constraints import GreaterThan, Interval, LessThan, Positive
    cases = [("Interval(-1,1,initial_value=0.0)", lambda: Interval(-1.0, 1.0, initial_value=0.0), 0.0),
             ("Interval(0,2,initial_value=0.5)", lambda: Interval(0.0, 2.0, initial_value=0.5), 0.5),
             ("GreaterThan(-1,initial_value=0.0)", lambda: GreaterThan(-1.0, initial_value=0.0), 0.0),
             ("LessThan(1,initial_value=0.0)", lambda: LessThan(1.0, initial_value=0.0), 0.0),
             ("LessThan(0,initial_value=-2.0)", lambda: LessThan(0.0, initial_value=-2.0), -2.0),
             ("Positive(initial_value=3.0)", lambda: Positive(initial_value=3.0), 3.0)]
    for cname, mk, want in cases:
        for host in ("ConstantKernel", "ScaleKernel"):
            with warnings.catch_warnings():
                warnings.simplefilter("ignore")
                k = (gpytorch.kernels.ConstantKernel(constant_constraint=mk()) if host == "ConstantKernel"
                     else gpytorch.kernels.ScaleKernel(gpytorch.kernels.RBFKernel(), outputscale_constraint=mk())).double()
            val = (k.constant if host == "ConstantKernel" else k.outputscale).detach()
            ctx.case(f"I:{host}:{cname}")
            if not torch.allclose(val, torch.full_like(val, want), rtol=1e-9, atol=1e-12):
                ctx.fail(f"initial-value:{host}", f"{host} with {cname} reads {val.flatten().tolist()} after construction (initial_value {want})",
                         {"kind": "initial-value", "host": host, "constraint": cname})
            # a second module re-registering the constraint keeps working, and 0.0 can be assigned where it is interior
            con = k.constraint_for_parameter_name("raw_constant" if host == "ConstantKernel" else "raw_outputscale")
            lo, hi = bounds_of(con)
            if lo < 0.0 < hi:
                try:
                    if host == "ConstantKernel":
                        k.constant = torch.zeros_like(val)
                        got = k.constant.detach()
                    else:
                        k.outputscale = 0.0
                        got = k.outputscale.detach()
                    if not torch.allclose(got, torch.zeros_like(got), atol=1e-12):
                        ctx.fail(f"setter:{host}.zero", f"{host} under {con}: assigning 0.0 reads back {got.flatten().tolist()}",
                                 {"kind": "initial-value", "host": host, "constraint": cname})
                except Exception as e:
                    ctx.fail(f"setter:{host}.zero", f"{host} under {con}: assigning the interior value 0.0 raised {type(e).__name__}: "
                             f"{str(e)[:80]}", {"kind": "initial-value", "host": host, "constraint": cname})


# ------------------------------------------------------------------ (3c) one initialize(**kwargs) call with several (dotted) names

def _init_scenarios():
    """Module trees on which `initialize(**kwargs)` is called with several plain / dotted names (name -> builder)."""
    import torch
    import gpytorch
    from gpytorch.constraints import Interval
    K, L, M = gpytorch.kernels, gpytorch.likelihoods, gpytorch.means

    class _GP(gpytorch.models.ExactGP):
        def __init__(self, covar, mean, lik=None):
            x = torch.linspace(0, 1, 5, dtype=torch.float64).unsqueeze(-1)
            super().__init__(x, torch.sin(3 * x.squeeze(-1)), lik if lik is not None else L.GaussianLikelihood())
            self.mean_module = mean
            self.covar_module = covar

        def forward(self, x):
            return gpytorch.distributions.MultivariateNormal(self.mean_module(x), self.covar_module(x))

    cm = lambda: M.ConstantMean(constant_constraint=Interval(-5.0, 5.0))
    return {
        "kernel:Scale(RBF)": lambda: K.ScaleKernel(K.RBFKernel()),
        "kernel:Scale(Periodic)": lambda: K.ScaleKernel(K.PeriodicKernel()),
        "model:GP(Scale(RBF),ConstantMean[Interval])": lambda: _GP(K.ScaleKernel(K.RBFKernel()), cm()),
        "model:GP(RBF+Matern)": lambda: _GP(K.RBFKernel() + K.MaternKernel(nu=2.5), cm()),
        "kernel:Scale(Scale(RQ)+Linear)": lambda: K.ScaleKernel(K.ScaleKernel(K.RQKernel()) + K.LinearKernel()),
        "kernel:Scale(Periodic)*Cosine": lambda: K.ScaleKernel(K.PeriodicKernel()) * K.CosineKernel(),
        "model:GP(Scale(Matern)+Scale(Periodic))": lambda: _GP(K.ScaleKernel(K.MaternKernel(nu=1.5)) + K.ScaleKernel(K.PeriodicKernel()), cm()),
        "modellist:2xGP(Scale(RBF))": lambda: gpytorch.models.IndependentModelList(
            _GP(K.ScaleKernel(K.RBFKernel()), cm()), _GP(K.ScaleKernel(K.MaternKernel()), cm())),
        # python-side only (tensor-valued / unconstrained parameters are outside the scalar store model)
        "model:GP(Scale(RBF-ARD2),ConstantMean[unconstrained])": lambda: _GP(K.ScaleKernel(K.RBFKernel(ard_num_dims=2)), M.ConstantMean()),
    }


def enumerate_init_names(root):
    """The tree `initialize` sees: module paths (with the ModuleList flag), plain names of every gpytorch module
    (raw parameters, public properties with a setter, the likelihood's `noise` / `raw_noise` aliases), parameters."""
    import torch
    import gpytorch
    modules, leaves, params, pid_of = [], [], [], {}

    def pid(owner, rawname):
        p_ = owner._parameters[rawname]
        if id(p_) not in pid_of:
            pid_of[id(p_)] = len(params)
            params.append((owner, rawname))
        return pid_of[id(p_)]

    for mpath, mod in root.named_modules(remove_duplicate=False):
        segs = tuple(mpath.split(".")) if mpath else ()
        is_list = isinstance(mod, torch.nn.ModuleList)
        if not (is_list or isinstance(mod, gpytorch.Module)):
            continue
        modules.append((segs, is_list))
        if is_list:
            continue
        for rawname, p_ in mod._parameters.items():
            if p_ is None:
                continue
            i = pid(mod, rawname)
            leaves.append((segs + (rawname,), "r", i))
            if rawname.startswith("raw_"):
                prop = getattr(type(mod), rawname[4:], None)
                if isinstance(prop, property) and prop.fset is not None:
                    leaves.append((segs + (rawname[4:],), "p", i))
        nc = getattr(mod, "noise_covar", None)
        if isinstance(mod, gpytorch.likelihoods.GaussianLikelihood) and nc is not None and "raw_noise" in getattr(nc, "_parameters", {}):
            i = pid(nc, "raw_noise")
            leaves.append((segs + ("noise",), "p", i))
            leaves.append((segs + ("raw_noise",), "r", i))
    return modules, leaves, params


def _param_state(params):
    """[(read tensor, raw tensor)] per parameter."""
    out = []
    for owner, rawname in params:
        raw = owner._parameters[rawname].detach().clone()
        con = owner.constraint_for_parameter_name(rawname)
        out.append(((con.transform(raw) if con is not None else raw).clone(), raw))
    return out


def _apply_kwargs(root, kwargs, one_by_one):
    """One `initialize(**kwargs)` call — or the SPECIFICATION: the pairs applied one after the other, each directly on the
    module that owns the name (the owner is found by walking the attributes / ModuleList indices, so the dotted-name
    dispatch of `initialize` is not used), stopping at the first rejection.  Returns None or the exception text."""
    import torch
    import gpytorch
    try:
        with warnings.catch_warnings():
            warnings.simplefilter("ignore")
            if one_by_one:
                for k, v in kwargs.items():
                    *path, leaf = k.split(".")
                    owner = root
                    for seg in path:
                        if isinstance(owner, torch.nn.ModuleList):
                            owner = owner[int(seg)]
                        elif seg in owner._modules:
                            owner = owner._modules[seg]
                        else:
                            raise AttributeError(f"no sub-module {seg!r}")
                    if not isinstance(owner, gpytorch.Module):
                        raise AttributeError(f"{type(owner).__name__} has no initialize")
                    owner.initialize(**{leaf: v})
            else:
                root.initialize(**kwargs)
        return None
    except Exception as e:
        return f"{type(e).__name__}: {str(e)[:80]}"


def _mk_value(form, v, shape):
    import torch
    if form == "float":
        return float(v)
    if form == "tensor0":
        return torch.tensor(v, dtype=torch.float64)
    return torch.full(shape, v, dtype=torch.float64)


def run_multi_init_case(ctx, sname, items, lean_lines=None, lean_recs=None, tag=""):
    """items: [[dotted name, float value, form]] in kwargs order.  Runs ONE initialize call on a fresh tree of scenario
    `sname`, judges it by the fold of single-name calls on a second fresh tree, optionally queues the Lean request."""
    import copy
    import torch
    mk = _init_scenarios()[sname]
    with warnings.catch_warnings():
        warnings.simplefilter("ignore")
        root = mk().double()
    ref = copy.deepcopy(root)
    modules, leaves, params = enumerate_init_names(root)
    _, _, params_ref = enumerate_init_names(ref)
    by_name = {".".join(path): (t, i) for path, t, i in leaves}
    shape_of = lambda name: tuple(params[by_name[name][1]][0]._parameters[params[by_name[name][1]][1]].shape) if name in by_name else ()
    kwargs = {name: _mk_value(form, v, shape_of(name)) for name, v, form in items}
    before = _param_state(params)
    raised = _apply_kwargs(root, kwargs, one_by_one=False)
    raised_ref = _apply_kwargs(ref, {k: (v.clone() if torch.is_tensor(v) else v) for k, v in kwargs.items()}, one_by_one=True)
    after, want = _param_state(params), _param_state(params_ref)
    rp = {"kind": "multi-init", "scenario": sname, "kwargs": [list(it) for it in items]}
    names = [it[0] for it in items]
    call = f"{sname}.initialize(**{{" + ", ".join(f"{n!r}: {v!r}" for n, v, _ in items) + "})"
    pname = lambda i: type(params[i][0]).__name__ + "." + params[i][1]
    ok = True
    if raised_ref is None:
        # nothing may raise; every parameter reads what the LAST pair denoting it assigned, the others are untouched
        if raised is not None:
            ctx.fail(f"initialize:multi-name:{sname}", f"{call} raised {raised}; the same assignments made one by one are all accepted", rp)
            return False
        for i, ((rd, rw), (rd_w, rw_w)) in enumerate(zip(after, want)):
            if not (torch.equal(rw, rw_w) and torch.equal(rd, rd_w)):
                assigned = [f"{n}={v!r}" for n, v, _ in items if n in by_name and by_name[n][1] == i]
                what = (f"assigned by {assigned} in that call" if assigned else "not named in that call")
                ctx.fail(f"initialize:multi-name:{sname}", f"{call}: {pname(i)} ({what}) reads {rd.flatten()[:3].tolist()} afterwards; "
                         f"assigning the same pairs one after the other gives {rd_w.flatten()[:3].tolist()} (before the call: "
                         f"{before[i][0].flatten()[:3].tolist()})", rp)
                return False
    else:
        # some pair is rejected: the call must raise, every read stays inside its bounds; the order of effects around the
        # raise is compared with the fold as a model-level observable
        if raised is None:
            ctx.fail(f"initialize:multi-name-oob:{sname}", f"{call} was accepted although assigning the pairs one by one raises {raised_ref}", rp)
            return False
        for i, (rd, rw) in enumerate(after):
            con = params[i][0].constraint_for_parameter_name(params[i][1])
            if con is not None and con.enforced and not in_bounds(rd, con):
                ctx.fail(f"bounds:initialize:multi-name:{sname}", f"after the rejected {call}: {pname(i)} reads {rd.flatten()[:3].tolist()} outside {con}", rp)
                return False
        if any(not torch.equal(a[1], w[1]) for a, w in zip(after, want)):
            ok = False
            ctx.broke("correspondence", f"initialize-raise-order:{sname}", f"{call} raises like the fold of single assignments but leaves a "
                      "different store behind (effects before / after the rejected pair)")
    # Lean: the regenerated program and the specification on the same tree (scalar, default-transform parameters only)
    if lean_lines is not None:
        cons = [o.constraint_for_parameter_name(r) for o, r in params]
        kinds = [kind_of(c) if c is not None else None for c in cons]
        if all(k is not None for k in kinds) and all(o._parameters[r].numel() == 1 for o, r in params) and len(lean_lines) < (260 if ctx.quick else 2500):
            ids = {}
            seg = lambda s_: ids.setdefault(s_, len(ids))
            pth = lambda path: ".".join(str(seg(x)) for x in path) if path else "-"
            toks = ["N", str(len(modules))]
            for path, is_list in modules:
                toks += [pth(path), "1" if is_list else "0"]
            toks.append(str(len(leaves)))
            for path, t, i in leaves:
                toks += [pth(path), t, str(i)]
            toks.append(str(len(params)))
            fl = lambda z: bits(z if math.isfinite(z) else 0.0)
            pinfo = []
            for (o, r), c, k, (rd0, rw0) in zip(params, cons, kinds, before):
                l, u = bounds_of(c)
                toks += [KIND_LETTER[k], fl(l), fl(u), bits(rw0.flatten()[0].item())]
                pinfo.append((k, l, u))
            toks.append(str(len(items)))
            for n, v, _ in items:
                toks += [pth(tuple(n.split("."))), bits(v)]
            lean_lines.append(" ".join(toks))
            lean_recs.append((sname, call, rp, raised is not None, [(rd.flatten()[0].item(), rw.flatten()[0].item()) for rd, rw in after], pinfo))
    return ok


def sweep_multi_initialize(ctx, rng):
    """ONE `initialize(**kwargs)` call carrying several names: plain and dotted mixed, nesting up to four levels, through
    `nn.ModuleList` indices, several names below the same direct child, the same parameter named twice (public + raw
    name, likelihood alias), an out-of-bounds value or an unknown name in the middle.  Specification: the fold of the
    single-name calls (theorems `gen_initialize_eq_fold`, `initialize_multi_reads_back`)."""
    lean_lines, lean_recs = [], []
    scen = _init_scenarios()
    reps = 6 if ctx.quick else 40
    for sname, mk in scen.items():
        with warnings.catch_warnings():
            warnings.simplefilter("ignore")
            root = mk().double()
        modules, leaves, params = enumerate_init_names(root)
        cons = [o.constraint_for_parameter_name(r) for o, r in params]
        names = [(".".join(path), t, i) for path, t, i in leaves]
        dotted = [x for x in names if "." in x[0]]
        groups = {}
        for x in dotted:
            groups.setdefault(x[0].split(".")[0], []).append(x)
        multi = [g for g in groups.values() if len({y[2] for y in g}) >= 2]
        for rep in range(reps):
            pattern = rng.choice(["same-child", "same-child", "mixed", "all", "duplicate", "oob", "unknown"])
            k = rng.randint(2, 6)
            if pattern in ("same-child", "oob", "unknown") and multi:
                g = rng.choice(multi)
                pick = rng.sample(g, min(len(g), rng.randint(2, 4)))
                pick += rng.sample(names, min(len(names), rng.randint(0, 2)))
            elif pattern == "all":
                seen, pick = set(), []
                for x in rng.sample(names, len(names)):
                    if x[2] not in seen:
                        seen.add(x[2])
                        pick.append(x)
            elif pattern == "duplicate":
                i = rng.choice(sorted({x[2] for x in names}))
                same = [x for x in names if x[2] == i]
                pick = rng.sample(same, min(len(same), rng.randint(2, 3))) + rng.sample(names, min(len(names), 2))
            else:
                pick = rng.sample(names, min(len(names), k))
            seen_n, items = set(), []
            for n, t, i in pick:
                if n in seen_n:
                    continue
                seen_n.add(n)
                con = cons[i]
                shape = tuple(params[i][0]._parameters[params[i][1]].shape)
                if t == "r" or con is None:
                    v = rng.uniform(-3.0, 3.0)
                    form = rng.choice(["tensor", "tensor0"])
                else:
                    l, u = bounds_of(con)
                    kind = kind_of(con) or "Interval"
                    v = interior_values(rng, kind, l, u, ()).item()
                    form = rng.choice(["float", "tensor", "tensor0"])
                items.append([n, v, form])
            if pattern == "oob":
                cand = [j for j, (n, v, f) in enumerate(items) if by_t(names, n) == "p" and cons[by_i(names, n)] is not None]
                if cand:
                    j = rng.choice(cand)
                    l, u = bounds_of(cons[by_i(names, items[j][0])])
                    items[j][1] = (l - rng.uniform(0.1, 2.0)) if math.isfinite(l) else (u + rng.uniform(0.1, 2.0))
            if pattern == "unknown":
                bad = rng.choice(["nonexistent_parameter", (dotted[0][0].rsplit(".", 1)[0] + ".nonexistent") if dotted else "bogus.x", "bogus_module.lengthscale"])
                items.insert(rng.randint(0, len(items)), [bad, 0.5, "float"])
            depth = max(n.count(".") for n, _, _ in items)
            heads = [n.split(".")[0] for n, _, _ in items if "." in n]
            same_child = max([heads.count(h) for h in set(heads)] or [0])
            ctx.case(f"I:{sname}:{pattern}:n{len(items)}:depth{depth}:same-child{min(same_child, 3)}",
                     sample={"scenario": sname, "kwargs": items})
            ctx.count("multi_initialize_calls")
            if same_child >= 2:
                ctx.count("multi_initialize_calls_with_2+_names_below_one_child")
            try:
                run_multi_init_case(ctx, sname, items, lean_lines, lean_recs)
            except Exception:
                import traceback
                ctx.broke("correspondence", f"multi-initialize:{sname}", traceback.format_exc())
    return lean_lines, lean_recs


def by_t(names, n):
    return next((t for m, t, _ in names if m == n), None)


def by_i(names, n):
    return next((i for m, _, i in names if m == n), None)


def compare_lean_multi_init(ctx, recs, replies):
    bad = 0
    for (sname, call, rp, raised, cells, pinfo), rep in zip(recs, replies):
        halves = rep.split(" | ")
        if len(halves) != 2 or not halves[0].startswith("G ") or not halves[1].startswith("S "):
            ctx.broke("correspondence", f"driver:N:{sname}", f"reply {rep[:200]!r}")
            continue
        g, sp = halves[0].split()[1:], halves[1].split()[1:]
        ctx.count("lean_multi_init_lines")
        if g != sp:
            bad += 1
            if bad <= 3:
                ctx.broke("correspondence", f"generated initialize dispatch vs initFold:{sname}",
                          f"{call}: the program regenerated from Module.initialize and the fold of single assignments give different stores")
        for who, toks in (("generated", g), ("spec", sp)):
            m_raised = toks[0] == "1"
            ok = (m_raised == raised) and len(toks) == 1 + len(cells)
            if ok and not raised:
                for (rd, rw), t, (k, l, u) in zip(cells, toks[1:], pinfo):
                    m_rd, m_rw = (unbits(z) for z in t.split(":"))
                    if not (abs(m_rd - rd) <= transform_tol(k, l, u, rw, rd) + 1e-9 * max(1.0, abs(rd))
                            and abs(m_rw - rw) <= inverse_tol(k, l, u, rd, rw) + 1e-9 * max(1.0, abs(rw))):
                        ok = False
            if not ok:
                bad += 1
                if bad <= 6:
                    if who == "spec" and not raised and not m_raised:
                        ctx.fail(f"initialize:multi-name:model:{sname}", f"{call}: the parameters read {[c[0] for c in cells]} afterwards; the fold of the "
                                 f"single assignments (store model) gives {[unbits(t.split(':')[0]) for t in toks[1:]]}", rp)
                    else:
                        ctx.broke("correspondence", f"{who} initialize vs implementation:{sname}",
                                  f"{call}: real raised={raised} cells={cells}; {who} model: {' '.join(toks)[:300]}")
    ctx.count("lean_multi_init_mismatches", bad)


# ------------------------------------------------------------------ (4c) prior hyper-parameters changed after construction

def _dyadic(rng, lo, hi, den=64):
    """value in [lo, hi] that float32 represents exactly (k/64), so that dtype moves do not change it"""
    return rng.randint(int(math.ceil(lo * den)), int(math.floor(hi * den))) / den


def _prior_families():
    """name -> (draw hyper-parameters, build, state-dict keys of the hyper-parameters in draw order (None: not persisted),
    public attributes, scipy log density, Lean request, a point of the support)"""
    import numpy as np
    import scipy.special as sp
    import scipy.stats as st
    from gpytorch import priors as P
    fam = {}
    fam["NormalPrior"] = dict(
        draw=lambda r: [_dyadic(r, -2, 2), _dyadic(r, 0.25, 3)], build=lambda h: P.NormalPrior(h[0], h[1]),
        keys=["loc", "scale"], attrs=["loc", "scale"], ref=lambda h, x: st.norm.logpdf(x, h[0], h[1]),
        lean=lambda h, x: f"P normal {bits(h[0])} {bits(h[1])} {bits(x)}", point=lambda r, h: h[0] + h[1] * r.gauss(0, 1.5))
    fam["LogNormalPrior"] = dict(
        draw=lambda r: [_dyadic(r, -1, 1.5), _dyadic(r, 0.25, 1.5)], build=lambda h: P.LogNormalPrior(h[0], h[1]),
        keys=["_transformed_loc", "_transformed_scale"], attrs=["loc", "scale"],
        ref=lambda h, x: st.lognorm.logpdf(x, h[1], scale=math.exp(h[0])),
        lean=lambda h, x: f"P lognormal {bits(h[0])} {bits(h[1])} {bits(x)}", point=lambda r, h: math.exp(h[0] + h[1] * r.gauss(0, 1.2)))
    fam["HalfNormalPrior"] = dict(
        draw=lambda r: [_dyadic(r, 0.25, 4)], build=lambda h: P.HalfNormalPrior(h[0]),
        keys=["_transformed_scale"], attrs=["scale"], ref=lambda h, x: st.halfnorm.logpdf(x, scale=h[0]),
        lean=lambda h, x: f"P halfnormal {bits(h[0])} {bits(x)}", point=lambda r, h: abs(h[0] * r.gauss(0, 1.5)) + 1e-3)
    fam["HalfCauchyPrior"] = dict(
        draw=lambda r: [_dyadic(r, 0.25, 8)], build=lambda h: P.HalfCauchyPrior(h[0]),
        keys=["_transformed_scale"], attrs=["scale"], ref=lambda h, x: st.halfcauchy.logpdf(x, scale=h[0]),
        lean=lambda h, x: f"P halfcauchy {bits(h[0])} {bits(x)}", point=lambda r, h: abs(h[0] * math.tan(r.uniform(0.05, 1.4))))
    fam["GammaPrior"] = dict(
        draw=lambda r: [_dyadic(r, 0.5, 6), _dyadic(r, 0.25, 5)], build=lambda h: P.GammaPrior(h[0], h[1]),
        keys=["concentration", "rate"], attrs=["concentration", "rate"], ref=lambda h, x: st.gamma.logpdf(x, h[0], scale=1 / h[1]),
        lean=lambda h, x: f"P gamma {bits(h[0])} {bits(h[1])} {bits(sp.gammaln(h[0]))} {bits(x)}",
        point=lambda r, h: st.gamma.ppf(r.uniform(0.05, 0.95), h[0], scale=1 / h[1]))

    def sbox_ref(h, x):
        d = max(h[0] - x, x - h[1], 0.0)
        return st.norm.logpdf(d, 0, h[2]) - math.log1p((h[1] - h[0]) / (math.sqrt(2 * math.pi) * h[2]))

    def sbox_draw(r):
        a = _dyadic(r, 0.0, 1.0)
        return [a, a + _dyadic(r, 0.25, 2), _dyadic(r, 0.0625, 0.5)]
    fam["SmoothedBoxPrior"] = dict(
        draw=sbox_draw, build=lambda h: P.SmoothedBoxPrior(h[0], h[1], sigma=h[2]),
        keys=["a", "b", "sigma"], attrs=["a", "b", "sigma"], ref=sbox_ref,
        lean=lambda h, x: f"P sbox {bits(h[0])} {bits(h[1])} {bits(h[2])} {bits(x)}",
        point=lambda r, h: r.choice([r.uniform(h[0], h[1]), h[0] - h[2] * abs(r.gauss(0, 1.5)), h[1] + h[2] * abs(r.gauss(0, 1.5))]))

    def hs_ref(h, x):
        Kc = 1 / math.sqrt(2 * math.pi ** 3)
        A = (h[0] / x) ** 2
        return math.log((Kc / 2 * math.log1p(4 * A) + Kc * math.log1p(2 * A)) / 2)
    fam["HorseshoePrior"] = dict(
        draw=lambda r: [_dyadic(r, 0.25, 4)], build=lambda h: P.HorseshoePrior(h[0]),
        keys=["scale"], attrs=["scale"], ref=hs_ref,
        lean=lambda h, x: f"P horseshoe {bits(h[0])} {bits(x)}", point=lambda r, h: h[0] * 10 ** r.uniform(-1, 1))

    def uni_draw(r):
        a = _dyadic(r, 0.0, 0.5)
        return [a, a + _dyadic(r, 1.0, 3.0)]
    fam["UniformPrior"] = dict(   # low / high are plain attributes (C18 known finding): a load must leave them alone
        draw=uni_draw, build=lambda h: P.UniformPrior(h[0], h[1]),
        keys=None, attrs=["low", "high"], ref=lambda h, x: st.uniform.logpdf(x, h[0], h[1] - h[0]),
        lean=lambda h, x: f"P uniform {bits(h[0])} {bits(h[1])}", point=lambda r, h: r.uniform(0.51, 0.99))   # inside every drawn support
    return fam


def _prior_hosts():
    """name -> (build(prior) -> (root module, dotted path of the prior below root))."""
    import torch
    import gpytorch
    K, L = gpytorch.kernels, gpytorch.likelihoods

    class _GP(gpytorch.models.ExactGP):
        def __init__(self, covar, lik):
            x = torch.linspace(0, 1, 5, dtype=torch.float64).unsqueeze(-1)
            super().__init__(x, torch.sin(3 * x.squeeze(-1)), lik)
            self.mean_module = gpytorch.means.ZeroMean()
            self.covar_module = covar

        def forward(self, x):
            return gpytorch.distributions.MultivariateNormal(self.mean_module(x), self.covar_module(x))

    def holder(p):
        h = torch.nn.Module()
        h.kernel = K.ScaleKernel(K.RBFKernel(), outputscale_prior=p)
        return h, "kernel.outputscale_prior"

    def mlist(p):
        return torch.nn.ModuleList([K.MaternKernel(), K.RBFKernel(lengthscale_prior=p)]), "1.lengthscale_prior"
    return {
        "kernel": lambda p: (K.RBFKernel(lengthscale_prior=p), "lengthscale_prior"),
        "scale-kernel": lambda p: (K.ScaleKernel(K.RBFKernel(lengthscale_prior=p)), "base_kernel.lengthscale_prior"),
        "likelihood": lambda p: (L.GaussianLikelihood(noise_prior=p), "noise_covar.noise_prior"),
        "model": lambda p: (_GP(K.ScaleKernel(K.MaternKernel(lengthscale_prior=p)), L.GaussianLikelihood()),
                            "covar_module.base_kernel.lengthscale_prior"),
        "model-likelihood": lambda p: (_GP(K.RBFKernel(), L.GaussianLikelihood(noise_prior=p)), "likelihood.noise_covar.noise_prior"),
        "nn.Module-holder": holder,
        "nn.ModuleList": mlist,
    }


def _get_path(mod, dotted):
    for part in dotted.split("."):
        mod = mod[int(part)] if part.isdigit() else getattr(mod, part)
    return mod


PRE_OPS = ["none", "none", "used", "dtype-move", "deepcopy", "pickle", "setattr"]
LOAD_OPS = ["parent.load_state_dict", "parent.load_state_dict(strict=False)", "parent.load_state_dict(torch.save/load)",
            "prior.load_state_dict", "setattr"]
POST_OPS = ["none", "none", "deepcopy", "pickle", "dtype-move"]


def run_prior_reload_case(ctx, fname, host, pre, load, post, h1, h2, xs, seed, lean_lines=None, lean_recs=None):
    """Build `host` with a prior of family `fname` and hyper-parameters h1; (pre-op); give it the hyper-parameters h2
    through `load`; (post-op); the prior must then BE the prior with hyper-parameters h2: state dict, public attributes,
    log density at `xs`, density of the registered parameter, samples."""
    import copy
    import io
    import pickle
    import torch
    fam = _prior_families()[fname]
    mkhost = _prior_hosts()[host]
    with warnings.catch_warnings():
        warnings.simplefilter("ignore")
        root, ppath = mkhost(fam["build"](h1))
        src, _ = mkhost(fam["build"](h2))
    root, src = root.double(), src.double()
    how = (pre + "+" if pre != "none" else "") + load + ("+" + post if post != "none" else "")
    key = f"prior-reload:{fname}:{how}"
    rp = {"kind": "prior-reload", "prior": fname, "host": host, "pre": pre, "load": load, "post": post, "h1": h1, "h2": h2,
          "xs": xs, "seed": seed}
    t = lambda v: torch.tensor(v, dtype=torch.float64)
    if pre == "used":
        _get_path(root, ppath).log_prob(t(xs[0]))
    elif pre == "dtype-move":
        root = root.float().double()
    elif pre == "deepcopy":
        root = copy.deepcopy(root)
    elif pre == "pickle":
        try:
            root = pickle.loads(pickle.dumps(root))
        except Exception:
            ctx.count("prior_reload_unpicklable_host")
    elif pre == "setattr" and fam["keys"] is not None:
        pr = _get_path(root, ppath)
        for a, v in zip(fam["attrs"], h1):      # same values, new tensors: goes through Prior.__setattr__
            setattr(pr, a, t(v))
    pr = _get_path(root, ppath)
    expect = h2
    sd = src.state_dict()
    if load.startswith("parent.load_state_dict"):
        if "torch.save" in load:
            buf = io.BytesIO()
            torch.save(sd, buf)
            buf.seek(0)
            sd = torch.load(buf)
        else:
            sd = {k: v.clone() for k, v in sd.items()}
        root.load_state_dict(sd, strict=("strict=False" not in load))
    elif load == "prior.load_state_dict":
        pr.load_state_dict({k[len(ppath) + 1:]: v.clone() for k, v in sd.items() if k.startswith(ppath + ".")})
    elif load == "setattr":
        if fam["keys"] is None or fname in ("SmoothedBoxPrior",):
            expect = h1     # no documented assignment path for these: nothing is changed
        else:
            for a, v in zip(fam["attrs"], h2):
                setattr(pr, a, t(v))
    if fam["keys"] is None and load != "setattr":
        expect = h1         # hyper-parameters are not part of the state dict: a load leaves them alone
    if post == "deepcopy":
        root = copy.deepcopy(root)
    elif post == "pickle":
        try:
            root = pickle.loads(pickle.dumps(root))
        except Exception:
            ctx.count("prior_reload_unpicklable_host")
    elif post == "dtype-move":
        root = root.float().double()
    pr = _get_path(root, ppath)
    # 1. the state dict and the public attributes show the expected hyper-parameters
    if fam["keys"] is not None:
        psd = pr.state_dict()
        got_sd = [float(psd[k].flatten()[0]) for k in fam["keys"]]
        if got_sd != expect:
            ctx.fail(key, f"{fname} in {host}: after {how} the prior's state dict holds {got_sd}, expected {expect}", rp)
            return False
    got_attr = [float(getattr(pr, a).flatten()[0]) for a in fam["attrs"]]
    if got_attr != expect:
        ctx.fail(key, f"{fname} in {host}: after {how} the state dict says {expect} but prior.{'/'.join(fam['attrs'])} = {got_attr}", rp)
        return False
    # 2. the density is the documented one with these hyper-parameters
    for x in xs:
        got = pr.log_prob(t([x]) if fname == "SmoothedBoxPrior" else t(x)).item()
        want = float(fam["ref"](expect, x))
        if not abs(got - want) <= 1e-9 * (1 + abs(want)):
            ctx.fail(key, f"{fname} in {host}: after {how} the hyper-parameters are {expect} (state dict / attributes) but "
                     f"log_prob({x!r}) = {got!r}; the documented density with them gives {want!r} (with the construction-time "
                     f"{h1}: {float(fam['ref'](h1, x))!r})", rp)
            return False
        if lean_lines is not None:
            lean_lines.append(fam["lean"](expect, x))
            lean_recs.append((fname, got, dict(rp, x=x)))
    # 3. the registration evaluates the density of the (loaded) constrained value
    import gpytorch
    if isinstance(root, gpytorch.Module):
        for name, mod, p_, closure, _ in root.named_priors():
            if p_ is pr:
                val = closure(mod).detach()
                got = p_.log_prob(val).sum().item()
                v0 = val.flatten()[0].item()
                try:
                    want = float(fam["ref"](expect, v0)) * val.numel()
                except Exception:
                    continue
                if math.isfinite(want) and not abs(got - want) <= 1e-9 * (1 + abs(want)):
                    ctx.fail(key, f"{fname} in {host}: after {how} log_prob(closure(module)) = {got!r} for the value {v0!r}; documented "
                             f"density with {expect}: {want!r}", rp)
                    return False
    # 4. samples come from the prior with these hyper-parameters
    if fname != "HorseshoePrior":
        try:
            torch.manual_seed(seed)
            s_got = pr.sample(torch.Size([3]))
            torch.manual_seed(seed)
            s_want = fam["build"](expect).double().sample(torch.Size([3]))
            if s_got.shape != s_want.shape or not torch.allclose(s_got.double(), s_want.double(), rtol=1e-6, atol=1e-9):
                ctx.fail(key, f"{fname} in {host}: after {how} sample() (seed {seed}) gives {s_got.flatten().tolist()}, a prior built with "
                         f"{expect} gives {s_want.flatten().tolist()}", rp)
                return False
        except NotImplementedError:
            pass
    return True


def sweep_prior_reload(ctx, rng):
    """Build -> (use / move / copy) -> reload or re-assign the hyper-parameters -> (copy / move) -> evaluate: every scalar prior
    family x the module through which the state dict is loaded (owner, grand-parent kernel, likelihood, ExactGP, plain
    nn.Module, nn.ModuleList) x how the hyper-parameters arrive."""
    lean_lines, lean_recs = [], []
    fams = _prior_families()
    hosts = list(_prior_hosts())
    reps = 5 if ctx.quick else 30
    for fname, fam in fams.items():
        combos = [(h, "none", "parent.load_state_dict", "none") for h in hosts]            # every host once, plain
        combos += [(rng.choice(hosts), "dtype-move", "parent.load_state_dict", "none"),
                   (rng.choice(hosts), "none", "prior.load_state_dict", "none")]
        combos += [(rng.choice(hosts), rng.choice(PRE_OPS), rng.choice(LOAD_OPS), rng.choice(POST_OPS)) for _ in range(reps)]
        for host, pre, load, post in combos:
            h1, h2 = fam["draw"](rng), fam["draw"](rng)
            if h1 == h2:
                h2 = fam["draw"](rng)
            xs = [float(fam["point"](rng, h2)) for _ in range(2)]
            seed = rng.torch_seed()
            ctx.case(f"PR:{fname}:{host}:{pre}:{load}:{post}", sample={"prior": fname, "host": host, "h1": h1, "h2": h2})
            ctx.count("prior_reload_cases")
            try:
                run_prior_reload_case(ctx, fname, host, pre, load, post, h1, h2, xs, seed, lean_lines, lean_recs)
            except Exception:
                import traceback
                ctx.broke("correspondence", f"prior-reload:{fname}:{host}", traceback.format_exc())
    return lean_lines, lean_recs


# ------------------------------------------------------------------ (4d) matrix-valued priors against the exact models

def _mp_log_frac(fr):
    import mpmath as mp
    return mp.log(mp.mpf(fr.numerator)) - mp.log(mp.mpf(fr.denominator))


def _parse_fields(rep):
    return dict(f.split("=", 1) for f in rep.split(";"))


def _rand_tril(rng, d, den=16):
    import torch
    L = torch.zeros(d, d, dtype=torch.float64)
    for i in range(d):
        for j in range(i):
            L[i, j] = rng.randint(-den, den) / den
        L[i, i] = rng.randint(den // 2, 2 * den) / den
    return L


def _mvn_case(rng, d):
    import torch
    L = _rand_tril(rng, d)
    loc = torch.tensor([rng.randint(-32, 32) / 16 for _ in range(d)], dtype=torch.float64)
    return loc, L


def _mvn_build(loc, L, how):
    import torch
    from gpytorch.priors import MultivariateNormalPrior
    if how == "scale_tril":
        return MultivariateNormalPrior(loc.clone(), scale_tril=L.clone())
    if how == "covariance_matrix":
        return MultivariateNormalPrior(loc.clone(), covariance_matrix=L @ L.T)
    return MultivariateNormalPrior(loc.clone(), precision_matrix=torch.linalg.inv(L @ L.T))


def _mvn_host(prior, d):
    import gpytorch
    k = gpytorch.kernels.RBFKernel(ard_num_dims=d)
    k.register_prior("lengthscale_prior", prior, "lengthscale")
    return gpytorch.kernels.ScaleKernel(k)


def _mvn_exact_request(prior, v):
    """Driver request for the density the prior's CURRENT buffers define, at the point v."""
    Lb = prior.state_dict()["_unbroadcasted_scale_tril"].double()
    mu = prior.state_dict()["loc"].double()
    return f"M {C.mat_tokens(Lb)} {C.vec_tokens(mu)} {C.vec_tokens(v)}"


def run_mvn_reload_case(ctx, d, how1, how2, pre, load, case1, case2, v, lines=None, recs=None):
    """MultivariateNormalPrior registered on an ARD lengthscale: build (h1) -> pre-op -> parent load of (h2) -> the prior must
    be N(loc2, L2 L2ᵀ): buffers, public (lazy) attributes, log density (exact model through the driver)."""
    import torch
    t64 = lambda z: torch.tensor(z, dtype=torch.float64)
    (loc1, L1), (loc2, L2) = (t64(case1[0]), t64(case1[1])), (t64(case2[0]), t64(case2[1]))
    root = _mvn_host(_mvn_build(loc1, L1, how1), d).double()
    src = _mvn_host(_mvn_build(loc2, L2, how2), d).double()
    pr = root.base_kernel.lengthscale_prior
    how = (pre + "+" if pre != "none" else "") + load
    rp = {"kind": "mvn-reload", "d": d, "how1": how1, "how2": how2, "pre": pre, "load": load, "case1": case1, "case2": case2, "v": v}

    def read_attrs(tag):
        out = {}
        for a in ("loc", "scale_tril", "covariance_matrix", "precision_matrix"):
            try:
                out[a] = getattr(pr, a).detach().clone()
            except RecursionError:
                ctx.fail(f"prior-attr:MultivariateNormalPrior:{a}", f"MultivariateNormalPrior built with {how1 if tag == 'pre' else how2}=…: "
                         f"reading prior.{a} raises RecursionError", dict(rp, attr=a))
                out[a] = None
        return out
    if pre == "used":
        read_attrs("pre")
        pr.log_prob(t64(v))
    elif pre == "dtype-move":
        root = root.float().double()
        pr = root.base_kernel.lengthscale_prior
    sd = {k_: v_.clone() for k_, v_ in src.state_dict().items()}
    if load == "parent.load_state_dict":
        root.load_state_dict(sd)
    elif load == "prior.load_state_dict":
        pfx = "base_kernel.lengthscale_prior."
        pr.load_state_dict({k_[len(pfx):]: v_ for k_, v_ in sd.items() if k_.startswith(pfx)})
    key = f"prior-reload:MultivariateNormalPrior:{how}"
    Lb, mub = pr.state_dict()["_unbroadcasted_scale_tril"], pr.state_dict()["loc"]
    src_pr = src.base_kernel.lengthscale_prior
    if not (torch.equal(Lb, src_pr.state_dict()["_unbroadcasted_scale_tril"]) and torch.equal(mub, src_pr.state_dict()["loc"])):
        ctx.fail(key, f"after {how} the state dict of the prior does not hold the loaded loc / scale_tril", rp)
        return False
    ok = True
    attrs = read_attrs("post")
    Sig = Lb @ Lb.T
    want = {"loc": mub, "scale_tril": Lb, "covariance_matrix": Sig, "precision_matrix": torch.linalg.inv(Sig)}
    for a, got in attrs.items():
        if got is None:
            ok = False
        elif not torch.allclose(got, want[a], rtol=1e-9, atol=1e-12):
            ok = False
            ctx.fail(key, f"MultivariateNormalPrior ({how1} -> {how2}): after {how} the state dict holds loc {mub.tolist()}, scale_tril "
                     f"{Lb.tolist()} but prior.{a} = {got.tolist()} (expected {want[a].tolist()})", dict(rp, attr=a))
    got_lp = pr.log_prob(t64(v)).item()
    got_reg = pr.log_prob(root.base_kernel.lengthscale.detach()).sum().item()
    if lines is not None:
        lines.append(_mvn_exact_request(pr, t64(v)))
        recs.append(("mvn", key, got_lp, d, dict(rp)))
        lines.append(_mvn_exact_request(pr, root.base_kernel.lengthscale.detach().flatten()))
        recs.append(("mvn", key, got_reg, d, dict(rp, point="registered lengthscale")))
    return ok


def sweep_matrix_priors(ctx, rng):
    """MultivariateNormalPrior and LKJCholeskyFactorPrior against the exact models of `Model/MatrixPriors.lean` (driver C17mat, ℚ)."""
    import torch
    from fractions import Fraction
    from gpytorch import priors as P
    lines, recs = [], []
    reps = 4 if ctx.quick else 25
    # --- MultivariateNormalPrior: fresh, every constructor form, dimensions 1..4
    for rep in range(reps):
        for how in ("scale_tril", "covariance_matrix", "precision_matrix"):
            d = rng.choice([1, 2, 3, 4])
            loc, L = _mvn_case(rng, d)
            pr = _mvn_build(loc, L, how)
            Lb = pr.state_dict()["_unbroadcasted_scale_tril"]
            res = (Lb @ Lb.T - L @ L.T).abs().max().item() / (L @ L.T).abs().max().item()
            if res > 1e-12:
                ctx.assumption(f"torch cholesky / inverse: MultivariateNormalPrior({how}=...) stores a factor with relative residual {res:.1e}")
            for _ in range(2):
                v = torch.tensor([rng.gauss(0, 2) for _ in range(d)], dtype=torch.float64)
                ctx.case(f"PM:mvn:{how}:d{d}", sample={"prior": "MultivariateNormalPrior", "how": how, "d": d})
                lines.append(_mvn_exact_request(pr, v))
                recs.append(("mvn", "prior:MultivariateNormalPrior/log_prob", pr.log_prob(v).item(), d,
                             {"kind": "prior", "prior": "MultivariateNormalPrior", "how": how, "loc": loc.tolist(), "L": L.tolist(), "x": v.tolist()}))
    # --- MultivariateNormalPrior: reload histories (class of C17-8) incl. the lazily cached public attributes
    for rep in range(reps):
        d = rng.choice([2, 3])
        c1, c2 = _mvn_case(rng, d), _mvn_case(rng, d)
        how1, how2 = rng.choice(["scale_tril", "covariance_matrix", "precision_matrix"]), rng.choice(["scale_tril", "covariance_matrix"])
        pre = rng.choice(["none", "used", "used", "dtype-move"])
        load = rng.choice(["parent.load_state_dict", "parent.load_state_dict", "prior.load_state_dict"])
        v = [rng.gauss(0, 2) for _ in range(d)]
        ctx.case(f"PM:mvn-reload:{how1}:{how2}:{pre}:{load}")
        ctx.count("mvn_prior_reload_cases")
        try:
            run_mvn_reload_case(ctx, d, how1, how2, pre, load, [c1[0].tolist(), c1[1].tolist()], [c2[0].tolist(), c2[1].tolist()], v, lines, recs)
        except Exception:
            import traceback
            ctx.broke("correspondence", "mvn-prior-reload", traceback.format_exc())
    # --- LKJCholeskyFactorPrior: exponent table (exact) and density as a function of the diagonal
    etas = [0.5, 0.75, 1.0, 1.5, 2.0, 2.5, 3.25]
    for n in (2, 3, 4, 5) if ctx.quick else (2, 3, 4, 5, 6, 7):
        for rep in range(2 if ctx.quick else 8):
            dyadic = rep % 2 == 0 or rng.random() < 0.5
            eta = rng.choice(etas + [rng.randint(3, 40) / 8]) if dyadic else rng.uniform(0.3, 4.0)
            try:
                pr = P.LKJCholeskyFactorPrior(n, eta)
            except Exception as e:
                ctx.fail("prior:LKJCholeskyFactorPrior/constructor", f"LKJCholeskyFactorPrior({n}, {eta}) raised {type(e).__name__}: {str(e)[:120]}",
                         {"kind": "prior", "prior": "LKJCholeskyFactorPrior", "params": [n, eta]})
                continue
            eye = torch.eye(n, dtype=torch.float64, requires_grad=True)
            g, = torch.autograd.grad(pr.log_prob(eye), eye)
            table = g.diagonal()[1:].tolist()
            offd = (g - torch.diag(g.diagonal())).abs().max().item() + abs(g[0, 0].item())
            L0 = torch.linalg.cholesky(randcorr(rng, n))
            L1 = torch.linalg.cholesky(randcorr(rng, n))
            got = (pr.log_prob(L1) - pr.log_prob(L0)).item()
            rp = {"kind": "prior", "prior": "LKJCholeskyFactorPrior", "params": [n, eta], "L0": L0.tolist(), "L1": L1.tolist()}
            ctx.case(f"PM:lkj-chol:n{n}:{'dyadic' if dyadic else 'random'}-eta", sample={"prior": "LKJCholeskyFactorPrior", "n": n, "eta": eta})
            if offd != 0.0:
                ctx.fail("prior:LKJCholeskyFactorPrior/diagonal-only", f"LKJCholeskyFactorPrior({n}, {eta}).log_prob depends on entries other than "
                         "the diagonal L_22..L_nn (gradient at the identity)", rp)
            for Lx, tag in ((L0, 0), (L1, 1)):
                lines.append(f"K {n} {C.rat_str(eta)} " + " ".join(C.rat_str(z) for z in Lx.diagonal()[1:].tolist()))
                recs.append(("lkj", tag, table, got, dyadic, rp))
    return lines, recs


def compare_matrix_priors(ctx, recs, replies):
    import mpmath as mp
    from fractions import Fraction
    mp.mp.dps = 40
    pend = None
    for rec, rep in zip(recs, replies):
        if rec[0] == "mvn":
            _, key, got, d, rp = rec
            ctx.count("lean_matrix_prior_lines")
            if rep == "singular" or rep == "bad-request":
                ctx.broke("correspondence", "driver:C17mat:M", f"reply {rep!r} for {rp}")
                continue
            f = _parse_fields(rep)
            qt, q, dt = Fraction(f["qtril"]), Fraction(f["quad"]), Fraction(f["det"])
            diag = [Fraction(z) for z in f["diag"].split()]
            prod = Fraction(1)
            for z in diag:
                prod *= z
            if not (qt == q and dt == prod * prod and f["lower"] == "1"):
                ctx.broke("correspondence", "model:mvn-prior-parts", f"scale_tril pieces {qt}, (Π diag)² {prod * prod} vs C10 pieces {q}, {dt} "
                          f"(lower={f['lower']}): theorem mvn_prior_parts_correct says they agree")
            l2pi = mp.log(2 * mp.pi)
            want_tril = -(d * l2pi + mp.mpf(qt.numerator) / qt.denominator) / 2 - sum(_mp_log_frac(z) for z in diag)
            want_c10 = -(mp.mpf(q.numerator) / q.denominator + _mp_log_frac(dt) + d * l2pi) / 2
            want = float(want_tril)
            if abs(float(want_c10) - want) > 1e-12 * (1 + abs(want)):
                ctx.broke("correspondence", "model:mvn-prior-assembly", f"assembly through scale_tril {want!r} vs C10 closed form {float(want_c10)!r}")
            if not abs(got - want) <= 1e-9 * (1 + abs(want)):
                ctx.fail(key, f"MultivariateNormalPrior.log_prob = {got!r}; the density N(loc, L Lᵀ) of its own buffers (exact model: "
                         f"‖L⁻¹(x−μ)‖² = {float(qt)!r}, det Σ = {float(dt)!r}) gives {want!r}", rp)
        else:
            _, tag, table, got, dyadic, rp = rec
            ctx.count("lean_matrix_prior_lines")
            f = _parse_fields(rep) if "exps=" in rep else None
            if f is None:
                ctx.broke("correspondence", "driver:C17mat:K", f"reply {rep!r}")
                pend = None
                continue
            exps = [Fraction(z) for z in f["exps"].split()]
            n, eta = rp["params"]
            diag = (rp["L0"] if tag == 0 else rp["L1"])
            dvals = [Fraction(diag[i][i]) for i in range(1, n)]
            logu = sum(mp.mpf(e.numerator) / e.denominator * _mp_log_frac(z) for e, z in zip(exps, dvals))
            dens = None if f["dens"] == "N" else Fraction(f["dens"])
            if dens is not None and abs(float(_mp_log_frac(dens) - logu)) > 1e-25:
                ctx.broke("correspondence", "model:lkj-unnormZ", f"n={n} eta={eta}: log of the rational density vs Σ e_i log L_ii")
            if tag == 0:
                # exponent table of the implementation (gradient of log_prob at the identity) vs the exact table
                ok = len(table) == len(exps)
                for a, e in zip(table, exps):
                    if dyadic:
                        ok = ok and Fraction(a) == e
                    else:
                        ok = ok and abs(a - float(e)) <= 4 * EPS * max(1.0, abs(float(e)))
                if not ok:
                    ctx.fail("prior:LKJCholeskyFactorPrior/exponent-table", f"LKJCholeskyFactorPrior({n}, {eta}): exponents of L_22..L_nn in log_prob are "
                             f"{table}; documented n − i + 2(η − 1) = {[float(e) for e in exps]}", rp)
                pend = logu
            else:
                want = float(logu - pend) if pend is not None else None
                pend = None
                if want is not None and not abs(got - want) <= 1e-9 * (1 + abs(want)):
                    ctx.fail("prior:LKJCholeskyFactorPrior/lkj-cholesky-density", f"LKJCholeskyFactorPrior({n}, {eta}): log_prob(L1) − log_prob(L0) = "
                             f"{got!r}; Π L_ii^(n−i+2(η−1)) gives {want!r}", rp)


# ------------------------------------------------------------------ (4e) scalar hyper-parameters on multi-element values

def sweep_prior_broadcast(ctx, rng):
    """Every scalar prior family with SCALAR hyper-parameters evaluated on values with d > 1 trailing elements (ARD) and
    batch dimensions: the log density is that of the product of the one-dimensional densities (theorems
    `gen_smoothed_box_broadcast`, `prior_normalised_broadcast` for the regenerated SmoothedBox)."""
    import torch
    import gpytorch
    lean_lines, lean_recs = [], []
    fams = _prior_families()
    K = gpytorch.kernels
    reps = 2 if ctx.quick else 10
    for fname, fam in fams.items():
        for rep in range(reps):
            h = fam["draw"](rng)
            d = rng.choice([2, 3, 5])
            shape = rng.choice([(d,), (1, d), (2, 1, d), (3, d)])
            n = 1
            for z in shape:
                n *= z
            vals = [float(fam["point"](rng, h)) for _ in range(n)]
            x = torch.tensor(vals, dtype=torch.float64).reshape(shape)
            pr = fam["build"](h)
            rp = {"kind": "prior-broadcast", "prior": fname, "h": h, "shape": list(shape), "values": vals}
            ctx.case(f"PB:{fname}:shape{len(shape)}d{d}", sample={"prior": fname, "h": h, "shape": list(shape)})
            ok = run_prior_broadcast_case(ctx, fname, h, list(shape), vals)
            if ok and fname == "SmoothedBoxPrior":
                lp = pr.log_prob(x).reshape(-1).tolist()
                rows = x.reshape(-1, d).tolist()
                for row, got in zip(rows, lp):
                    lean_lines.append(f"P sboxvec {bits(h[0])} {bits(h[1])} {bits(h[2])} " + " ".join(bits(z) for z in row))
                    lean_recs.append(("SmoothedBoxPrior", got, dict(rp, row=row)))
            # the same through a registration on an ARD / batched kernel
            if fname not in ("UniformPrior",):
                bs = rng.choice([(), (2,)])
                with warnings.catch_warnings():
                    warnings.simplefilter("ignore")
                    k = K.RBFKernel(ard_num_dims=d, batch_shape=torch.Size(bs), lengthscale_prior=fam["build"](h)).double()
                ls = torch.tensor([abs(float(fam["point"](rng, h))) + 1e-3 for _ in range(d * (2 if bs else 1))],
                                  dtype=torch.float64).reshape(*bs, 1, d)
                try:
                    k.lengthscale = ls
                except Exception:
                    continue
                ctx.case(f"PB:{fname}:registered:ard{d}:batch{len(bs)}")
                tot = sum(p_.log_prob(cl(m_)).sum().item() for _, m_, p_, cl, _ in k.named_priors())
                want = sum(float(fam["ref"](h, z)) for z in k.lengthscale.detach().reshape(-1).tolist())
                if not abs(tot - want) <= 1e-9 * (1 + abs(want)):
                    ctx.fail(f"prior:{fname}/broadcast-product-density", f"{fname}{tuple(h)} registered on an ARD lengthscale of shape "
                             f"{list(ls.shape)}: Σ log_prob(closure(module)) = {tot!r}; the product of the {ls.numel()} one-dimensional "
                             f"densities gives {want!r}", dict(rp, registered=True, lengthscale=ls.reshape(-1).tolist(), batch=list(bs)))
    return lean_lines, lean_recs


def run_prior_broadcast_case(ctx, fname, h, shape, vals):
    import torch
    fam = _prior_families()[fname]
    pr = fam["build"](h)
    x = torch.tensor(vals, dtype=torch.float64).reshape(shape)
    lp = pr.log_prob(x)
    ref = torch.tensor([float(fam["ref"](h, z)) for z in vals], dtype=torch.float64).reshape(shape)
    rp = {"kind": "prior-broadcast", "prior": fname, "h": h, "shape": list(shape), "values": vals}
    if tuple(lp.shape) == tuple(shape):
        good = torch.allclose(lp, ref, rtol=1e-9, atol=1e-10)
    elif tuple(lp.shape) == tuple(shape[:-1]):
        good = torch.allclose(lp, ref.sum(-1), rtol=1e-9, atol=1e-10)      # the family reduces over the event dimension
    else:
        good = False
    if not good or not abs(lp.sum().item() - ref.sum().item()) <= 1e-9 * (1 + abs(ref.sum().item())):
        ctx.fail(f"prior:{fname}/broadcast-product-density", f"{fname}{tuple(h)} (scalar hyper-parameters) on a value of shape {list(shape)}: "
                 f"log_prob = {lp.reshape(-1)[:4].tolist()} (shape {list(lp.shape)}), total {lp.sum().item()!r}; the product of the "
                 f"{len(vals)} one-dimensional densities has log {ref.sum().item()!r}", rp)
        return False
    return True


# ------------------------------------------------------------------ (4f) priors registered by parameter name, through copies

def _copy_scenarios():
    """name -> builder(prior) -> (root, dotted path of the module owning the registration, prior name).  All registrations
    use the string form `register_prior(name, prior, "param")` (user modules and the library classes that use it)."""
    import torch
    import gpytorch
    K, L, M = gpytorch.kernels, gpytorch.likelihoods, gpytorch.means

    class _User(gpytorch.Module):
        def __init__(self, prior):
            super().__init__()
            self.register_parameter("foo", torch.nn.Parameter(torch.tensor([0.7, 1.1], dtype=torch.float64)))
            self.register_prior("foo_prior", prior, "foo")

    def kernel_named(prior):
        k = K.RBFKernel()
        k.register_prior("ls_prior", prior, "lengthscale")      # name of a constrained public property
        return k, "", "ls_prior"

    def nested(prior):
        k = K.RBFKernel()
        k.register_prior("ls_prior", prior, "lengthscale")
        return K.ScaleKernel(k), "base_kernel", "ls_prior"

    class _GP(gpytorch.models.ExactGP):
        def __init__(self, covar):
            x = torch.linspace(0, 1, 5, dtype=torch.float64).unsqueeze(-1)
            super().__init__(x, torch.sin(3 * x.squeeze(-1)), L.GaussianLikelihood())
            self.mean_module = M.ZeroMean()
            self.covar_module = covar

        def forward(self, x):
            return gpytorch.distributions.MultivariateNormal(self.mean_module(x), self.covar_module(x))

    def model(prior):
        k = K.MaternKernel()
        k.register_prior("ls_prior", prior, "lengthscale")
        return _GP(K.ScaleKernel(k)), "covar_module.base_kernel", "ls_prior"

    def latent(prior):
        from gpytorch.models.gplvm.latent_variable import MAPLatentVariable
        return MAPLatentVariable(3, 2, torch.nn.Parameter(torch.full((3, 2), 0.6, dtype=torch.float64)), prior), "", "prior_x"
    return {
        "user-module(parameter)": lambda p: (_User(p), "", "foo_prior"),
        "RBFKernel(property name)": kernel_named,
        "ScaleKernel(RBFKernel(property name))": nested,
        "ExactGP(Scale(Matern(property name)))": model,
        "ConstantMeanGrad(prior=)": lambda p: (M.ConstantMeanGrad(prior=p), "", "mean_prior"),
        "ConstantMeanGradGrad(prior=)": lambda p: (M.ConstantMeanGradGrad(prior=p), "", "mean_prior"),
        "SoftmaxLikelihood(mixing_weights_prior=)": lambda p: (L.SoftmaxLikelihood(num_features=3, num_classes=2, mixing_weights_prior=p),
                                                              "", "mixing_weights_prior"),
        "MAPLatentVariable(prior_x)": latent,
    }


COPY_HOWS = ["deepcopy", "to_random_module", "pickle", "get_fantasy_model"]


def run_prior_copy_case(ctx, sname, how, a, b, v_orig, v_copy, seed):
    """build -> copy -> change the copy (setting closure, sample_from_prior) / change the original: the prior term and the
    closures of each object follow only its own module."""
    import copy
    import pickle
    import scipy.stats as st
    import torch
    from gpytorch import priors as P
    mk = _copy_scenarios()[sname]
    with warnings.catch_warnings():
        warnings.simplefilter("ignore")
        root, mpath, pname = mk(P.GammaPrior(a, b) if "Mean" not in sname and "Softmax" not in sname and "Latent" not in sname
                                else P.NormalPrior(a, b))
    root = root.double()
    gamma = isinstance(getattr(_get_path(root, mpath) if mpath else root, pname), P.GammaPrior)
    ref = (lambda z: st.gamma.logpdf(z, a, scale=1 / b)) if gamma else (lambda z: st.norm.logpdf(z, a, b))
    rp = {"kind": "prior-copy", "scenario": sname, "how": how, "a": a, "b": b, "v_orig": v_orig, "v_copy": v_copy, "seed": seed}
    key = f"prior-copy:{sname}:{how}"
    owner = lambda r: (_get_path(r, mpath) if mpath else r)
    reg = lambda r: owner(r)._priors[pname]                      # (prior, closure, setting closure)
    read = lambda r: reg(r)[1](owner(r)).detach().clone()
    term = lambda r: reg(r)[0].log_prob(reg(r)[1](owner(r))).sum().item()
    want = lambda r, v: float(ref(v)) * read(r).numel()
    full = lambda r, v: torch.full_like(read(r), v)
    reg(root)[2](owner(root), full(root, v_orig))
    if how == "deepcopy":
        cp = copy.deepcopy(root)
    elif how == "to_random_module":
        cp = root.to_random_module()
    elif how == "pickle":
        try:
            cp = pickle.loads(pickle.dumps(root))
        except Exception:
            ctx.count("prior_copy_unpicklable")       # closures generated inside register_prior (C18 known finding)
            return True
    else:
        if not hasattr(root, "get_fantasy_model"):
            return True
        root.eval()
        with torch.no_grad():
            root(torch.tensor([[0.3]], dtype=torch.float64))
            cp = root.get_fantasy_model(torch.tensor([[0.5]], dtype=torch.float64), torch.tensor([0.1], dtype=torch.float64))

    def both(stage, vo, vc):
        for who, r, v in (("original", root, vo), ("copy", cp, vc)):
            got_v, got_t = read(r), term(r)
            if not torch.allclose(got_v, full(r, v), rtol=1e-9, atol=1e-12):
                ctx.fail(key, f"{sname} / {how} / {stage}: the closure of `{pname}` called with the {who} returns {got_v.flatten()[:3].tolist()}; "
                         f"the {who}'s parameter is {v!r} (original {vo!r}, copy {vc!r})", rp)
                return False
            if not abs(got_t - want(r, v)) <= 1e-8 * (1 + abs(want(r, v))):
                ctx.fail(key, f"{sname} / {how} / {stage}: the prior term of the {who} is {got_t!r}; documented density at its own value {v!r} "
                         f"gives {want(r, v)!r} (original {vo!r}, copy {vc!r})", rp)
                return False
            for nm, m_, p_, cl, scl in r.named_priors():
                if p_ is reg(r)[0] and m_ is not owner(r):
                    ctx.fail(key, f"{sname} / {how}: named_priors() of the {who} yields a module that is not its own sub-module", rp)
                    return False
        return True
    if not both("after the copy", v_orig, v_orig):
        return False
    # change the copy through its own setting closure
    reg(cp)[2](owner(cp), full(cp, v_copy))
    if not both("after setting the copy", v_orig, v_copy):
        return False
    # sample_from_prior on the copy: the copy reads the drawn sample, the original is untouched
    torch.manual_seed(seed)
    expect = reg(cp)[0].sample()
    torch.manual_seed(seed)
    owner(cp).sample_from_prior(pname)
    got_c, got_o = read(cp), read(root)
    exp_b = expect.expand_as(got_c) if expect.numel() == 1 or expect.shape == got_c.shape else expect
    if exp_b.shape != got_c.shape or not torch.allclose(got_c, exp_b.to(got_c), rtol=1e-9, atol=1e-12) \
            or not torch.allclose(got_o, full(root, v_orig), rtol=1e-9, atol=1e-12):
        ctx.fail(key, f"{sname} / {how}: copy.sample_from_prior(`{pname}`) drew {expect.flatten()[:2].tolist()}; the copy reads "
                 f"{got_c.flatten()[:2].tolist()}, the original reads {got_o.flatten()[:2].tolist()} (was {v_orig!r})", rp)
        return False
    # and the other way round: changing the original does not move the copy
    before = read(cp)
    reg(root)[2](owner(root), full(root, v_copy * 0.5 + 0.1))
    if not torch.equal(read(cp), before):
        ctx.fail(key, f"{sname} / {how}: setting the ORIGINAL through its setting closure moved the copy", rp)
        return False
    return True


def sweep_prior_copies(ctx, rng):
    reps = 1 if ctx.quick else 5
    for sname in _copy_scenarios():
        for how in COPY_HOWS:
            for rep in range(reps):
                a, b = _dyadic(rng, 1.5, 4), _dyadic(rng, 1, 3)
                v_orig, v_copy = rng.uniform(0.4, 0.9), rng.uniform(1.1, 1.8)
                seed = rng.torch_seed()
                ctx.case(f"PC:{sname}:{how}", sample={"scenario": sname, "how": how})
                ctx.count("prior_copy_cases")
                try:
                    run_prior_copy_case(ctx, sname, how, a, b, v_orig, v_copy, seed)
                except Exception:
                    import traceback
                    ctx.broke("correspondence", f"prior-copy:{sname}:{how}", traceback.format_exc())


# ------------------------------------------------------------------ (4) priors

def documented_smoothed_box_denominator():
    """Parses the density documented in SmoothedBoxPrior's docstring:  pdf(x) ~ exp(- d(x, B)**2 / <den>).
    Returns a function sigma -> denominator.  Vocabulary: `sqrt(2 * sigma^2)` | `(2 * sigma^2)`."""
    from gpytorch.priors import SmoothedBoxPrior
    doc = SmoothedBoxPrior.__doc__ or ""
    m = re.search(r"pdf\(x\)\s*\\sim\s*exp\(\s*-\s*d\(x,\s*B\)\*\*2\s*/\s*(.+?)\)\s*$", doc, flags=re.M)
    if not m:
        raise RuntimeError("SmoothedBoxPrior docstring: density formula not found")
    den = m.group(1).replace(" ", "")
    if den == "sqrt(2*sigma^2)":
        return "sqrt(2*sigma^2)", (lambda s: math.sqrt(2 * s * s))
    if den in ("(2*sigma^2)", "(2*sigma**2)"):
        return "(2*sigma^2)", (lambda s: 2 * s * s)
    raise RuntimeError(f"SmoothedBoxPrior docstring: denominator `{den}` outside the vocabulary")


def randcorr(rng, n):
    import torch
    A = torch.tensor([[rng.gauss(0, 1) for _ in range(n + 2)] for _ in range(n)], dtype=torch.float64)
    S = A @ A.T
    d = S.diagonal().sqrt()
    return S / d[:, None] / d[None, :]


def sweep_priors(ctx):
    import numpy as np
    import scipy.integrate as si
    import scipy.special as sp
    import scipy.stats as st
    import torch
    import gpytorch
    from gpytorch import priors as P
    rng = ctx.rng("priors")
    torch.manual_seed(rng.torch_seed())
    lean_lines, lean_recs = [], []
    covered = set()
    npts = 8 if ctx.quick else 60
    nrep = 3 if ctx.quick else 12
    t = lambda v: torch.tensor(v, dtype=torch.float64)

    def cmp(key, what, got, want, rp, rtol=1e-9, atol=1e-10):
        ctx.case(f"P:{key}:{what}:{len(ctx.distinct) % 50}")
        if not (abs(got - want) <= atol + rtol * abs(want)):
            ctx.fail(f"prior:{key}/{what}", f"{key}: {what}: implementation {got!r} vs reference {want!r}", rp)

    def normalised(key, f, lo, hi, rp, pts=None):
        val, err = si.quad(f, lo, hi, points=pts, limit=400, epsabs=1e-11, epsrel=1e-11)
        ctx.case(f"P:{key}:normalisation")
        ctx.count("normalisation_integrals")
        if not abs(val - 1.0) <= 1e-6 + 10 * err:
            ctx.fail(f"prior:{key}/normalisation", f"{key}: ∫ exp(log_prob) = {val!r} (quad error {err:.1e}), claimed a "
                     "probability density", rp)

    for _ in range(nrep):
        mu, sg = rng.uniform(-3, 3), 10 ** rng.uniform(-1.5, 1)
        a, b = 10 ** rng.uniform(-0.5, 1), 10 ** rng.uniform(-1, 1)
        lo = rng.uniform(-3, 3)
        hi = lo + 10 ** rng.uniform(-1, 1)
        sc = 10 ** rng.uniform(-1, 1)
        lp = lambda pr, x: pr.log_prob(t(x)).item()

        def outside(pr, x):
            """log density outside the support: -inf, or the argument validation rejects the point."""
            try:
                return pr.log_prob(t(x)).item() == -math.inf
            except ValueError:
                return True
        # Normal
        pr = P.NormalPrior(mu, sg)
        covered.add("NormalPrior")
        for _i in range(npts):
            x = mu + sg * rng.gauss(0, 3)
            rp = {"kind": "prior", "prior": "NormalPrior", "params": [mu, sg], "x": x}
            cmp("NormalPrior", "log_prob", lp(pr, x), st.norm.logpdf(x, mu, sg), rp)
            lean_lines.append(f"P normal {bits(mu)} {bits(sg)} {bits(x)}")
            lean_recs.append(("NormalPrior", lp(pr, x), rp))
        normalised("NormalPrior", lambda x: math.exp(lp(pr, x)), mu - 40 * sg, mu + 40 * sg, {"prior": "NormalPrior", "params": [mu, sg]}, [mu])
        # HalfNormal
        pr = P.HalfNormalPrior(sg)
        covered.add("HalfNormalPrior")
        for _i in range(npts):
            x = abs(sg * rng.gauss(0, 2))
            rp = {"kind": "prior", "prior": "HalfNormalPrior", "params": [sg], "x": x}
            cmp("HalfNormalPrior", "log_prob", lp(pr, x), st.halfnorm.logpdf(x, scale=sg), rp)
            lean_lines.append(f"P halfnormal {bits(sg)} {bits(x)}")
            lean_recs.append(("HalfNormalPrior", lp(pr, x), rp))
        if not outside(pr, -0.5):
            ctx.fail("prior:HalfNormalPrior/support", f"HalfNormalPrior({sg}).log_prob(-0.5) = {lp(pr, -0.5)} (documented 0 density for x<0)",
                     {"kind": "prior", "prior": "HalfNormalPrior", "params": [sg], "x": -0.5})
        normalised("HalfNormalPrior", lambda x: math.exp(lp(pr, x)), 0, 40 * sg, {"prior": "HalfNormalPrior", "params": [sg]})
        # LogNormal
        s2 = min(sg, 1.5)
        pr = P.LogNormalPrior(mu, s2)
        covered.add("LogNormalPrior")
        for _i in range(npts):
            x = math.exp(mu + s2 * rng.gauss(0, 2))
            rp = {"kind": "prior", "prior": "LogNormalPrior", "params": [mu, s2], "x": x}
            cmp("LogNormalPrior", "log_prob", lp(pr, x), st.lognorm.logpdf(x, s2, scale=math.exp(mu)), rp)
            lean_lines.append(f"P lognormal {bits(mu)} {bits(s2)} {bits(x)}")
            lean_recs.append(("LogNormalPrior", lp(pr, x), rp))
        normalised("LogNormalPrior", lambda z: math.exp(lp(pr, math.exp(z)) + z), mu - 40 * s2, mu + 40 * s2,
                   {"prior": "LogNormalPrior", "params": [mu, s2]}, [mu])
        # Uniform
        pr = P.UniformPrior(lo, hi)
        covered.add("UniformPrior")
        for _i in range(npts):
            x = rng.uniform(lo, hi)
            rp = {"kind": "prior", "prior": "UniformPrior", "params": [lo, hi], "x": x}
            cmp("UniformPrior", "log_prob", lp(pr, x), st.uniform.logpdf(x, lo, hi - lo), rp)
            lean_lines.append(f"P uniform {bits(lo)} {bits(hi)}")
            lean_recs.append(("UniformPrior", lp(pr, x), rp))
        for x in (lo - 0.1, hi + 0.1):
            if not outside(pr, x):
                ctx.fail("prior:UniformPrior/support", f"UniformPrior({lo},{hi}).log_prob({x}) = {lp(pr, x)}",
                         {"kind": "prior", "prior": "UniformPrior", "params": [lo, hi], "x": x})
        # HalfCauchy
        pr = P.HalfCauchyPrior(sc)
        covered.add("HalfCauchyPrior")
        for _i in range(npts):
            x = abs(sc * math.tan(rng.uniform(0, 1.5)))
            rp = {"kind": "prior", "prior": "HalfCauchyPrior", "params": [sc], "x": x}
            cmp("HalfCauchyPrior", "log_prob", lp(pr, x), st.halfcauchy.logpdf(x, scale=sc), rp)
            lean_lines.append(f"P halfcauchy {bits(sc)} {bits(x)}")
            lean_recs.append(("HalfCauchyPrior", lp(pr, x), rp))
        normalised("HalfCauchyPrior", lambda z: math.exp(lp(pr, sc * math.tan(z))) * sc / math.cos(z) ** 2, 0, math.pi / 2,
                   {"prior": "HalfCauchyPrior", "params": [sc]})
        # Gamma
        pr = P.GammaPrior(a, b)
        covered.add("GammaPrior")
        for _i in range(npts):
            x = st.gamma.ppf(rng.uniform(0.001, 0.999), a, scale=1 / b)
            rp = {"kind": "prior", "prior": "GammaPrior", "params": [a, b], "x": x}
            cmp("GammaPrior", "log_prob", lp(pr, x), st.gamma.logpdf(x, a, scale=1 / b), rp)
            lean_lines.append(f"P gamma {bits(a)} {bits(b)} {bits(sp.gammaln(a))} {bits(x)}")
            lean_recs.append(("GammaPrior", lp(pr, x), rp))
        normalised("GammaPrior", lambda z: math.exp(lp(pr, math.exp(z)) + z), -80, math.log(st.gamma.ppf(1 - 1e-15, a, scale=1 / b)) + 3,
                   {"prior": "GammaPrior", "params": [a, b]}, [math.log(a / b)])
        # SmoothedBox
        sgb = 10 ** rng.uniform(-2, 0)
        pr = P.SmoothedBoxPrior(lo, hi, sigma=sgb)
        covered.add("SmoothedBoxPrior")
        docname, docden = documented_smoothed_box_denominator()
        xin = rng.uniform(lo, hi)
        for _i in range(npts):
            x = rng.choice([rng.uniform(lo, hi), lo - sgb * abs(rng.gauss(0, 2)), hi + sgb * abs(rng.gauss(0, 2))])
            rp = {"kind": "prior", "prior": "SmoothedBoxPrior", "params": [lo, hi, sgb], "x": x}
            d = max(lo - x, x - hi, 0.0)
            ref = st.norm.logpdf(d, 0, sgb) - math.log1p((hi - lo) / (math.sqrt(2 * math.pi) * sgb))
            cmp("SmoothedBoxPrior", "log_prob", lp(pr, [x]), ref, rp)
            # documented (unnormalised) density: log pdf(x) - log pdf(x_in) = -d^2/<den>
            cmp("SmoothedBoxPrior", "documented-density", lp(pr, [x]) - lp(pr, [xin]), -d * d / docden(sgb),
                dict(rp, documented=f"pdf(x) ~ exp(-d(x,B)**2 / {docname})", x_inside=xin), rtol=1e-7, atol=1e-9)
            lean_lines.append(f"P sbox {bits(lo)} {bits(hi)} {bits(sgb)} {bits(x)}")
            lean_recs.append(("SmoothedBoxPrior", lp(pr, [x]), rp))
        normalised("SmoothedBoxPrior", lambda x: math.exp(lp(pr, [x])), lo - 40 * sgb, hi + 40 * sgb,
                   {"prior": "SmoothedBoxPrior", "params": [lo, hi, sgb]}, [lo, hi])
        # Horseshoe (documented: approximate, unnormalised)
        pr = P.HorseshoePrior(sc)
        covered.add("HorseshoePrior")
        for _i in range(npts):
            x = rng.choice([-1, 1]) * sc * 10 ** rng.uniform(-2, 2)
            rp = {"kind": "prior", "prior": "HorseshoePrior", "params": [sc], "x": x}
            Kc = 1 / math.sqrt(2 * math.pi ** 3)
            A = (sc / x) ** 2
            ref = math.log((Kc / 2 * math.log1p(4 * A) + Kc * math.log1p(2 * A)) / 2)
            cmp("HorseshoePrior", "documented-density", lp(pr, x), ref, rp)
            lean_lines.append(f"P horseshoe {bits(sc)} {bits(x)}")
            lean_recs.append(("HorseshoePrior", lp(pr, x), rp))
        # Multivariate normal
        d = rng.choice([2, 3])
        A = torch.tensor([[rng.gauss(0, 1) for _ in range(d)] for _ in range(d)], dtype=torch.float64)
        cov = A @ A.T + 0.5 * torch.eye(d, dtype=torch.float64)
        loc = t([rng.uniform(-1, 1) for _ in range(d)])
        pr = P.MultivariateNormalPrior(loc, covariance_matrix=cov)
        covered.add("MultivariateNormalPrior")
        for _i in range(npts):
            x = [rng.gauss(0, 2) for _ in range(d)]
            rp = {"kind": "prior", "prior": "MultivariateNormalPrior", "params": [loc.tolist(), cov.tolist()], "x": x}
            cmp("MultivariateNormalPrior", "log_prob", pr.log_prob(t(x)).item(),
                st.multivariate_normal.logpdf(np.array(x), loc.numpy(), cov.numpy()), rp, rtol=1e-8)
        # LKJ family: documented  pdf(Sigma) ~ |Sigma|^(eta-1)
        for n in (2, 3, 4):
            eta = rng.choice([0.5, 1.0, 1.5, 2.5, rng.uniform(0.3, 4)])
            pr = P.LKJPrior(n, eta)
            covered.add("LKJPrior")
            S0 = randcorr(rng, n)
            for _i in range(max(2, npts // 3)):
                S1 = randcorr(rng, n)
                got = (pr.log_prob(S1) - pr.log_prob(S0)).item()
                want = (eta - 1) * (torch.logdet(S1) - torch.logdet(S0)).item()
                rp = {"kind": "prior", "prior": "LKJPrior", "params": [n, eta], "S0": S0.tolist(), "S1": S1.tolist(),
                      "documented": "pdf(Sigma) ~ |Sigma|^(eta-1)"}
                ctx.case(f"P:LKJPrior:n{n}:documented-density")
                if not abs(got - want) <= 1e-8 * (1 + abs(want)):
                    ctx.fail(f"prior:LKJPrior/documented-density/n>=3" if n >= 3 else "prior:LKJPrior/documented-density/n=2",
                             f"LKJPrior(n={n}, eta={eta}): log_prob(S1) - log_prob(S0) = {got!r} but the documented density "
                             f"|Sigma|^(eta-1) gives {want!r}", rp)
            # identity matrix: Cholesky factor and Jacobian are trivial, so both priors must agree there
            eye = torch.eye(n, dtype=torch.float64)
            ctx.case(f"P:LKJPrior:n{n}:identity")
            li, lc = pr.log_prob(eye).item(), P.LKJCholeskyFactorPrior(n, eta).log_prob(eye).item()
            if not abs(li - lc) <= 1e-10 * (1 + abs(lc)):
                ctx.fail("prior:LKJPrior/identity", f"LKJPrior(n={n}, eta={eta}).log_prob(I) = {li!r} but the LKJ-Cholesky density at "
                         f"L = I is {lc!r}", {"kind": "prior", "prior": "LKJPrior", "params": [n, eta], "S": "identity"})
            # Cholesky-factor prior against the LKJ-Cholesky density  prod_i L_ii^(n - i + 2 eta - 2)
            prc = P.LKJCholeskyFactorPrior(n, eta)
            covered.add("LKJCholeskyFactorPrior")
            L0 = torch.linalg.cholesky(S0)
            for _i in range(2):
                L1 = torch.linalg.cholesky(randcorr(rng, n))
                got = (prc.log_prob(L1) - prc.log_prob(L0)).item()
                order = torch.arange(2, n + 1, dtype=torch.float64)
                expo = n - order + 2 * eta - 2
                want = (expo * (L1.diagonal()[1:].log() - L0.diagonal()[1:].log())).sum().item()
                cmp("LKJCholeskyFactorPrior", "lkj-cholesky-density", got, want,
                    {"kind": "prior", "prior": "LKJCholeskyFactorPrior", "params": [n, eta]}, rtol=1e-8, atol=1e-9)
        # LKJ n=2: density of the single correlation r integrates to one
        eta = rng.choice([1.0, 1.5, 2.5])
        pr = P.LKJPrior(2, eta)
        normalised("LKJPrior(n=2)", lambda r: math.exp(pr.log_prob(t([[1.0, r], [r, 1.0]])).item()), -1 + 1e-12, 1 - 1e-12,
                   {"prior": "LKJPrior", "params": [2, eta]})
        # LKJCovariancePrior = LKJ on the correlations + sd prior on the marginal standard deviations
        sdp = P.SmoothedBoxPrior(math.exp(-1), math.exp(1), sigma=0.1)   # event_shape [1]: log_prob sums over the sds
        prc = P.LKJCovariancePrior(2, eta, sdp)
        covered.add("LKJCovariancePrior")
        S = randcorr(rng, 2)
        sd = t([rng.uniform(0.5, 2), rng.uniform(0.5, 2)])
        Cov = sd[:, None] * S * sd[None, :]
        cmp("LKJCovariancePrior", "log_prob", prc.log_prob(Cov).sum().item(),
            (pr.log_prob(S) + sdp.log_prob(sd).sum()).item() if sdp.log_prob(sd).numel() > 1 else (pr.log_prob(S) + sdp.log_prob(sd)).sum().item(),
            {"kind": "prior", "prior": "LKJCovariancePrior", "params": [2, eta]}, rtol=1e-8)

    missing = [n for n in P.__all__ if n not in covered and n != "Prior"]
    ctx.notes["prior_classes_covered"] = sorted(covered)
    if missing:
        ctx.broke("correspondence", "prior-classes", f"prior classes without a reference check: {missing}")

    # --- closures / sample_from_prior on every module that takes *_prior arguments
    sweep_prior_closures(ctx, rng)
    # --- one Prior instance shared by several registrations
    sweep_shared_priors(ctx, rng)
    return lean_lines, lean_recs


def sweep_prior_closures(ctx, rng):
    import torch
    import gpytorch
    from gpytorch import priors as P
    tested, skipped = [], {}
    for modname, n, cls in module_classes():
        if cls is None:
            continue
        try:
            sig = inspect.signature(cls.__init__)
        except (TypeError, ValueError):
            continue
        pnames = [p for p in sig.parameters if p.endswith("_prior")]
        if issubclass(cls, gpytorch.kernels.Kernel) and "lengthscale_prior" not in pnames and any(
                p.kind == p.VAR_KEYWORD for p in sig.parameters.values()):
            pnames.append("lengthscale_prior")
        for pa in pnames:
            if pa in ("task_covar_prior", "task_prior", "task_correlation_prior", "mixing_weights_prior", "angular_weights_prior"):
                skipped[f"{n}.{pa}"] = "matrix-/vector-valued prior (closure is not a constrained scalar parameter)"
                continue
            a, b = rng.uniform(1.5, 4), rng.uniform(1, 4)
            prior = rng.choice([lambda: P.GammaPrior(a, b), lambda: P.LogNormalPrior(0.2, 0.4), lambda: P.UniformPrior(0.6, 1.4)])()
            if pa in ("angle_prior", "radius_prior"):
                prior = P.UniformPrior(0.2, 0.8)
            if pa == "deg_free_prior":
                prior = P.UniformPrior(3.0, 9.0)
            m, why = construct(cls, {pa: prior})
            if m is None:
                skipped[f"{n}.{pa}"] = why
                continue
            found = [(pn, mod, pr, cl, scl) for pn, mod, pr, cl, scl in m.named_priors() if pr is prior]
            if not found:
                skipped[f"{n}.{pa}"] = "prior not registered (feature switched off for this configuration)"
                continue
            tested.append(f"{n}.{pa}")
            for pn, mod, pr, closure, setting_closure in found:
                short = pn.split(".")[-1]
                base = {"kind": "closure", "module": n, "prior_arg": pa}
                ctx.case(f"C:{n}.{pa}:closure")
                val = closure(mod).detach()
                pub = short[: -len("_prior")]
                if not pub.startswith("raw_") and isinstance(getattr(type(mod), pub, None), property):
                    direct = getattr(mod, pub).detach()
                    if direct.shape != val.shape or not torch.equal(direct, val):
                        ctx.fail(f"closure:{n}.{pa}", f"{n}: closure of {short} returns {val.flatten()[:3].tolist()} but "
                                 f"module.{pub} reads {direct.flatten()[:3].tolist()}", base)
                if setting_closure is None:
                    ctx.count("priors_without_setting_closure")
                    continue
                # setting closure stores a value so that reading returns it
                target = torch.where(val != 0, val * rng.uniform(0.95, 1.05), torch.full_like(val, 0.1))
                ctx.case(f"C:{n}.{pa}:setting-closure")
                try:
                    setting_closure(mod, target)
                    got = closure(mod).detach()
                    if not torch.allclose(got, target, rtol=1e-9, atol=1e-12):
                        ctx.fail(f"closure:{n}.{pa}", f"{n}: setting closure of {short} with {target.flatten()[0].item()} then "
                                 f"reading gives {got.flatten()[:3].tolist()}", dict(base, value=target.flatten()[0].item()))
                except Exception as e:
                    ctx.fail(f"closure:{n}.{pa}", f"{n}: setting closure of {short} raised {type(e).__name__}: {str(e)[:100]}", base)
                # sample_from_prior: reading returns the sample that was drawn
                for rep in range(3):
                    seed = rng.torch_seed()
                    torch.manual_seed(seed)
                    expect = pr.sample()
                    torch.manual_seed(seed)
                    ctx.case(f"C:{n}.{pa}:sample_from_prior")
                    try:
                        mod.sample_from_prior(short)
                    except Exception as e:
                        ctx.fail(f"sample:{n}.{pa}", f"{n}.sample_from_prior({short!r}) raised {type(e).__name__}: {str(e)[:100]}",
                                 dict(base, seed=seed))
                        break
                    got = closure(mod).detach()
                    exp_b = expect.expand_as(got) if expect.numel() == 1 or expect.shape == got.shape else expect
                    if exp_b.shape != got.shape or not torch.allclose(got, exp_b, rtol=1e-9, atol=1e-12):
                        ctx.fail(f"sample:{n}.{pa}", f"{n}.sample_from_prior({short!r}) drew {expect.flatten()[:3].tolist()} "
                                 f"but the parameter reads {got.flatten()[:3].tolist()}", dict(base, seed=seed))
                    # the prior evaluates the density of the constrained value
                    lpv = pr.log_prob(closure(mod)).detach()
                    lpr = pr.log_prob(got).detach()
                    if not torch.equal(lpv, lpr):
                        ctx.fail(f"closure:{n}.{pa}", f"{n}: log_prob(closure(module)) differs from log_prob(read value)", base)
    ctx.notes["prior_closures_tested"] = tested
    ctx.notes["prior_closures_skipped"] = skipped



def sweep_shared_priors(ctx, rng):
    """ONE Prior instance registered 2–3 times (same module / two kernels of a sum / kernel + likelihood of a model):
    `named_priors()` must enumerate every registration with its own closure; the summed log-density over the
    enumeration equals the sum over registrations; setting closures and `sample_from_prior` work per registration;
    the exact MLL (a consumer of named_priors) adds every registration's term."""
    import scipy.stats as st
    import torch
    import gpytorch
    from gpytorch import priors as P
    K, L = gpytorch.kernels, gpytorch.likelihoods

    class _GP(gpytorch.models.ExactGP):
        def __init__(self, x, y, lik, covar):
            super().__init__(x, y, lik)
            self.mean_module = gpytorch.means.ZeroMean()
            self.covar_module = covar

        def forward(self, x):
            return gpytorch.distributions.MultivariateNormal(self.mean_module(x), self.covar_module(x))

    x = torch.linspace(0, 1, 6, dtype=torch.float64).unsqueeze(-1)
    y = torch.sin(4 * x.squeeze(-1))

    def scenarios(pr):
        yield "same-module:PeriodicKernel(lengthscale,period_length)", lambda p: K.PeriodicKernel(lengthscale_prior=p, period_length_prior=p), None
        yield "two-kernels-of-a-sum:RBF+Matern", lambda p: K.RBFKernel(lengthscale_prior=p) + K.MaternKernel(lengthscale_prior=p), None
        yield "nested:ScaleKernel(outputscale)+base(lengthscale)", lambda p: K.ScaleKernel(K.RBFKernel(lengthscale_prior=p), outputscale_prior=p), None
        yield "product:Cosine(period)*RQ(lengthscale)", lambda p: K.CosineKernel(period_length_prior=p) * K.RQKernel(lengthscale_prior=p), None
        yield ("model:kernel+likelihood(3 registrations)",
               lambda p: _GP(x, y, L.GaussianLikelihood(noise_prior=p), K.ScaleKernel(K.RBFKernel(lengthscale_prior=p), outputscale_prior=p)),
               lambda: _GP(x, y, L.GaussianLikelihood(), K.ScaleKernel(K.RBFKernel())))
        yield ("model:likelihood+two-summands",
               lambda p: _GP(x, y, L.GaussianLikelihood(noise_prior=p), K.RBFKernel(lengthscale_prior=p) + K.LinearKernel(variance_prior=p)),
               lambda: _GP(x, y, L.GaussianLikelihood(), K.RBFKernel() + K.LinearKernel()))

    for rep in range(1 if ctx.quick else 4):
        a, b = rng.uniform(2.0, 4.0), rng.uniform(1.0, 3.0)
        for sname, mk, mk_plain in scenarios(None):
            prior = P.GammaPrior(a, b)
            with warnings.catch_warnings():
                warnings.simplefilter("ignore")
                m = mk(prior).double()
            rp = {"kind": "shared-prior", "scenario": sname, "prior": ["GammaPrior", a, b]}
            # registrations, found without named_priors: every distinct module's own _priors table
            regs = []
            for mname, mod in m.named_modules():
                for pname, (pr, closure, scl) in getattr(mod, "_priors", {}).items():
                    regs.append(((mname + "." if mname else "") + pname, mod, pr, closure, scl))
            shared = [r for r in regs if r[2] is prior]
            ctx.case(f"S:{sname}:enumeration", sample={"scenario": sname, "registrations": [r[0] for r in regs]})
            if len(shared) < 2:
                ctx.broke("correspondence", f"shared-prior:{sname}", f"scenario registers the shared prior only {len(shared)} time(s)")
                continue
            # give every registered parameter its own value (through the registration's setting closure)
            vals = {}
            for name, mod, pr, closure, scl in regs:
                v = rng.uniform(0.4, 1.6)
                ctx.case(f"S:{sname}:setting-closure:{name}")
                try:
                    scl(mod, torch.full_like(closure(mod).detach(), v))
                    got = closure(mod).detach()
                    if not torch.allclose(got, torch.full_like(got, v), rtol=1e-9):
                        ctx.fail("shared-prior:setting-closure", f"{sname}: setting closure of `{name}` with {v!r} then reading gives "
                                 f"{got.flatten()[:2].tolist()}", dict(rp, registration=name))
                except Exception as e:
                    ctx.fail("shared-prior:setting-closure", f"{sname}: setting closure of `{name}` raised {type(e).__name__}: "
                             f"{str(e)[:100]}", dict(rp, registration=name))
                vals[name] = v
            enum = list(m.named_priors())
            names_e, names_r = sorted(e[0] for e in enum), sorted(r[0] for r in regs)
            if names_e != names_r:
                ctx.fail("shared-prior:enumeration", f"{sname}: named_priors() yields {names_e} but the registrations are {names_r} "
                         "(one Prior instance is shared by several of them)", rp)
            byname = {r[0]: r for r in regs}
            for name, mod, pr, closure, scl in enum:
                r = byname.get(name)
                if r is None:
                    continue
                ctx.case(f"S:{sname}:closure:{name}")
                if mod is not r[1] or pr is not r[2] or closure is not r[3] or scl is not r[4]:
                    ctx.fail("shared-prior:closure", f"{sname}: named_priors() entry `{name}` does not carry that registration's own "
                             "module / prior / closure / setting closure", dict(rp, registration=name))
                val = closure(mod).detach()
                if not torch.allclose(val, torch.full_like(val, vals[name]), rtol=1e-9):
                    ctx.fail("shared-prior:closure", f"{sname}: closure of `{name}` returns {val.flatten()[:2].tolist()}, the parameter was "
                             f"set to {vals[name]!r}", dict(rp, registration=name))
            # summed log density: enumeration vs registrations vs scipy
            s_enum = sum(pr.log_prob(cl(mod)).sum().item() for _, mod, pr, cl, _ in enum)
            s_regs = sum(pr.log_prob(cl(mod)).sum().item() for _, mod, pr, cl, _ in regs)
            s_ref = sum(st.gamma.logpdf(vals[nm], a, scale=1 / b) * cl(mod).numel() for nm, mod, pr, cl, _ in regs)
            ctx.case(f"S:{sname}:sum")
            if not (abs(s_enum - s_regs) <= 1e-9 * (1 + abs(s_regs)) and abs(s_regs - s_ref) <= 1e-8 * (1 + abs(s_ref))):
                ctx.fail("shared-prior:sum", f"{sname}: sum of prior.log_prob(closure(module)) over named_priors() = {s_enum!r}; over the "
                         f"{len(regs)} registrations = {s_regs!r}; scipy reference {s_ref!r}", rp)
            # consumer: the exact MLL adds every registration's term
            if mk_plain is not None:
                with warnings.catch_warnings():
                    warnings.simplefilter("ignore")
                    plain = mk_plain().double()
                    sd = {k_: v_ for k_, v_ in m.state_dict().items() if k_ in plain.state_dict()}
                    plain.load_state_dict(sd, strict=False)
                    vals_mll = []
                    for mdl in (m, plain):
                        mdl.train()
                        mll = gpytorch.mlls.ExactMarginalLogLikelihood(mdl.likelihood, mdl)
                        with torch.no_grad():
                            vals_mll.append(mll(mdl(x), y).item())
                ctx.case(f"S:{sname}:mll")
                want = s_ref / y.numel()
                if not abs((vals_mll[0] - vals_mll[1]) - want) <= 1e-8 * (1 + abs(want)):
                    ctx.fail("shared-prior:mll", f"{sname}: ExactMarginalLogLikelihood with priors - without = "
                             f"{vals_mll[0] - vals_mll[1]!r}, the {len(regs)} registrations contribute {want!r} (sum of log densities / n)", rp)
            # sample_from_prior per registration
            for name, mod, pr, closure, scl in regs:
                short = name.split(".")[-1]
                seed = rng.torch_seed()
                torch.manual_seed(seed)
                expect = pr.sample()
                torch.manual_seed(seed)
                ctx.case(f"S:{sname}:sample:{name}")
                try:
                    mod.sample_from_prior(short)
                    got = closure(mod).detach()
                    if not torch.allclose(got, expect.expand_as(got).to(got), rtol=1e-9):
                        ctx.fail("shared-prior:sample", f"{sname}: sample_from_prior(`{name}`) drew {expect.flatten()[0].item()!r}, the "
                                 f"parameter reads {got.flatten()[:2].tolist()}", dict(rp, registration=name, seed=seed))
                except Exception as e:
                    ctx.fail("shared-prior:sample", f"{sname}: sample_from_prior(`{name}`) raised {type(e).__name__}: {str(e)[:100]}",
                             dict(rp, registration=name, seed=seed))
    ctx.count("shared_prior_scenarios", 6 * (1 if ctx.quick else 4))


def compare_lean_priors(ctx, recs, replies):
    bad = 0
    for (name, want, rp), rep in zip(recs, replies):
        try:
            got = unbits(rep)
        except Exception:
            ctx.broke("correspondence", f"driver:P:{name}", f"reply {rep!r}")
            return
        ctx.count("lean_prior_comparisons")
        if not abs(got - want) <= 1e-10 * (1 + abs(want)):
            bad += 1
            if bad <= 5:
                ctx.fail(f"prior:{name}/model", f"{name}: log_prob = {want!r}, modelled log density = {got!r}", rp)


def observation_initialize_float(ctx):
    """Design-phase note: initialize(raw_x=<python float>) on a constrained parameter raises TypeError.
    Recorded, not a violation of C17 (no bound is violated and nothing is stored)."""
    import gpytorch
    try:
        gpytorch.likelihoods.GaussianLikelihood().initialize(raw_noise=0.0)
        ctx.notes["initialize_raw_python_float"] = "accepted"
    except Exception as e:
        ctx.notes["initialize_raw_python_float"] = f"raises {type(e).__name__} (observation, outside the property text)"


def _guarded(ctx, name, fn, default):
    """A harness error inside one sweep is recorded as a broken tie; the other sweeps still run."""
    try:
        return fn()
    except Exception:
        import traceback
        ctx.broke("correspondence", f"harness-error:{name}", traceback.format_exc())
        return default


def correspondence(ctx, want_driver=True):
    import torch
    torch.set_num_threads(2)
    torch.set_default_dtype(torch.float64)
    E = ([], [])
    try:
        tl, tr = _guarded(ctx, "transforms", lambda: sweep_transforms(ctx), E)
        ml, mr = _guarded(ctx, "modules", lambda: sweep_modules(ctx), E)
        _guarded(ctx, "bound-changes", lambda: sweep_bound_changes(ctx, ctx.rng("bound-changes")), None)
        _guarded(ctx, "aliasing", lambda: sweep_aliasing(ctx, ctx.rng("aliasing")), None)
        _guarded(ctx, "initial-values", lambda: sweep_initial_values(ctx, ctx.rng("initial-values")), None)
        il, ir = _guarded(ctx, "multi-initialize", lambda: sweep_multi_initialize(ctx, ctx.rng("multi-initialize")), E)
        pl, pr = _guarded(ctx, "priors", lambda: sweep_priors(ctx), E)
        rl, rr = _guarded(ctx, "prior-reload", lambda: sweep_prior_reload(ctx, ctx.rng("prior-reload")), E)
        pl, pr = pl + rl, pr + rr
        bl, br = _guarded(ctx, "prior-broadcast", lambda: sweep_prior_broadcast(ctx, ctx.rng("prior-broadcast")), E)
        pl, pr = pl + bl, pr + br
        _guarded(ctx, "prior-copies", lambda: sweep_prior_copies(ctx, ctx.rng("prior-copies")), None)
        xl, xr = _guarded(ctx, "matrix-priors", lambda: sweep_matrix_priors(ctx, ctx.rng("matrix-priors")), E)
        observation_initialize_float(ctx)
        if want_driver and xl:
            _guarded(ctx, "driver:C17mat", lambda: compare_matrix_priors(ctx, xr, C.run_driver("C17mat", xl)), None)
        if want_driver:
            n1, n2, n3 = len(tl), len(ml), len(il)
            lines = tl + ml + il + pl   # one driver start for all streams
            if lines:
                replies = C.run_driver("C17", lines)
                compare_lean_transforms(ctx, tr, replies[:n1])
                compare_lean_histories(ctx, mr, replies[n1:n1 + n2])
                compare_lean_multi_init(ctx, ir, replies[n1 + n2:n1 + n2 + n3])
                compare_lean_priors(ctx, pr, replies[n1 + n2 + n3:])
    finally:
        torch.set_default_dtype(torch.float32)
    _state["ran"] = True


def search(ctx, broken):
    """A proof / the translator / the driver broke: the spec oracles of `correspondence` (bounds, monotone,
    round trip, setter, oob, histories, densities) run on the real code without the model."""
    if ctx.failures:
        return
    if not _state.get("ran"):
        correspondence(ctx, want_driver=False)


def replay(ctx, payload):
    import torch
    torch.set_default_dtype(torch.float64)
    case = payload["case"]
    k = case.get("kind")
    if k in ("transform", "monotone"):
        name, l, u = case["class"], case["l"], case["u"]
        l = l if l is not None else -math.inf
        u = u if u is not None else math.inf
        l, u = float(l), float(u)
        con = make_constraint(name, l, u)
        x = torch.tensor([case["x"]] + ([case["x2"]] if "x2" in case else []), dtype=torch.float64)
        y = con.transform(x)
        ok = bool(torch.all(y >= l) and torch.all(y <= u))
        if "x2" in case:
            ok = ok and bool(y[0] <= y[1])
        bnd = roundtrip_bound(name, l, u, case["x"])
        tol = 1e-9 * max(1.0, abs(case["x"]))
        if bnd <= tol:
            ok = ok and abs(con.inverse_transform(y)[0].item() - case["x"]) <= tol
        return ok
    if k in ("rebound", "alias", "initial-value"):
        sub = Ctx2()
        torch.set_default_dtype(torch.float64)
        try:
            {"rebound": sweep_bound_changes, "alias": sweep_aliasing, "initial-value": sweep_initial_values}[k](
                sub, sub.rng({"rebound": "bound-changes", "alias": "aliasing", "initial-value": "initial-values"}[k]))
        finally:
            torch.set_default_dtype(torch.float32)
        return not any(f["key"] == payload["key"] for f in sub.failures)
    if k == "multi-init":
        sub = Ctx2()
        torch.set_default_dtype(torch.float64)
        try:
            ok = run_multi_init_case(sub, case["scenario"], case["kwargs"])
        finally:
            torch.set_default_dtype(torch.float32)
        return bool(ok) and not sub.failures
    if k == "prior-reload":
        sub = Ctx2()
        torch.set_default_dtype(torch.float64)
        try:
            ok = run_prior_reload_case(sub, case["prior"], case["host"], case["pre"], case["load"], case["post"], case["h1"],
                                       case["h2"], case["xs"], case["seed"])
        finally:
            torch.set_default_dtype(torch.float32)
        return bool(ok) and not sub.failures
    if k in ("prior-copy", "prior-broadcast"):
        sub = Ctx2()
        torch.set_default_dtype(torch.float64)
        try:
            if k == "prior-copy":
                ok = run_prior_copy_case(sub, case["scenario"], case["how"], case["a"], case["b"], case["v_orig"], case["v_copy"], case["seed"])
            elif case.get("registered"):
                return True      # registered variant: re-run by the sweep
            else:
                ok = run_prior_broadcast_case(sub, case["prior"], case["h"], case["shape"], case["values"])
        finally:
            torch.set_default_dtype(torch.float32)
        return bool(ok) and not sub.failures
    if k == "mvn-reload":
        sub = Ctx2()
        torch.set_default_dtype(torch.float64)
        try:
            ok = run_mvn_reload_case(sub, case["d"], case["how1"], case["how2"], case["pre"], case["load"], case["case1"], case["case2"], case["v"])
        finally:
            torch.set_default_dtype(torch.float32)
        return bool(ok) and not sub.failures
    if k == "shared-prior":
        sub = Ctx2()
        torch.set_default_dtype(torch.float64)
        try:
            sweep_shared_priors(sub, sub.rng("priors"))
        finally:
            torch.set_default_dtype(torch.float32)
        return not any(f["key"] == payload["key"] for f in sub.failures)
    # everything else: re-run the sweeps and look for the same key
    sub = Ctx2()
    correspondence(sub, want_driver=True)
    return not any(f["key"] == payload["key"] for f in sub.failures)


class Ctx2:
    """Minimal ctx for replays."""

    def __init__(self):
        self.failures, self.notes, self.counters, self.distinct, self.broken = [], {}, {}, set(), []
        self.tier, self.quick = "quick", True
        self.evaluations = 0

    def rng(self, label=""):
        return C.Rng(f"C17:{label}")

    def case(self, desc, nontrivial=True, sample=None):
        self.evaluations += 1
        self.distinct.add(str(desc))

    def count(self, name, k=1):
        self.counters[name] = self.counters.get(name, 0) + k

    def fail(self, key, what, replay):
        self.failures.append({"key": key, "what": what, "replay": replay})

    def broke(self, kind, name, detail=""):
        self.broken.append((kind, name, detail))

    def assumption(self, line):
        pass

"""Random exact-GP model zoo shared by the linear-algebra properties (C01, C16, …).

Everything is float64; every random choice comes from the `rng` passed in (a `C.Rng`); hyperparameters are set
through the public setters / `initialize`.  Nothing here knows about a particular property.

Main entry points
-----------------
build_exact_gp(rng, ...)      -> (model, likelihood, train_x, train_y, description)
build_multitask_gp(rng, ...)  -> (model, likelihood, train_x, train_y, description)
random_test_x(rng, desc, s)   -> test inputs with the batch pattern recorded in `desc`
dense_prior(model, train_x, test_x)      -> joint mean / covariance of the model's own prior on [train; test]
spec_noise(likelihood, desc, n, ...)     -> the noise covariance the likelihood is documented to add
settings_cells(...) / enter_cell(cell)   -> the prediction-relevant settings grid

observe_solves(log)                      -> observation-only wrapper around linear_operator's `solve`

`description` is a JSON-able dict (kernel expression and spec with the drawn hyperparameter values, mean, likelihood
kind, sizes, batch pattern).  Models are a deterministic function of the rng state, so a case is reproduced by
re-creating the same `C.Rng` label.
"""
import contextlib
import itertools
import math

KERNEL_KINDS = ["rbf", "matern0.5", "matern1.5", "matern2.5", "rq", "periodic", "linear", "poly2", "poly3",
                "scale(rbf)", "sum", "product", "ard", "active_dims", "scale(sum)"]
MEAN_KINDS = ["zero", "constant", "linear"]
LIK_KINDS = ["gaussian", "fixed", "fixed+learned"]
BATCH_KINDS = ["none", "model", "data", "broadcast"]


def _u(rng, lo, hi):
    return lo + (hi - lo) * rng.random()


def _tensor(vals, shape=None):
    import torch
    t = torch.tensor(vals, dtype=torch.float64)
    return t.reshape(shape) if shape is not None else t


def _rand_tensor(rng, shape, lo, hi):
    import torch
    numel = 1
    for k in shape:
        numel *= k
    return torch.tensor([_u(rng, lo, hi) for _ in range(numel)], dtype=torch.float64).reshape(tuple(shape))


# ------------------------------------------------------------------ kernels

def _kernel_spec(rng, kind, d):
    """A JSON-able kernel spec tree with all hyperparameter *draw ranges* resolved to seeds later."""
    if kind in ("rbf", "matern0.5", "matern1.5", "matern2.5", "rq", "periodic", "linear", "poly2", "poly3"):
        return {"k": kind}
    if kind == "scale(rbf)":
        return {"k": "scale", "base": {"k": "rbf"}}
    if kind == "ard":
        return {"k": rng.choice(["rbf", "matern2.5", "rq"]), "ard": True}
    if kind == "active_dims":
        dims = sorted(rng.sample(range(d), max(1, d - 1))) if d > 1 else [0]
        return {"k": "scale", "base": {"k": rng.choice(["rbf", "matern1.5"]), "active_dims": dims}}
    base = ["rbf", "matern0.5", "matern1.5", "matern2.5", "rq", "periodic", "linear", "poly2"]
    if kind == "sum":
        return {"k": "sum", "a": {"k": rng.choice(base)}, "b": {"k": "scale", "base": {"k": rng.choice(base)}}}
    if kind == "product":
        return {"k": "prod", "a": {"k": rng.choice(base[:6])}, "b": {"k": rng.choice(base)}}
    if kind == "scale(sum)":
        return {"k": "scale", "base": {"k": "sum", "a": {"k": rng.choice(base)}, "b": {"k": rng.choice(base)}}}
    raise ValueError(kind)


def _make_kernel(rng, spec, d, batch_shape):
    """Instantiate `spec` with random hyperparameters (recorded into spec['hp'])."""
    import torch
    import gpytorch.kernels as K
    bs = torch.Size(batch_shape)
    k = spec["k"]
    kw = {"batch_shape": bs}
    if "active_dims" in spec:
        kw["active_dims"] = tuple(spec["active_dims"])
    dd = len(spec["active_dims"]) if "active_dims" in spec else d
    if spec.get("ard"):
        kw["ard_num_dims"] = dd
    ls_shape = (*batch_shape, 1, dd if spec.get("ard") else 1)
    hp = {}
    if k == "rbf":
        ker = K.RBFKernel(**kw)
    elif k.startswith("matern"):
        ker = K.MaternKernel(nu=float(k[6:]), **kw)
    elif k == "rq":
        ker = K.RQKernel(**kw)
        a = _rand_tensor(rng, (*batch_shape, 1), 0.5, 3.0)
        ker.alpha = a
        hp["alpha"] = a.tolist()
    elif k == "periodic":
        ker = K.PeriodicKernel(**kw)
        pl = _rand_tensor(rng, (*batch_shape, 1, 1), 1.0, 3.0)
        ker.period_length = pl
        hp["period_length"] = pl.tolist()
    elif k == "linear":
        ker = K.LinearKernel(**kw)
        v = _rand_tensor(rng, (*batch_shape, 1, 1), 0.3, 1.5)
        ker.variance = v
        hp["variance"] = v.tolist()
    elif k in ("poly2", "poly3"):
        ker = K.PolynomialKernel(power=int(k[4:]), **kw)
        o = _rand_tensor(rng, (*batch_shape, 1), 0.3, 1.5)
        ker.offset = o
        hp["offset"] = o.tolist()
    elif k == "scale":
        base = _make_kernel(rng, spec["base"], d, batch_shape)
        ker = K.ScaleKernel(base, batch_shape=bs)
        o = _rand_tensor(rng, tuple(batch_shape), 0.5, 2.0)
        ker.outputscale = o
        hp["outputscale"] = o.tolist()
    elif k == "sum":
        ker = _make_kernel(rng, spec["a"], d, batch_shape) + _make_kernel(rng, spec["b"], d, batch_shape)
    elif k == "prod":
        ker = _make_kernel(rng, spec["a"], d, batch_shape) * _make_kernel(rng, spec["b"], d, batch_shape)
    else:
        raise ValueError(k)
    if getattr(ker, "has_lengthscale", False):
        ls = _rand_tensor(rng, ls_shape, 0.6, 2.0)
        ker.lengthscale = ls
        hp["lengthscale"] = ls.tolist()
    spec["hp"] = hp
    return ker


def kernel_expr(spec):
    k = spec["k"]
    tag = ("[ard]" if spec.get("ard") else "") + (f"[dims={spec['active_dims']}]" if "active_dims" in spec else "")
    if k == "scale":
        return f"scale({kernel_expr(spec['base'])})"
    if k == "sum":
        return f"({kernel_expr(spec['a'])}+{kernel_expr(spec['b'])})"
    if k == "prod":
        return f"({kernel_expr(spec['a'])}*{kernel_expr(spec['b'])})"
    return k + tag


def _make_mean(rng, kind, d, batch_shape):
    import torch
    import gpytorch.means as M
    bs = torch.Size(batch_shape)
    if kind == "zero":
        return M.ZeroMean(batch_shape=bs)
    if kind == "constant":
        m = M.ConstantMean(batch_shape=bs)
        m.initialize(constant=_rand_tensor(rng, tuple(batch_shape), -1.0, 1.0))
        return m
    if kind == "linear":
        m = M.LinearMean(d, batch_shape=bs)
        m.initialize(weights=_rand_tensor(rng, (*batch_shape, d, 1), -1.0, 1.0),
                     bias=_rand_tensor(rng, (*batch_shape, 1), -1.0, 1.0))
        return m
    raise ValueError(kind)


def _make_likelihood(rng, kind, n, data_batch, param_batch):
    """Returns (likelihood, info).  `data_batch`: batch shape of per-observation noise; `param_batch`: of learned noise."""
    import torch
    import gpytorch.likelihoods as L
    pb = torch.Size(param_batch)
    if kind == "gaussian":
        lik = L.GaussianLikelihood(batch_shape=pb)
        lik.noise = _rand_tensor(rng, (*param_batch, 1), 0.05, 0.5)
        return lik, {}
    fixed = _rand_tensor(rng, (*data_batch, n), 0.05, 0.6)
    if kind == "fixed":
        return L.FixedNoiseGaussianLikelihood(noise=fixed), {}
    if kind == "fixed+learned":
        lik = L.FixedNoiseGaussianLikelihood(noise=fixed, learn_additional_noise=True, batch_shape=pb)
        lik.second_noise = _rand_tensor(rng, (*param_batch, 1), 0.05, 0.4)
        return lik, {}
    raise ValueError(kind)


def _exact_gp_class():
    import gpytorch

    class VerifExactGP(gpytorch.models.ExactGP):
        def __init__(self, train_x, train_y, likelihood, mean_module, covar_module):
            super().__init__(train_x, train_y, likelihood)
            self.mean_module = mean_module
            self.covar_module = covar_module

        def forward(self, x):
            return gpytorch.distributions.MultivariateNormal(self.mean_module(x), self.covar_module(x))

    return VerifExactGP


def _multitask_gp_class():
    import gpytorch

    class VerifMultitaskGP(gpytorch.models.ExactGP):
        def __init__(self, train_x, train_y, likelihood, mean_module, covar_module):
            super().__init__(train_x, train_y, likelihood)
            self.mean_module = mean_module
            self.covar_module = covar_module

        def forward(self, x):
            return gpytorch.distributions.MultitaskMultivariateNormal(self.mean_module(x), self.covar_module(x))

    return VerifMultitaskGP


def build_exact_gp(rng, n=None, d=None, kernel_kind=None, mean_kind=None, lik_kind=None, batch_kind=None, b=None,
                   n_max=12, d_max=3):
    """Random single-output exact GP in eval mode.

    batch kinds: none | model (kernel/mean/likelihood carry batch_shape [b]; inputs shared (n,d); targets (b,n)) |
    data (inputs (b,n,d), targets (b,n); parameters unbatched) | broadcast (train unbatched; *test* inputs (b,s,d)).
    """
    import torch
    torch.manual_seed(rng.torch_seed())
    n = n or rng.randint(1, n_max)
    d = d or rng.randint(1, d_max)
    kernel_kind = kernel_kind or rng.choice(KERNEL_KINDS)
    mean_kind = mean_kind or rng.choice(MEAN_KINDS)
    lik_kind = lik_kind or rng.choice(LIK_KINDS)
    batch_kind = batch_kind or rng.choice(BATCH_KINDS)
    b = b or rng.randint(2, 3)
    if batch_kind == "model" and n == b:
        # Kernel.__call__(diag=True) misreads a (b, n) batched diagonal as an (n, n) matrix when b == n and the inputs
        # are unbatched (a C06 matter, reported there): keep n != b so that nobody trips over it by accident
        n = n + 1
    param_batch = (b,) if batch_kind == "model" else ()
    x_batch = (b,) if batch_kind == "data" else ()
    y_batch = (b,) if batch_kind in ("model", "data") else ()
    spec = _kernel_spec(rng, kernel_kind, d)
    covar = _make_kernel(rng, spec, d, param_batch)
    mean = _make_mean(rng, mean_kind, d, param_batch)
    train_x = _rand_tensor(rng, (*x_batch, n, d), -1.5, 1.5)
    train_y = _rand_tensor(rng, (*y_batch, n), -1.5, 1.5)
    lik, _ = _make_likelihood(rng, lik_kind, n, y_batch if batch_kind == "data" else (), param_batch)
    model = _exact_gp_class()(train_x, train_y, lik, mean, covar)
    model.double()
    lik.double()
    model.eval()
    lik.eval()
    desc = {"family": "single", "n": n, "d": d, "kernel": kernel_expr(spec), "kernel_kind": kernel_kind,
            "kernel_spec": spec, "mean": mean_kind, "lik": lik_kind, "batch": batch_kind,
            "b": b if batch_kind != "none" else 0, "tasks": 1}
    return model, lik, train_x, train_y, desc


def build_multitask_gp(rng, n=None, d=None, t=None, kernel_rank=None, lik_rank=None, base_kind=None, n_max=5,
                       d_max=2):
    """Random Kronecker multitask exact GP (MultitaskKernel × MultitaskMean × MultitaskGaussianLikelihood(rank))."""
    import torch
    import gpytorch
    torch.manual_seed(rng.torch_seed())
    n = n or rng.randint(1, n_max)
    d = d or rng.randint(1, d_max)
    t = t or rng.randint(2, 3)
    kernel_rank = rng.randint(0, t) if kernel_rank is None else kernel_rank
    lik_rank = rng.randint(0, t) if lik_rank is None else lik_rank
    base_kind = base_kind or rng.choice(["rbf", "matern1.5", "scale(rbf)", "rq"])
    spec = _kernel_spec(rng, base_kind, d)
    base = _make_kernel(rng, spec, d, ())
    covar = gpytorch.kernels.MultitaskKernel(base, num_tasks=t, rank=kernel_rank)
    covar.task_covar_module.initialize(covar_factor=_rand_tensor(rng, (t, kernel_rank), -1.0, 1.0))
    covar.task_covar_module.var = _rand_tensor(rng, (t,), 0.3, 1.2)
    mean = gpytorch.means.MultitaskMean(gpytorch.means.ConstantMean(), num_tasks=t)
    for bm in mean.base_means:
        bm.initialize(constant=_u(rng, -1.0, 1.0))
    lik = gpytorch.likelihoods.MultitaskGaussianLikelihood(num_tasks=t, rank=lik_rank)
    lik.noise = _u(rng, 0.05, 0.4)
    if lik_rank == 0:
        lik.task_noises = _rand_tensor(rng, (t,), 0.05, 0.4)
    else:
        lik.initialize(task_noise_covar_factor=_rand_tensor(rng, (t, lik_rank), -0.6, 0.6))
    train_x = _rand_tensor(rng, (n, d), -1.5, 1.5)
    train_y = _rand_tensor(rng, (n, t), -1.5, 1.5)
    model = _multitask_gp_class()(train_x, train_y, lik, mean, covar)
    model.double()
    lik.double()
    model.eval()
    lik.eval()
    desc = {"family": "multitask", "n": n, "d": d, "tasks": t, "kernel": f"multitask[{kernel_rank}]({kernel_expr(spec)})",
            "kernel_kind": "multitask", "kernel_spec": spec, "mean": "multitask-constant",
            "lik": f"multitask[rank={lik_rank}]", "lik_rank": lik_rank, "kernel_rank": kernel_rank, "batch": "none", "b": 0}
    return model, lik, train_x, train_y, desc


def random_test_x(rng, desc, s=None, s_max=6):
    """Test inputs (s != n whenever possible) with the batch pattern of `desc`."""
    n, d = desc["n"], desc["d"]
    if s is None:
        avoid = {n, desc["b"]} if desc["batch"] == "model" else {n}   # s != b for model batches: see build_exact_gp
        choices = [k for k in range(1, s_max + 1) if k not in avoid] or [k for k in range(1, s_max + 2) if k not in avoid]
        s = rng.choice(choices)
    if desc["batch"] in ("data", "broadcast"):
        return _rand_tensor(rng, (desc["b"], s, d), -1.5, 1.5)
    return _rand_tensor(rng, (s, d), -1.5, 1.5)


# ------------------------------------------------------------------ dense pieces (the property's K, m, S)

def batch_shape_of(*tensors_batch_shapes):
    import torch
    return torch.broadcast_shapes(*tensors_batch_shapes)


def dense_prior(model, train_x, test_x, param_batch=()):
    """The model's own prior evaluated densely on [train; test] under default settings.

    Returns (joint_mean [*B, (n+s)·t], joint_covar [*B, (n+s)·t, (n+s)·t], B).  The concatenation is written
    here independently of ExactGP.__call__ (broadcast both to the common batch shape, cat on the point axis).
    """
    import torch
    import gpytorch
    tx = train_x if train_x.dim() > 1 else train_x.unsqueeze(-1)
    sx = test_x if test_x.dim() > 1 else test_x.unsqueeze(-1)
    B = torch.broadcast_shapes(tx.shape[:-2], sx.shape[:-2])
    full = torch.cat([tx.expand(*B, *tx.shape[-2:]), sx.expand(*B, *sx.shape[-2:])], dim=-2)
    with torch.no_grad(), gpytorch.settings.lazily_evaluate_kernels(False):
        out = model.forward(full)
        J = out.lazy_covariance_matrix.to_dense()
        mj = out.mean
    if isinstance(out, gpytorch.distributions.MultitaskMultivariateNormal):
        mj = mj.reshape(*mj.shape[:-2], -1)  # interleaved: index = point·t + task
    Bfull = torch.broadcast_shapes(B, J.shape[:-2], mj.shape[:-1])
    return mj.expand(*Bfull, mj.shape[-1]), J.expand(*Bfull, *J.shape[-2:]), Bfull


def spec_noise(likelihood, desc, npts, call_noise=None, train=True):
    """The noise covariance the likelihood is *documented* to add on `npts` points, built from its public
    parameters (not through `marginal`/`_shaped_noise_covar`):
      GaussianLikelihood: σ² I;  FixedNoise: diag(fixed) on the training points, diag(call_noise) when noise= is
      passed, plus σ₂² I when learn_additional_noise;  MultitaskGaussianLikelihood: I_n ⊗ (D_t + σ² I_t)
      (interleaved), D_t = diag(task_noises) (rank 0) or F Fᵀ (rank > 0).
    Returns a tensor [*batch, N, N] (N = npts·tasks) or None when the likelihood adds nothing determinate
    (FixedNoise on a different number of points without `noise=`)."""
    import torch
    import gpytorch.likelihoods as L
    eye = torch.eye(npts, dtype=torch.float64)
    if isinstance(likelihood, L.MultitaskGaussianLikelihood):
        t = likelihood.num_tasks
        if likelihood.rank == 0:
            D = torch.diag_embed(likelihood.task_noises.detach())
        else:
            F = likelihood.task_noise_covar_factor.detach()
            D = F @ F.transpose(-1, -2)
        D = D + likelihood.noise.detach().reshape(-1)[0] * torch.eye(t, dtype=torch.float64)
        return torch.kron(eye, D)
    if isinstance(likelihood, L.FixedNoiseGaussianLikelihood):
        if call_noise is not None:
            base = torch.diag_embed(call_noise)
        elif train:
            base = torch.diag_embed(likelihood.noise_covar.noise.detach())
        else:
            base = None
        if likelihood.second_noise_covar is not None:
            s2 = likelihood.second_noise_covar.noise.detach()  # [*pb, 1]
            extra = s2.unsqueeze(-1) * eye
            return extra if base is None else base + extra
        return base
    if isinstance(likelihood, L.GaussianLikelihood):
        return likelihood.noise.detach().unsqueeze(-1) * eye
    raise ValueError(type(likelihood))


# ------------------------------------------------------------------ settings cells

CELL_AXES = ("lazy", "eager", "cg", "fast", "detach", "skip")


def all_cells():
    return [dict(zip(CELL_AXES, v)) for v in
            itertools.product([True, False], [0, 512], [False, True], [False, True], [True, False], [False, True])]


def covering_cells(rng, k):
    """k random cells + the all-default-ish corner cells; over a run every pair of axis values appears."""
    cells = all_cells()
    rng.shuffle(cells)
    return cells[:k]


def cell_name(c):
    return (("lazy" if c["lazy"] else "nolazy") + f":eager{c['eager']}:" + ("cg" if c["cg"] else "chol") + ":" +
            ("fast" if c["fast"] else "exact") + ":" + ("detach" if c["detach"] else "attach") +
            (":skip" if c["skip"] else ""))


@contextlib.contextmanager
def enter_cell(c, root_size=64):
    from gpytorch import settings as S
    with contextlib.ExitStack() as st:
        st.enter_context(S.lazily_evaluate_kernels(c["lazy"]))
        st.enter_context(S.max_eager_kernel_size(c["eager"]))
        st.enter_context(S.fast_pred_var(c["fast"]))
        st.enter_context(S.detach_test_caches(c["detach"]))
        st.enter_context(S.skip_posterior_variances(c["skip"]))
        st.enter_context(S.max_root_decomposition_size(root_size))
        if c["cg"]:
            # optional c["tols"] = (cg_tolerance | None, eval_cg_tolerance | None); None leaves the global default
            cg_tol, eval_tol = c.get("tols", (1e-10, 1e-10))
            st.enter_context(S.max_cholesky_size(0))
            if cg_tol is not None:
                st.enter_context(S.cg_tolerance(cg_tol))
            if eval_tol is not None:
                st.enter_context(S.eval_cg_tolerance(eval_tol))
            st.enter_context(S.max_cg_iterations(c.get("max_cg_iterations", 100)))
            st.enter_context(S.max_lanczos_quadrature_iterations(root_size))
        yield


def reset_caches(model):
    """Drop the eval-mode prediction caches (as `train(); eval()` does) so the next call recomputes them."""
    model.train()
    model.eval()
    model.likelihood.eval()


@contextlib.contextmanager
def observe_solves(log):
    """Observation-only instrumentation of linear_operator's `solve` (outside /repo): every finished call appends
    (right_tensor, left_tensor, result) to `log`.  Used to read the output of the solve primitive that
    `exact_predictive_covar` consumes (it is not cached anywhere).  Restores the original methods on exit."""
    from linear_operator.operators import LinearOperator
    patched, seen, stack = [], set(), [LinearOperator]

    def wrap(orig):
        def solve(self, right_tensor, left_tensor=None):
            res = orig(self, right_tensor, left_tensor)
            log.append((right_tensor, left_tensor, res))
            return res
        return solve

    while stack:
        cls = stack.pop()
        if cls in seen:
            continue
        seen.add(cls)
        stack.extend(cls.__subclasses__())
        if "solve" in cls.__dict__:
            orig = cls.__dict__["solve"]
            setattr(cls, "solve", wrap(orig))
            patched.append((cls, orig))
    try:
        yield log
    finally:
        for cls, orig in patched:
            setattr(cls, "solve", orig)


def kernel_eval_delta(model, train_x, test_x, J, N):
    """How much the model's OWN kernel evaluation depends on the evaluation path, per batch element: the joint Gram
    matrix from `forward([train; test])` vs the blocks evaluated separately (`k(x*, [x; x*])`, `k(x, x)`), which is
    what the eager / lazy slicing paths of the prediction code do.  For kernels that take a square root of a rounded
    squared distance (Matern-1/2: exp(-sqrt(.)) has a kink at 0) coincident points give 1e-8-level differences
    (`k(x*_i, x*_i) = exp(-sqrt(1e-16))` unless x1 is literally x2).  That is rounding of the kernel evaluation (C05's
    subject), and it bounds how well "the" K of the property is defined; the a-posteriori tolerances include it.
    Returns a tensor [*batch] of max-abs differences (0 when the model has no `covar_module`)."""
    import torch
    import gpytorch
    km = getattr(model, "covar_module", None)
    if km is None:
        return torch.zeros(J.shape[:-2], dtype=torch.float64)
    tx = train_x if train_x.dim() > 1 else train_x.unsqueeze(-1)
    sx = test_x if test_x.dim() > 1 else test_x.unsqueeze(-1)
    B = torch.broadcast_shapes(tx.shape[:-2], sx.shape[:-2])
    txe, sxe = tx.expand(*B, *tx.shape[-2:]), sx.expand(*B, *sx.shape[-2:])
    full = torch.cat([txe, sxe], dim=-2)
    with torch.no_grad(), gpytorch.settings.lazily_evaluate_kernels(False):
        rows = km(sxe, full).to_dense()
        kxx = km(txe).to_dense()
        ktt = km(sxe).to_dense()
    d1 = (rows - J[..., N:, :]).abs().amax(dim=(-1, -2))
    d2 = (kxx - J[..., :N, :N]).abs().amax(dim=(-1, -2))
    d3 = (ktt - J[..., N:, N:]).abs().amax(dim=(-1, -2))
    return torch.maximum(torch.maximum(d1, d2), d3)

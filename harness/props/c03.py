"""C03 — evaluation-mode outputs are history independent (no stale prediction caches).

Tie: translator G2 (Gen/CacheTable.lean: the invalidation table, regenerated from the source) AND
correspondence: operation histories are run on real gpytorch models (ExactGP default / KISS-GP / SGPR,
ApproximateGP whitened / unwhitened) and on the Lean state machine (drivers/C03.lean).  After every op
  (a) the live cache keys of the real objects (`prediction_strategy`, `_memoize_cache` names, kernel
      `_cached_*` attributes) are compared with the model's state            -> mismatch = ctx.broke
  (b) every call `model(x)` is compared with a FRESHLY constructed model of the same architecture carrying
      the same state_dict, data, mode and active settings                       -> difference = ctx.fail
The histories are shrunk (ops dropped / settings cells simplified while the divergence persists).

A settings cell is a bit mask over the prediction-relevant settings (`SETTING_BITS`, same order as
`CacheSM.settingNames`); the named cells P0..P9 / Q1 / Q2 are the masks of `LEGACY`, any other mask is the token
`C<mask>`.  Besides the covering windows there are (i) *settings-pair* histories `eval; predict[a]; predict[b]` for
cells a, b that differ in exactly one setting, both orders, every model kind, and (ii) *two-object* histories: a
sibling model is constructed from the SAME argument tensors (train inputs / targets, inducing points, fixed noise),
`@A` / `@B` switch the object the following ops are applied to, and the observed object must keep answering like
its own fresh twin; (iii) the model returned by `get_fantasy_model` is itself called under a settings pair and
compared with a second, freshly made fantasy model.
"""
import contextlib
import itertools
import json
import math
import os
import sys
import time
import traceback
import warnings

from lib import common as C

ID = "C03"
PROP_MODULES = ["GPVerif.Props.C03"]
BUILD_TARGETS = ["GPVerif.Props.C03", "GPVerif.Gen.CacheTable"]
RULE = ("operation histories over {predict x 12 named exact-path settings cells (+ every pair of cells that differ in exactly one of the 8 "
        "prediction-relevant settings, both orders, around the {default, single-setting} bases in quick / all bases of <= 3 settings in "
        "thorough), predict x 2 accuracy-degrading cells (truncated Lanczos root / "
        "2-iteration CG; own output not compared, every later exact-path call that does not legitimately read the degraded entry is), prior-mode call, train(), eval(), optimiser step "
        "(training mode only), set_train_data (inputs+targets / targets only / inputs only), load_state_dict (full / old-format dict "
        "without updated_strategy / partial strict=False), get_fantasy_model (the returned model is called under a settings pair and compared "
        "with a second fantasy model), backward through a non-detached prediction, and the same ops applied to a SIBLING object built from "
        "the same argument tensors} "
        "on 5 model kinds; quick: windows of a de Bruijn sequence (every ordered triple of op kinds occurs, per kind) + all "
        "histories to length 5 on the Lean model; thorough: all histories of length <= 4 over the 9 op kinds + sampled long ones; "
        "distinct = (kind, op tokens); non-trivial = at least one compared call was answered with a cache entry created by an "
        "earlier op")
EXHAUSTIVE = False
TRUSTED = ["translator harness/translate/g2_cache_table.py (Python ast -> invalidation table and, by symbolic execution of the prediction "
           "strategies' call graph, the read/create/pop list of a prediction per strategy class and settings cell)",
           "hand-written read sets of a *variational* call (CacheSM.varReads), validated by the key correspondence",
           "modelled not verified: nn.Module.train / load_state_dict recursion over submodules, torch autograd hooks, copy.deepcopy"]
ASSUMPTIONS = ["nn.Module.train(mode) / load_state_dict visit every submodule and call the gpytorch overrides",
               "a grad_fn hook fires when a backward pass reaches that node",
               "variational models start with variational_params_initialized = 1 and updated_strategy = True (a trained / loaded model)",
               "parameters are changed only by optimiser steps in training mode or by load_state_dict (direct edits in eval mode are excluded by the property)",
               "the CG settings cell (max_cholesky_size(0), cg_tolerance 1e-10) is compared at 2e-4 (observed 2e-5: linear_operator's CG leaves a "
               "relative residual ~1e-8, amplified by the cancellation in Ktt - Kts A^-1 Kst); other cells at 1e-8; a divergence < 1e-2 that "
               "disappears when the CG cell is replaced by the default cell is recorded as a linear_operator assumption failure, not a violation",
               "a fantasy model called under a settings pair that toggles lazily_evaluate_kernels has its strategy rebuilt from scratch; it is "
               "compared with a second fantasy model that still holds the low-rank updated caches at 1e-6 (observed <= 2e-8: jitter of the "
               "Cholesky-based root updates), every other fantasy pair at 1e-8; fantasy models of a source holding accuracy-degraded entries "
               "are not compared",
               "two model objects share state only through tensors handed to both constructors; the harness hands the SAME tensor objects "
               "(train inputs / targets, inducing points, fixed noise) to both and never writes into them itself"]

GEN = os.path.join(C.LEAN_DIR, "GPVerif", "Gen", "CacheTable.lean")
KINDS = ["exact", "kiss", "sgpr", "svgp", "usvgp"]
# settings cells = bit masks; bit i = setting i of CacheSM.settingNames, bit 8 = accuracy-degrading variant
SETTING_BITS = ["fast_pred_var", "fast_pred_samples", "eager_kernels", "cg", "no_detach", "skip_var", "lazy_joint", "trace_mode"]
FPV, FPS, EAGER, NOCHOL, KEEPGRAPH, SKIP, LAZYSLICE, TRACE, DEGRADED, NANMASK, NANFILL = (1 << i for i in range(11))
NANBITS = NANMASK | NANFILL      # observation_nan_policy: neither = "ignore" (default), bit 9 = "mask", bit 10 = "fill"
NAN_IDX = (2, 5)                 # training targets that are NaN in a history that uses a nan-policy cell
LEGACY = {"P0": 0, "P1": FPV, "P2": EAGER, "P3": NOCHOL, "P4": KEEPGRAPH, "P5": SKIP, "P8": LAZYSLICE, "P9": TRACE,
          "Q1": FPV | NOCHOL | DEGRADED, "Q2": NOCHOL | DEGRADED}
LEGACY_OF = {v: k for k, v in LEGACY.items()}
Q1, Q2 = LEGACY["Q1"], LEGACY["Q2"]   # accuracy-degrading predict ops: own output not compared


def cell_mask(t):
    """predict token -> settings mask"""
    return LEGACY[t] if t in LEGACY else int(t[1:])


def cell_token(mask):
    return LEGACY_OF.get(mask, f"C{mask}")


def cell_name(mask):
    if mask == Q1:
        return "degraded_root"
    if mask == Q2:
        return "degraded_cg"
    names = [n for i, n in enumerate(SETTING_BITS) if mask >> i & 1]
    names += ["nan_fill"] if mask & NANFILL else (["nan_mask"] if mask & NANMASK else [])
    return "+".join(names) or "default"


def nan_policy(mask):
    return "fill" if mask & NANFILL else ("mask" if mask & NANMASK else "ignore")


OPKINDS = ["P", "R", "T", "E", "S", "D", "L", "F", "B"]
OPNAMES = {"P": "predict", "Q": "predict", "C": "predict", "@": "switch", "R": "prior_predict", "T": "train", "E": "eval", "S": "step", "D": "set_train_data",
           "L": "load_state_dict", "F": "get_fantasy_model", "B": "backward"}
TOL, TOL_CG, CG_ONLY_MAX = 1e-8, 2e-4, 1e-2
# fantasy model called under a pair that toggles lazily_evaluate_kernels: its strategy is rebuilt from scratch, the second
# fantasy model still holds the low-rank *updated* caches — two algorithms for one posterior (C04's property), observed
# ≤ 2e-8 (jitter of the Cholesky-based root updates); stale entries move results by ≥ 4e-2
TOL_FANTASY_REBUILD = 1e-6
_state = {}


# ------------------------------------------------------------------------------------------ translator

def generate(ctx):
    sys.path.insert(0, os.path.join(C.VERIF, "harness"))
    from translate import g2_cache_table
    tr, changed = g2_cache_table.generate(C.REPO, GEN)
    _state["table"] = tr.table
    ctx.notes["gen_changed"] = changed
    ctx.notes["classes_translated"] = len(tr.table["classes"])
    ctx.notes["table"] = {k: v for k, v in tr.table.items() if k not in ("classes", "unmodelled")}


# ------------------------------------------------------------------------------------------ real side

def _setup_torch():
    import torch
    torch.set_default_dtype(torch.float64)
    torch.set_num_threads(1)      # 8 x 8 matrices: a second thread only costs
    warnings.simplefilter("ignore")


def cell_ctx(mask):
    from gpytorch import settings as S
    st = contextlib.ExitStack()
    deg = bool(mask & DEGRADED)
    if mask & FPV:
        # degraded: truncated Lanczos root (rank 2, one probe vector) behind fast_pred_var; the solves stay tight
        st.enter_context(S.fast_pred_var(True, num_probe_vectors=1) if deg else S.fast_pred_var())
    if mask & FPS:
        st.enter_context(S.fast_pred_samples())
    if mask & EAGER:
        st.enter_context(S.lazily_evaluate_kernels(False))
    if mask & NOCHOL:
        st.enter_context(S.max_cholesky_size(0))
        if deg and not mask & FPV:     # CG stopped after two iterations at tolerance 1
            st.enter_context(S.cg_tolerance(1.0))
            st.enter_context(S.eval_cg_tolerance(1.0))
            st.enter_context(S.max_lanczos_quadrature_iterations(2))   # linear_cg insists on max_tridiag_iter <= max_iter
            st.enter_context(S.max_cg_iterations(2))
        else:
            if deg:
                st.enter_context(S.max_root_decomposition_size(2))
            st.enter_context(S.cg_tolerance(1e-10))
            st.enter_context(S.eval_cg_tolerance(1e-10))
            st.enter_context(S.max_cg_iterations(30))
    if mask & KEEPGRAPH:
        st.enter_context(S.detach_test_caches(False))
    if mask & SKIP:
        st.enter_context(S.skip_posterior_variances())
    if mask & LAZYSLICE:    # the joint covariance is sliced lazily instead of row-evaluated
        st.enter_context(S.max_eager_kernel_size(0))
    if mask & TRACE:        # generic kernel path / dense assembly in the variational strategy
        st.enter_context(S.trace_mode(True))
    if mask & NANBITS:
        st.enter_context(S.observation_nan_policy(nan_policy(mask)))
    return st


def initial_inducing():
    import torch
    return torch.linspace(0.05, 0.95, 4).unsqueeze(-1)


def build(kind, x, y, Z=None, noise=None):
    """`Z`: the tensor handed to the constructor as initial inducing points; `noise`: fixed observation noise (kind exact)"""
    import torch
    import gpytorch
    K = gpytorch.kernels
    if Z is None:
        Z = initial_inducing()

    class _Ex(gpytorch.models.ExactGP):
        def forward(s, x):
            return gpytorch.distributions.MultivariateNormal(s.mean_module(x), s.covar_module(x))

    if kind in ("exact", "kiss", "sgpr"):
        if noise is not None:
            lik = gpytorch.likelihoods.FixedNoiseGaussianLikelihood(noise=noise, learn_additional_noise=True)
        else:
            lik = gpytorch.likelihoods.GaussianLikelihood()
        m = _Ex(x, y, lik)
        m.mean_module = gpytorch.means.ConstantMean()
        if kind == "exact":
            m.covar_module = K.ScaleKernel(K.RBFKernel())
        elif kind == "kiss":
            m.covar_module = K.ScaleKernel(K.GridInterpolationKernel(K.RBFKernel(), grid_size=10, num_dims=1,
                                                                    grid_bounds=[(-0.3, 1.3)]))
        else:
            m.covar_module = K.InducingPointKernel(K.ScaleKernel(K.RBFKernel()), inducing_points=Z, likelihood=lik)
        return m

    class _SV(gpytorch.models.ApproximateGP):
        def __init__(s):
            vd = gpytorch.variational.CholeskyVariationalDistribution(4)
            cls = gpytorch.variational.VariationalStrategy if kind == "svgp" else gpytorch.variational.UnwhitenedVariationalStrategy
            super().__init__(cls(s, Z, vd, learn_inducing_locations=True))
            s.mean_module = gpytorch.means.ConstantMean()
            s.covar_module = K.ScaleKernel(K.RBFKernel())
            s.likelihood = gpytorch.likelihoods.GaussianLikelihood()

        def forward(s, x):
            return gpytorch.distributions.MultivariateNormal(s.mean_module(x), s.covar_module(x))
    return _SV()


def _inv_softplus(v):
    return math.log(math.expm1(v))


def new_params(sd, g):
    """A new, well-conditioned, noticeably different parameter vector with the same keys."""
    import torch

    def u(lo, hi, shape=()):
        return lo + (hi - lo) * torch.rand(shape, generator=g)
    out = {}
    for k, v in sd.items():
        if k.endswith("raw_lengthscale"):
            out[k] = torch.full_like(v, _inv_softplus(float(u(0.15, 0.30))))
        elif k.endswith("raw_outputscale"):
            out[k] = torch.full_like(v, _inv_softplus(float(u(0.6, 1.6))))
        elif k.endswith("raw_noise"):
            out[k] = torch.full_like(v, _inv_softplus(float(u(0.05, 0.2))))
        elif k.endswith("raw_constant"):
            out[k] = torch.full_like(v, float(u(-0.5, 0.5)))
        elif k.endswith("inducing_points"):
            out[k] = torch.linspace(0.05, 0.95, v.size(-2)).unsqueeze(-1) + u(-0.04, 0.04, v.shape)
        elif k.endswith("variational_mean"):
            out[k] = u(-0.8, 0.8, v.shape)
        elif k.endswith("chol_variational_covar"):
            out[k] = torch.tril(u(-0.2, 0.2, v.shape), -1) + torch.diag(u(0.5, 0.9, (v.size(-1),)))
        elif k.endswith("variational_params_initialized"):
            out[k] = torch.tensor(1)
        elif k.endswith("updated_strategy"):
            out[k] = torch.tensor(True)     # a current-format file (the old-format variant deletes the key)
        else:
            out[k] = v.clone()
    return out


def parse_ops(tokens):
    """'P3' / 'C35' -> ('P', mask); 'Q1' -> ('Q', mask); 'D1' -> ('D', 1); '@A' -> ('@', 'A'); other tokens -> (tok,)"""
    out = []
    for t in tokens:
        if t[0] in "PQC":
            m = cell_mask(t)
            out.append(("Q" if m & DEGRADED else "P", m))
        elif t[0] in "DL":
            out.append((t[0], int(t[1]) if len(t) > 1 else 0))
        elif t[0] == "@":
            out.append(("@", t[1]))
        else:
            out.append((t[0],))
    return out


def tok(op):
    """the token the Lean driver understands"""
    if op[0] in "PQ":
        return cell_token(op[1])
    if op[0] == "D":
        return ("D", "Dt", "Di")[op[1]]
    if op[0] == "@":
        return "@" + op[1]
    return op[0]


D_VARIANTS = ["D", "D1", "D2"]      # set_train_data(inputs, targets) / (targets=…) only / (inputs=…) only
L_VARIANTS = ["L", "L1", "L2"]      # load_state_dict: full / old-format dict (no `updated_strategy`) / partial, strict=False

# settings pairs under which the model returned by get_fantasy_model is called: (a, b) differ in exactly one setting
# (max_cholesky_size(0) is left out: the fantasy strategy's caches are Cholesky updates)
_FBITS = [FPV, FPS, EAGER, KEEPGRAPH, SKIP, LAZYSLICE, TRACE]
FANTASY_PAIRS = sorted({(x, y) for b_ in [0] + _FBITS for bit in _FBITS for (x, y) in ((b_, b_ ^ bit), (b_ ^ bit, b_))})


def memo_name(key, val):
    """name of a `_memoize_cache` entry; the `(inside_root, None)` representation of a two-representation entry
    (built under fast_pred_samples) is reported under its own name, like the Lean model does"""
    name = key[0] if isinstance(key, tuple) else key
    if isinstance(key, tuple) and len(key) > 1 and key[1] in (("mask",), ("fill",)):
        return f"{name}[{key[1][0]}]"      # the memo key contains the nan policy: one entry per policy
    if isinstance(val, tuple) and len(val) == 2 and val[0] is not None and val[1] is None:
        return f"{name}[fast_pred_samples]"
    return name


class World:
    """One real model + the harness' own record of the data it was given.  `shared`: another World whose argument
    tensors (train inputs / targets, initial inducing points, fixed noise) this one is constructed from as well."""

    def __init__(self, kind, seed, shared=None, fixed_noise=False, nan_targets=False):
        import torch
        self.kind = kind
        self.nan_targets = nan_targets
        self.n = 8
        self.xt = torch.tensor([[0.13], [0.47], [0.81]])
        if shared is None:
            self.g = torch.Generator().manual_seed(seed)
            torch.manual_seed(seed)
            self.new_data()
            self.Z0 = initial_inducing()
            self.noise0 = (0.05 + 0.1 * torch.rand(self.n, generator=self.g)) if fixed_noise else None
        else:
            self.g = shared.g
            self.nan_targets = shared.nan_targets
            self.x, self.y, self.Z0, self.noise0 = shared.x, shared.y, shared.Z0, shared.noise0
        self.m = build(kind, self.x, self.y, Z=self.Z0, noise=self.noise0)
        self.m.load_state_dict(new_params(self.m.state_dict(), self.g))
        self.exact = kind in ("exact", "kiss", "sgpr")
        self.sd_keys = sorted(self.m.state_dict().keys())

    def new_data(self, inputs=True, targets=True):
        import torch
        if inputs:
            self.x = (torch.rand(self.n, 1, generator=self.g) * 0.9 + 0.05).sort(0)[0]
        if targets:
            self.y = torch.sin(5 * self.x.squeeze(-1) + float(torch.rand((), generator=self.g)) * 3) \
                + 0.2 * torch.randn(self.n, generator=self.g)
            if self.nan_targets:
                self.y[list(NAN_IDX)] = float("nan")

    # -------- observables
    def keys(self):
        from translate.g2_cache_table import SLOTS
        m = self.m

        def order(names):
            return sorted(names, key=lambda n: (SLOTS.index(n) if n in SLOTS else 99, str(n)))
        memo, attrs, ps = [], [], "-"
        if self.exact:
            strat = m.prediction_strategy
            ps = "None" if strat is None else type(strat).__name__
            if strat is not None:
                memo = {memo_name(k, v) for k, v in getattr(strat, "_memoize_cache", {}).items()}
            for _, mod in m.named_modules():
                attrs += [k for k in vars(mod) if k.startswith("_cached_")]
        else:
            memo = {memo_name(k, v) for k, v in getattr(m.variational_strategy, "_memoize_cache", {}).items()}
        return (f"ps={ps};memo={','.join(map(str, order(memo)))};attrs={','.join(order(set(attrs)))};"
                f"tr={1 if m.training else 0}")

    def memo_ids(self):
        """(identity of the strategy object, memo name -> identities of the cached values): tells which entries an
        op (re)created even when the set of names did not change"""
        if not self.exact:
            return None, {}
        strat = self.m.prediction_strategy
        out = {}
        for k, v in getattr(strat, "_memoize_cache", {}).items():
            out.setdefault(memo_name(k, v), []).append(id(v))
        return (None if strat is None else id(strat)), {k: tuple(sorted(v)) for k, v in out.items()}

    def cache_empty(self):
        k = self.keys()
        return ("ps=None" in k or "ps=-" in k) and ";memo=;" in k and ";attrs=;" in k

    # -------- calls
    def _call(self, m, prior, training):
        from gpytorch import settings as S
        x = self.x if (training and self.exact) else self.xt
        if prior and self.exact:
            with S.prior_mode(True):
                o = m(x)
                return self._take(o)
        o = m(x, prior=True) if prior else m(x)
        return self._take(o)

    @staticmethod
    def _take(o):
        """copy the answer, then scribble over the returned tensors in place (a caller may; no cache may alias them)"""
        mean, cov = o.mean, o.covariance_matrix
        res = mean.detach().clone(), cov.detach().clone()
        for t, a, b in ((mean, -3.0, 7.0), (cov, 0.0, 5.0)):
            try:
                t.detach().mul_(a).add_(b)
            except RuntimeError:
                pass      # an expanded view (e.g. the constant prior mean): cannot be written in place
        return res

    def fresh(self, cell, prior, training):
        """a freshly constructed model with the same state_dict, data (the harness' record), mode, settings — built
        from copies of the argument tensors"""
        f = build(self.kind, self.x.clone(), self.y.clone(), Z=self.Z0.clone(),
                  noise=None if self.noise0 is None else self.noise0.clone())
        f.load_state_dict(self.m.state_dict())
        f.train(training)
        with cell_ctx(cell):
            return self._call(f, prior, training)

    def ovc_signature(self, fm3, b, p1, p2):
        """Is a divergence of a *variational* fantasy model exactly the known OVC inconsistency (known_findings:
        `stale-fantasy:*svgp:*`)?  The ExactGP returned by ApproximateGP.get_fantasy_model carries a `covar_cache` built
        from K_ZZ + pseudo-observation covariance while its mean cache and its non-fast covariance path use K + sigma^2 I.
        Signature, on a third fantasy model: a strategy rebuild (train(); eval()) leaves mean and default-path covariance
        bitwise unchanged, changes the covariance under the cell `b` (which reads covar_cache), after the rebuild the
        fast_pred_var covariance equals the default-path covariance to 1e-10, and the two diverging answers are exactly
        the before / after values.  Anything else is not attributed."""
        import torch

        def call(c):
            with cell_ctx(c):
                o = fm3(self.xt)
                return o.mean.detach().clone(), o.covariance_matrix.detach().clone()
        try:
            r0, b0 = call(0), call(b)
            fm3.train()
            fm3.eval()          # the strategy is rebuilt from the model's own attributes
            r1, b1, f1 = call(0), call(b), call(FPV)
            return bool(b & FPV and not b & SKIP
                        and torch.equal(r0[0], r1[0]) and torch.equal(r0[1], r1[1])
                        and reldiff(b0[1], b1[1]) > TOL and reldiff(b0[0], b1[0]) <= 1e-12
                        and float((f1[1] - r1[1]).abs().max()) <= 1e-10
                        and max(reldiff(p2[0], b0[0]), reldiff(p2[1], b0[1])) <= 1e-12
                        and max(reldiff(p1[0], b1[0]), reldiff(p1[1], b1[1])) <= 1e-12)
        except Exception:
            return False

    # -------- operations
    def apply(self, op):
        """-> dict(token=<driver token>, status, pred=(mean, cov)|None, cell, prior)"""
        import torch
        import gpytorch
        m, k = self.m, op[0]
        r = {"token": tok(op), "status": "ok", "pred": None, "cell": 0, "prior": False, "fantasy": None}
        try:
            if k in "PR":
                r["cell"] = op[1] if k == "P" else 0
                r["prior"] = k == "R"
                with cell_ctx(r["cell"]):
                    r["pred"] = self._call(m, r["prior"], m.training)
            elif k == "Q":
                r["cell"] = op[1]
                with cell_ctx(r["cell"]):
                    self._call(m, False, m.training)     # the answer itself is not part of the property
            elif k == "T":
                m.train()
            elif k == "E":
                m.eval()
            elif k == "S":
                if not m.training:
                    r["status"] = "excluded"
                    return r
                opt = torch.optim.SGD(m.parameters(), lr=0.05)
                opt.zero_grad()
                if self.exact:
                    mll = gpytorch.mlls.ExactMarginalLogLikelihood(m.likelihood, m)
                else:
                    mll = gpytorch.mlls.VariationalELBO(m.likelihood, m, num_data=self.n)
                # (with missing targets the objective is the documented one: under the "mask" policy)
                with gpytorch.settings.observation_nan_policy("mask") if self.nan_targets else contextlib.nullcontext():
                    loss = -mll(m(self.x), self.y)
                loss.backward()
                torch.nn.utils.clip_grad_norm_(m.parameters(), 1.0)
                opt.step()
            elif k == "D":
                if not self.exact:
                    r["status"] = "na"
                    return r
                v = op[1] if len(op) > 1 else 0
                self.new_data(inputs=v != 1, targets=v != 2)
                if v == 0:
                    m.set_train_data(self.x, self.y, strict=True)
                elif v == 1:
                    m.set_train_data(targets=self.y, strict=True)
                else:
                    m.set_train_data(inputs=self.x, strict=True)
            elif k == "L":
                v = op[1] if len(op) > 1 else 0
                sd = new_params(m.state_dict(), self.g)
                flag = "variational_strategy.updated_strategy"
                if v == 1 and flag in sd:
                    # a file written before the whitened VariationalStrategy: no flag; the variational parameters in
                    # it are un-whitened and are re-whitened by the next call
                    del sd[flag]
                    r["token"] = "Lo"
                    m.load_state_dict(sd)
                elif v == 2:
                    keep = [k_ for k_ in sd if k_ == flag or float(torch.rand((), generator=self.g)) < 0.5]
                    if not [k_ for k_ in keep if k_ != flag]:
                        keep.append(sorted(sd)[0])
                    m.load_state_dict({k_: sd[k_] for k_ in keep}, strict=False)
                else:
                    m.load_state_dict(sd)
            elif k == "F":
                fx = torch.rand(2, 1, generator=self.g)
                fy = torch.randn(2, generator=self.g)
                fkw = {} if self.noise0 is None else {"noise": torch.full((2,), 0.1)}
                pair = FANTASY_PAIRS[int(torch.randint(0, len(FANTASY_PAIRS), (1,), generator=self.g))]
                try:
                    fm = m.get_fantasy_model(fx, fy, **fkw)
                    r["token"] = "Fo"
                except Exception as e:  # classify where it was raised
                    fm = None
                    frames = traceback.extract_tb(e.__traceback__)
                    in_copy = any(os.path.basename(f.filename) == "copy.py" for f in frames)
                    if in_copy:
                        r["token"], r["status"] = "Fc", "rej-in-copy:" + type(e).__name__
                    elif isinstance(e, NotImplementedError):
                        r["token"], r["status"] = "Fl", "rej-late:" + type(e).__name__
                    elif isinstance(e, RuntimeError) and "Fantasy observations can only be added after" in str(e):
                        r["token"], r["status"] = "Fe", "rej-early:" + type(e).__name__
                    else:
                        r["token"], r["status"] = "Fe", "raised:" + type(e).__name__ + ":" + str(e)[:120]
                if fm is not None:
                    # the returned model is a model too: two calls that differ in one setting, the second compared
                    # with a second fantasy model made from the same source and fantasy data
                    a, b = pair
                    fr = {"a": a, "b": b, "diff": None, "error": None}
                    try:
                        with cell_ctx(a):
                            self._take(fm(self.xt))
                        with cell_ctx(b):
                            p1 = self._take(fm(self.xt))
                        fm2 = m.get_fantasy_model(fx, fy, **fkw)
                        with cell_ctx(b):
                            p2 = self._take(fm2(self.xt))
                        fr["diff"] = max(reldiff(p1[0], p2[0]), reldiff(p1[1], p2[1]))
                        if not fr["diff"] <= TOL and not self.exact:
                            fr["ovc_signature"] = self.ovc_signature(m.get_fantasy_model(fx, fy, **fkw), b, p1, p2)
                    except Exception as e:
                        fr["error"] = type(e).__name__ + ":" + str(e)[:120]
                    r["fantasy"] = fr
                    # … then re-parameterise it: nothing of it may be shared with the source
                    fm.train()
                    fm.load_state_dict(new_params(fm.state_dict(), self.g))
            elif k == "B":
                if m.training:
                    r["status"] = "excluded"
                    return r
                from gpytorch import settings as S
                with S.detach_test_caches(False):
                    o = m(self.xt)
                    try:
                        o.mean.sum().backward()
                    except RuntimeError as e:
                        if "backward through the graph a second time" in str(e):
                            r["status"] = "rej-backward-twice"
                        else:
                            raise
            else:
                raise ValueError(op)
        except Exception as e:
            r["status"] = "raised:" + type(e).__name__ + ":" + str(e)[:160]
        return r


def reldiff(a, b):
    """max |a - b| relative to max(1, |b|); NaN entries (missing targets under the "ignore" policy) must coincide"""
    import torch
    if a.shape != b.shape:
        return float("inf")
    na, nb = torch.isnan(a), torch.isnan(b)
    if bool(na.any()) or bool(nb.any()):
        if not torch.equal(na, nb):
            return float("inf")
        if bool(na.all()):
            return 0.0
        a, b = a[~na], b[~nb]
    d = (a - b).abs()
    if not bool(torch.isfinite(d).all()):
        return float("inf")
    return float(d.max() / max(1.0, float(b.abs().max())))


def memo_names(keys):
    f = dict(x.split("=", 1) for x in keys.split(";"))
    return f["ps"], set(n for n in f["memo"].split(",") if n)


def reads_of(ps, cell, prior):
    """memo names an exact-path call reads (mirror of CacheSM.accessModel; variational memos are never degraded)"""
    if prior or ps in ("None", "-"):
        return set()
    pol = nan_policy(cell)
    mean = "mean_cache" if pol == "ignore" else f"mean_cache[{pol}]"
    if ps == "SGPRPredictionStrategy":
        return {mean, "covar_cache"}
    fpv, fps, skip = bool(cell & FPV), bool(cell & FPS), bool(cell & SKIP)
    if ps == "InterpolatedPredictionStrategy":
        if (fpv or fps) and not skip:
            return {"mean_cache", "covar_cache[fast_pred_samples]" if fps else "covar_cache"}
        return {"mean_cache"}
    return {mean, "covar_cache"} if fpv and not skip and pol == "ignore" else {mean}


class Track:
    """per-object bookkeeping of a history"""

    def __init__(self):
        self.tainted, self.abnormal = False, False
        self.called = False      # the object has answered a call before (state may live outside the observable caches)
        self.degraded, self.root_degraded = set(), False   # memo names of the live strategy object filled by a degrading call


def run_history(kind, tokens, seed, compare_all=False):
    """Run one history on a real model.  -> list of per-op records (JSON-able).

    A call is compared with a freshly constructed model unless (i) the history model is itself in the freshly
    constructed state (no live cache entry anywhere, nothing rejected / raised so far, and it has not answered any
    call yet — a cache kept outside the observable tables would otherwise escape), (ii) it is an
    accuracy-degrading call (Q1 / Q2), or (iii) it is an exact-path call that by the model's read set reads a cache
    entry which an accuracy-degrading call legitimately created (`covar_cache` holding a truncated root is read only
    under fast_pred_var; a `mean_cache` from a two-iteration CG is read by every posterior call).

    Tokens `@A` / `@B`: the following ops are applied to the sibling object A / the first object B.  A is constructed
    together with B, from the same argument tensors (for kind `exact` and an odd bit 1 of the seed also a shared fixed
    noise tensor); every record carries the object it belongs to."""
    two = any(t[0] == "@" for t in tokens)
    fixed = two and kind == "exact" and bool(seed & 2)
    # a history that uses a nan-policy cell is run on a model whose training targets contain NaN
    nan = kind in ("exact", "kiss", "sgpr") and any(t[0] in "PC" and cell_mask(t) & NANBITS for t in tokens)
    if two and seed & 1:      # which of the two is constructed first
        wa = World(kind, seed, fixed_noise=fixed, nan_targets=nan)
        wb = World(kind, seed, shared=wa)
    else:
        wb = World(kind, seed, fixed_noise=fixed, nan_targets=nan)
        wa = World(kind, seed, shared=wb) if two else None
    worlds, tracks = {"A": wa, "B": wb}, {"A": Track(), "B": Track()}
    cur = "B"
    recs = []
    for op in parse_ops(tokens):
        if op[0] == "@":
            cur = op[1]
            recs.append({"token": tok(op), "status": "switch", "keys": "", "diff": None, "tol": None, "training": False,
                         "reused": False, "obj": cur})
            continue
        w, tr = worlds[cur], tracks[cur]
        was_training = w.m.training
        before_empty = w.cache_empty()
        sid_before, ids_before = w.memo_ids()
        held = [w.m.prediction_strategy] + list(getattr(w.m.prediction_strategy, "_memoize_cache", {}).values()) if w.exact and w.m.prediction_strategy is not None else []
        r = w.apply(op)
        keys = w.keys()
        ps_after, names_after = memo_names(keys)
        sid_after, ids_after = w.memo_ids()
        del held   # (kept alive across the op so that ids are not recycled)
        rec = {"token": r["token"], "status": r["status"], "keys": keys, "diff": None, "tol": None,
               "training": was_training, "reused": not before_empty, "obj": cur}
        if r["fantasy"] is not None:
            f = rec["fantasy"] = r["fantasy"]
            f["tol"] = TOL_CG if tr.tainted else (TOL_FANTASY_REBUILD if (f["a"] | f["b"]) & EAGER else TOL)
            if tr.degraded or tr.root_degraded:
                # the fantasy strategy's caches are updates of entries an accuracy-degrading call legitimately left
                f["skipped"] = "source holds degraded entries"
        is_taint = op[0] == "Q"
        uses_cg = bool(r["cell"] & NOCHOL) and not r["prior"]
        if r["pred"] is not None and not is_taint:
            reads = reads_of(ps_after, r["cell"], r["prior"]) if not was_training else set()
            if reads & tr.degraded:
                rec["skipped_reads_degraded"] = sorted(reads & tr.degraded)
            elif compare_all or tr.abnormal or not before_empty or tr.called:
                try:
                    fm, fc = w.fresh(r["cell"], r["prior"], was_training)
                    rec["diff"] = max(reldiff(r["pred"][0], fm), reldiff(r["pred"][1], fc))
                except Exception as e:   # the model can no longer even be rebuilt from its own state
                    rec["diff"] = float("inf")
                    rec["status"] = "fresh-failed:" + type(e).__name__ + ":" + str(e)[:120]
                rec["tol"] = TOL_CG if (tr.tainted or uses_cg) else TOL
            else:
                rec["skipped_fresh_state"] = True
        # ---- bookkeeping of degraded entries (exact GPs with the default / interpolated strategy only: the SGPR
        #      strategy and the variational strategies compute their memo entries in closed form / by direct Cholesky)
        if sid_after is None or sid_after != sid_before:      # no strategy object, or a new one
            tr.degraded, tr.root_degraded = set(), False
        created = {n for n in names_after if sid_after != sid_before or ids_after.get(n) != ids_before.get(n)}
        tr.degraded = (tr.degraded & names_after) - created
        if ps_after in ("DefaultPredictionStrategy", "InterpolatedPredictionStrategy") and not was_training:
            if "covar_cache" in created and (r["cell"] == Q1 or tr.root_degraded):
                tr.degraded.add("covar_cache")
                # the default strategy memoises the root on the train-train operator: it outlives a cleared memo table
                tr.root_degraded = tr.root_degraded or ps_after == "DefaultPredictionStrategy"
            if "mean_cache" in created and r["cell"] == Q2 and is_taint:
                tr.degraded.add("mean_cache")
        if op[0] in "PQRB" and r["status"] == "ok":
            tr.called = True
        if r["status"] not in ("ok", "excluded", "na") or r["token"] == "Lo":
            tr.abnormal = True     # (an old-format load leaves no cache but is not the freshly constructed state)
        if uses_cg and r["status"] == "ok" and not was_training:
            tr.tainted = True
        if w.cache_empty():
            tr.tainted = False
        recs.append(rec)
    return recs


def _worker(args):
    repo, verif, items = args
    if sys.path[0] != repo:
        sys.path.insert(0, repo)
    h = os.path.join(verif, "harness")
    if h not in sys.path:
        sys.path.insert(1, h)
    _setup_torch()
    out = []
    for kind, tokens, seed in items:
        try:
            out.append(run_history(kind, tokens, seed))
        except Exception:
            out.append({"error": traceback.format_exc()[-1500:]})
    return out


def n_workers():
    try:
        n = len(os.sched_getaffinity(0))
    except AttributeError:
        n = os.cpu_count() or 1
    return max(1, min(4, n))


def run_many(jobs):
    """jobs: list of (kind, tokens, seed).  Spread over spawned worker processes (one per available core);
    falls back to in-process execution."""
    if not jobs:
        return []
    nproc = n_workers()
    if os.environ.get("VERIF_C03_SERIAL", "0") == "1" or len(jobs) <= 700:
        nproc = 1     # a worker costs ~10 s of imports; a history ~50 ms
    chunks = [list(range(p, len(jobs), nproc)) for p in range(nproc)]
    payload = [(C.REPO, C.VERIF, [jobs[i] for i in ch]) for ch in chunks]
    outs = None
    if nproc > 1:
        try:
            import multiprocessing as mp
            from concurrent.futures import ProcessPoolExecutor
            with ProcessPoolExecutor(max_workers=nproc, mp_context=mp.get_context("spawn")) as ex:
                outs = list(ex.map(_worker, payload))
        except Exception:
            outs = None
    if outs is None:
        outs = [_worker(p) for p in payload]
    results = [None] * len(jobs)
    for ch, out in zip(chunks, outs):
        for i, r in zip(ch, out):
            results[i] = r
    return results


# ------------------------------------------------------------------------------------------ histories

def de_bruijn(k, n):
    a = [0] * (k * n)
    seq = []

    def db(t, p):
        if t > n:
            if n % p == 0:
                seq.extend(a[1:p + 1])
        else:
            a[t] = a[t - p]
            db(t + 1, p)
            for j in range(a[t - p] + 1, k):
                a[t] = j
                db(t + 1, t)
    db(1, 1)
    return seq


def with_cells(kinds_seq, rng, counter):
    """op kinds -> tokens; predict cells cycle through all six"""
    out = []
    for k in kinds_seq:
        if k == "P":
            out.append(ALL_PREDICTS[counter[0] % len(ALL_PREDICTS)])
            counter[0] += 1 + (rng.random() < 0.3)
        elif k in "DL":
            out.append((D_VARIANTS if k == "D" else L_VARIANTS)[rng.randrange(3)])
        else:
            out.append(k)
    return out


ALL_PREDICTS = ["P0", "P1", "Q1", "P2", "P3", "Q2", "P4", "P5", "P8", "P9", "C2", "C3"]


def neighbours(cell, nan=False):
    """cells that differ from `cell` in exactly one prediction-relevant setting (`nan`: incl. the three-valued
    observation_nan_policy)"""
    out = [cell ^ (1 << i) for i in range(len(SETTING_BITS))]
    if nan:
        out += [(cell & ~NANBITS) | p for p in (0, NANMASK, NANFILL) if p != cell & NANBITS]
    return out


def pair_histories(bases, nan=False):
    """`eval; predict[a]; predict[b]` for every base cell b0 and every setting: {a, b} = {b0, b0 with that setting
    changed}, both orders — two predictions on one object that differ in exactly one prediction-relevant setting.
    `nan` (exact kinds): the nan policy is a ninth setting (ignore <-> mask <-> fill), the model then has NaN training
    targets; max_cholesky_size(0) is not combined with it (CG on NaN right-hand sides raises inside linear_operator)."""
    seen, out = set(), []
    for b0 in bases:
        for c in neighbours(b0, nan):
            for c1, c2 in ((b0, c), (c, b0)):
                if (c1 | c2) & NANBITS and (c1 | c2) & NOCHOL:
                    continue
                if (c1, c2) not in seen:
                    seen.add((c1, c2))
                    out.append(["E", cell_token(c1), cell_token(c2)])
    return out


# a parameter / data change through a documented invalidation point
INVALIDATIONS = [["T", "S", "E"], ["T", "S", "S", "E"], ["L"], ["L1"], ["L2"], ["D"], ["D1"], ["D2"], ["T", "E"], ["B"]]


def invalidation_histories(exact):
    """`eval; predict[c]; <invalidation>; predict[c]`: the SAME cell before and after every invalidation op, for the
    default cell and every single-setting cell (exact kinds: and the two non-default nan policies) — e.g. mean-only
    predictions (skip_posterior_variances) of a variational model around an optimiser step"""
    cells = [0] + [1 << i for i in range(len(SETTING_BITS))] + ([NANMASK, NANFILL] if exact else [])
    out = []
    for c in cells:
        for inv in INVALIDATIONS:
            if not exact and inv[0] == "D":
                continue
            out.append(["E", cell_token(c)] + inv + [cell_token(c)])
    return out


def bases_upto(nbits):
    return [m for m in range(1 << len(SETTING_BITS)) if bin(m).count("1") <= nbits]


# what is done to the sibling object A between two groups of predictions of the observed object B
SIBLING_SEQS = [["T", "S", "S"], ["T", "S", "E", "P0"], ["L"], ["L1"], ["L2"], ["D"], ["D1"], ["D2"], ["E", "P0", "F"],
                ["E", "P4", "B"], ["E", "P1", "T", "S", "S"], ["T", "S", "L", "E", "P1"], ["E", "C3", "T", "S", "E", "P1"]]


def two_object_histories(rng, extra_windows=()):
    """B (eval mode) fills its caches, the sibling A — constructed from the same argument tensors — goes through a
    sequence of ops, B predicts again (compared with B's own fresh twin)"""
    out = []
    for seq in list(SIBLING_SEQS) + [list(w_) for w_ in extra_windows]:
        pre = rng.choice([["P1", "P0"], ["C3", "P0"], ["P4", "P1"], ["P0"]])
        out.append(["E"] + pre + ["@A"] + seq + ["@B", "P0", "P1", "C3"])
    # … and B in training mode while A is trained (training-mode calls are compared too)
    out.append(["T", "P0", "@A", "T", "S", "S", "@B", "P0", "E", "P1"])
    return out


def taint_variant(body, rng):
    """the same window with every predict replaced by an accuracy-degrading predict"""
    k = rng.randrange(2)
    out = []
    for t in body:
        if t[0] in "PQ":
            out.append(("Q1", "Q2")[k % 2])
            k += 1
        else:
            out.append(t)
    return out


def probes(tokens):
    """final calls that read every cache: (eval() if needed), fast_pred_var, default"""
    training = True
    for t in tokens:
        if t == "T":
            training = True
        elif t == "E":
            training = False
    return (["E"] if training else []) + ["P1", "P0"]


def covering_histories(rng, window=9):
    """windows of a de Bruijn sequence B(9,3): every ordered triple (hence pair) of op kinds occurs as a
    consecutive factor of some window.  Each window is run from a fresh model put into eval mode."""
    perm = OPKINDS[:]
    rng.shuffle(perm)
    db = [perm[i] for i in de_bruijn(9, 3)]
    rot = rng.randrange(len(db))
    db = db[rot:] + db[:rot]
    ext = db + db[:window]
    stride = window - 2
    counter = [rng.randrange(6)]
    out = []
    bodies = []
    for s in range(0, len(db), stride):
        body = with_cells(ext[s:s + window], rng, counter)
        bodies.append(body)
        toks = ["E"] + body
        out.append(toks + probes(toks))
    # … and once more with a degrading predict in every predict position of the window
    for body in bodies:
        if any(t[0] in "PQ" for t in body):
            toks = ["E"] + taint_variant(body, rng)
            out.append(toks + probes(toks))
    return out


def covered_triples(hists):
    seen = set()
    for h in hists:
        ks = [t[0] for t in h]
        for i in range(len(ks) - 2):
            seen.add(tuple(ks[i:i + 3]))
    return seen


def all_short(maxlen, rng):
    """all histories of length <= maxlen over the 9 op kinds (predict cells assigned cyclically), each from eval mode"""
    counter = [rng.randrange(6)]
    for L in range(1, maxlen + 1):
        for ks in itertools.product(OPKINDS, repeat=L):
            toks = ["E"] + with_cells(ks, rng, counter)
            yield toks + probes(toks)


def long_history(rng, n):
    weights = {"P": 5, "R": 1, "T": 2, "E": 3, "S": 2, "D": 2, "L": 2, "F": 1, "B": 2}
    pop = [k for k, wgt in weights.items() for _ in range(wgt)]
    counter = [rng.randrange(6)]
    toks = with_cells([rng.choice(pop) for _ in range(n)], rng, counter)
    return toks + probes(toks)


# ------------------------------------------------------------------------------------------ checking

def pattern(tokens):
    out, other = [], False
    for t in tokens:
        if t[0] == "@":
            other = t == "@A"
            continue
        name = ("other." if other else "") + OPNAMES[t[0]]
        if t[0] in "PQC" and t != "P0":
            name += f"[{cell_name(cell_mask(t))}]"
        if t in ("D1", "D2"):
            name += "[targets]" if t == "D1" else "[inputs]"
        if t in ("L1", "L2"):
            name += "[old_format]" if t == "L1" else "[partial]"
        out.append(name)
    return ">".join(out)


def first_divergence(recs):
    for i, r in enumerate(recs):
        if r["diff"] is not None and not (r["diff"] <= r["tol"]):
            return i
    return None


def shrink(kind, tokens, seed, idx, training_div, budget=60):
    """Drop ops / simplify cells while the *last* call of the prefix still diverges from the fresh model."""
    def diverges(toks):
        try:
            recs = run_history(kind, toks, seed)
        except Exception:
            return False
        r = recs[-1]
        return r["diff"] is not None and not (r["diff"] <= r["tol"]) and r["training"] == training_div
    cur = list(tokens[:idx + 1])
    tries = 0
    changed = True
    while changed and tries < budget:
        changed = False
        for i in range(len(cur) - 1):
            cand = cur[:i] + cur[i + 1:]
            if any(t[0] == "@" for t in cur) and not any(t == "@A" for t in cand):
                continue      # keep a two-object history a two-object history (same construction, same seed use)
            tries += 1
            if diverges(cand):
                cur, changed = cand, True
                break
    # canonical form: every call (predict under a settings cell / prior-mode call / backward) that can be replaced
    # by a plain predict while the divergence persists, is
    for i, t in enumerate(cur):
        if (t[0] in "PQCRB") and t != "P0" and tries < budget + 30:
            cand = cur[:i] + ["P0"] + cur[i + 1:]
            tries += 1
            if diverges(cand):
                cur = cand
                continue
        if t[0] in "PC" and bin(cell_mask(t)).count("1") > 1:
            # a cell of several settings: drop the settings the divergence does not need
            for bit in range(len(SETTING_BITS)):
                m = cell_mask(cur[i])
                if m >> bit & 1 and m != 1 << bit and tries < budget + 45:
                    cand = cur[:i] + [cell_token(m & ~(1 << bit))] + cur[i + 1:]
                    tries += 1
                    if diverges(cand):
                        cur = cand
        elif t in ("D1", "D2", "L1", "L2") and tries < budget + 30:
            cand = cur[:i] + [t[0]] + cur[i + 1:]
            tries += 1
            if diverges(cand):
                cur = cand
    return cur


def canon_model_keys(part):
    """driver record -> the comparable prefix `ps=..;memo=..;attrs=..;tr=..`"""
    fields = part.split(";")
    return ";".join(fields[:4])


def check_results(ctx, jobs, results, label):
    """Compare with the Lean model, report divergences.  jobs: (kind, tokens, seed)."""
    _setup_torch()
    lines, index = [], []          # one driver line per (job, object): each object has its own history from its own construction
    for j, ((kind, tokens, seed), recs) in enumerate(zip(jobs, results)):
        if recs is None or isinstance(recs, dict):
            ctx.broke("correspondence", f"harness-error:{kind}", (recs or {}).get("error", "no result"))
            continue
        for obj in ("B", "A"):
            mine = [r for r in recs if r["obj"] == obj and r["status"] != "switch"]
            if mine or obj == "B":
                lines.append(kind + " " + " ".join(r["token"] for r in mine))
                index.append((j, obj))
    replies = [None] * len(lines)
    if lines and "table" not in _state:
        # the translator failed: Gen/CacheTable.lean is not the table of this source tree, the model has nothing to say
        ctx.count("driver_skipped_no_table", len(lines))
    elif lines:
        try:
            replies = C.run_driver("C03", lines)
        except Exception as e:
            ctx.broke("correspondence", "driver", str(e)[-1500:])
            replies = [None] * len(lines)
    mism = 0
    stats = ctx.notes.setdefault("max_rel_diff", {})
    done = set()
    for (j, obj), rep, line in zip(index, replies, lines):
        kind, tokens, seed = jobs[j]
        recs = results[j]
        if j not in done:
            done.add(j)
            mism += check_job(ctx, kind, tokens, seed, recs, stats)
        # (a) cache keys vs the Lean model
        if rep is None:
            continue
        mine = [r for r in recs if r["obj"] == obj and r["status"] != "switch"]
        parts = rep.split(" | ") if mine else []
        if len(parts) != len(mine):
            ctx.broke("correspondence", f"driver-reply:{kind}", f"`{line}` -> {rep[:300]}")
            continue
        for r, part in zip(mine, parts):
            if canon_model_keys(part) != r["keys"]:
                mism += 1
                if mism <= 6:
                    ctx.broke("correspondence", f"cache-keys:{kind}:{OPNAMES[r['token'][0]]}",
                              f"{kind} `{' '.join(tokens)}` (object {obj}: `{line}`) seed {seed}\n after {r['token']}: real  {r['keys']}\n"
                              f"              model {canon_model_keys(part)}")
                break
            if r["token"][0] == "F":
                exp = "acc" if ";exp=acc" in part else "rej"
                got = {"Fo": "acc", "Fe": "rej", "Fl": "rej", "Fc": None}[r["token"]]
                if got is not None and got != exp:
                    mism += 1
                    if mism <= 6:
                        ctx.broke("correspondence", f"fantasy-acceptance:{kind}",
                                  f"{kind} `{line}`: real {r['status']}, model expects {exp}")
                if r["token"] == "Fc":
                    ctx.count("fantasy_raised_inside_deepcopy")
            if ":STALE" in part:
                ctx.count("model_predicts_stale")
    ctx.count("driver_lines_" + label, len(lines))
    ctx.count("model_key_mismatches", mism)


def n_recorded(ctx, known=False):
    """failures recorded so far: those attributed to the known OVC finding / all others"""
    return sum(1 for f in ctx.failures if f["key"].startswith("stale-fantasy:") == known)


def check_job(ctx, kind, tokens, seed, recs, stats):
    """(b) the property itself on one history: every compared call vs the freshly constructed model"""
    two = any(t[0] == "@" for t in tokens)
    nontrivial = any(r["diff"] is not None and r["reused"] and not r["training"] for r in recs)
    ctx.case(f"{kind}:{' '.join(tokens)}", nontrivial=nontrivial,
             sample={"kind": kind, "ops": " ".join(tokens), "seed": seed,
                     "compared_calls": sum(r["diff"] is not None for r in recs)})
    if two:
        ctx.count("two_object_histories")
    elif len(tokens) == 3 and tokens[0] == "E" and all(t[0] in "PC" for t in tokens[1:]):
        ctx.count("settings_pair_histories")
        if any(cell_mask(t) & NANBITS for t in tokens[1:]):
            ctx.count("nan_policy_pair_histories")
    elif len(tokens) >= 4 and tokens[0] == "E" and tokens[1][0] in "PC" and tokens[1] == tokens[-1] and all(t[0] not in "PCQ" for t in tokens[2:-1]):
        ctx.count("same_cell_around_invalidation_histories")
    for n, r in enumerate(recs):
        if r["status"] == "switch":
            continue
        ctx.count("ops")
        if r["status"] != "ok":
            ctx.count("status:" + r["status"].split(":")[0])
        if r["status"].startswith("raised:"):
            ctx.broke("correspondence", f"unexpected-raise:{kind}:{OPNAMES[r['token'][0]]}",
                      f"{kind} `{' '.join(tokens)}` seed {seed}: {r['status']}")
        if r.get("skipped_fresh_state"):
            ctx.count("calls_in_fresh_state_not_compared")
        if r.get("skipped_reads_degraded"):
            ctx.count("calls_reading_a_degraded_cache_not_compared")
        if r["token"][0] == "Q":
            ctx.count("degrading_calls")
        if r["diff"] is not None:
            ctx.count("calls_compared_with_fresh_model")
            ctx.count("calls_compared_training_mode" if r["training"] else "calls_compared_eval_mode")
            if two and r["obj"] == "B":
                ctx.count("calls_compared_after_sibling_ops")
            if r["diff"] <= r["tol"]:
                key = f"{kind}/{'cg' if r['tol'] == TOL_CG else 'exact'}"
                stats[key] = max(stats.get(key, 0.0), r["diff"])
                if r["tol"] == TOL_CG and r["diff"] > TOL:
                    ctx.count("cg_slack_used")
        # the model returned by get_fantasy_model, called under two settings cells, vs a second fantasy model
        f = r.get("fantasy")
        if f is not None:
            ctx.count("fantasy_models_called_under_a_settings_pair")
            if f.get("skipped"):
                ctx.count("fantasy_models_of_a_degraded_source_not_compared")
            bad = not f.get("skipped") and (f["error"] is not None or not (f["diff"] <= f["tol"]))
            if bad and f.get("ovc_signature"):
                ctx.count("fantasy_divergences_with_the_known_ovc_signature")
            # (the attributed known finding has its own, smaller cap: it must never use up the room of real failures)
            if bad and (n_recorded(ctx, known=True) < 12 if f.get("ovc_signature") else n_recorded(ctx) < 40):
                pat = f"predict[{cell_name(f['a'])}]>predict[{cell_name(f['b'])}]"
                what = f["error"] if f["error"] is not None else f"differs by {f['diff']:.3g} (relative; tolerance {f['tol']:g})"
                # `stale-fantasy:` only for the exactly attributed OVC inconsistency of variational fantasy models
                ctx.fail(f"{'stale-fantasy' if f.get('ovc_signature') else 'fantasy-history'}:{kind}:{pat}",
                         f"{kind} model, history `{pattern(tokens[:n + 1])}`: the model returned by get_fantasy_model, called as `{pat}`, "
                         f"vs a second fantasy model made from the same source called under the second cell only: {what}",
                         {"kind": kind, "seed": seed, "ops": tokens[:n + 1], "fantasy_pair": [f["a"], f["b"]], "what": what})
    i = first_divergence(recs)
    if i is not None and n_recorded(ctx) < 40:
        training_div = recs[i]["training"]
        small = shrink(kind, tokens, seed, i, training_div)
        pre = ("stale-train" if training_div else "stale") + ("-shared" if any(t == "@A" for t in small) else "")
        final = run_history(kind, small, seed)
        uses_cg = any(t[0] in "PC" and cell_mask(t) & NOCHOL for t in small)
        if uses_cg and final[-1]["diff"] is not None and final[-1]["diff"] < CG_ONLY_MAX:
            # the shrinker replaces every call by a plain predict when the divergence survives that: it did not,
            # so the divergence exists only through linear_operator's CG
            ctx.count("cg_assumption_failures")
            ctx.assumption(f"ASSUMPTION linear_operator CG inaccuracy: {kind} `{pattern(small)}` seed {seed} differs by "
                           f"{final[-1]['diff']:.3g} only with max_cholesky_size(0)")
        else:
            ctx.fail(f"{pre}:{kind}:{pattern(small)}",
                     f"{kind} model, history `{pattern(small)}`: the last call differs from a freshly constructed model with "
                     f"the same state_dict / data / settings by {final[-1]['diff']:.3g} (relative; tolerance {final[-1]['tol']:g})"
                     + (" [`other.` = applied to a sibling object constructed from the same argument tensors]" if "-shared" in pre else "")
                     + (f" [{final[-1]['status']}]" if final[-1]["status"] != "ok" else ""),
                     {"kind": kind, "seed": seed, "ops": small, "original_ops": tokens, "diverged_at": i,
                      "rel_diff": final[-1]["diff"], "keys_after_each_op": [r["keys"] for r in final]})
    return 0


def model_exhaustive(ctx, depth_ops, depth_full):
    """all histories on the Lean model (executable invariant + answers = rebuilt model); runs in the background"""
    import subprocess
    inp = "".join(f"X {k} {depth_ops} ops\nX {k} {depth_full} full\n" for k in KINDS)
    p = subprocess.Popen(["lake", "env", "lean", "--run", "drivers/C03.lean"], cwd=C.LEAN_DIR, stdin=subprocess.PIPE,
                         stdout=subprocess.PIPE, stderr=subprocess.PIPE, text=True)
    p.stdin.write(inp)
    p.stdin.close()
    return p


def collect_exhaustive(ctx, p, depth_ops, depth_full):
    out, err = p.stdout.read(), p.stderr.read()
    p.wait()
    lines = [l for l in out.split("\n") if l.startswith("nodes=")]
    if p.returncode != 0 or len(lines) != 2 * len(KINDS):
        ctx.broke("correspondence", "driver-exhaustive", (err or out)[-800:])
        return
    total = 0
    for n, l in enumerate(lines):
        k, what = KINDS[n // 2], (f"9 op kinds, length <= {depth_ops}" if n % 2 == 0 else f"26 symbols, length <= {depth_full}")
        f = dict(x.split("=", 1) for x in l.split(";"))
        total += int(f["nodes"])
        ctx.count("lean_model_states_checked", int(f["nodes"]))
        ctx.count("lean_model_calls_checked", int(f["answers"]))
        if int(f["bad"]) > 0:
            ctx.broke("model", f"lean-model-invariant:{k}", f"{what}: {f['bad']} bad states/answers; first: {f['first']}")
    ctx.notes["lean_model_exhaustive"] = {"depth_9_ops": depth_ops, "depth_26_symbols": depth_full, "states": total}


def correspondence(ctx):
    sys.path.insert(0, os.path.join(C.VERIF, "harness"))
    t0 = time.time()
    quick = ctx.quick
    proc = model_exhaustive(ctx, 5 if quick else 6, 3 if quick else 4) if "table" in _state else None
    rng = ctx.rng("histories")
    jobs = []
    hists = covering_histories(rng)
    ctx.notes["triples_covered"] = len({t for t in covered_triples([h[1:] for h in hists])
                                        if all(x in OPKINDS for x in t)})
    for kind in KINDS:
        for h in hists:
            jobs.append((kind, h, rng.getrandbits(20)))
    # two predictions on one object that differ in exactly one prediction-relevant setting, both orders
    singles = [0] + [1 << i for i in range(len(SETTING_BITS))]
    pairs = pair_histories(singles if quick else bases_upto(3))
    # exact kinds: observation_nan_policy is a ninth setting (NaN training targets): ignore <-> mask <-> fill, both orders
    nan_pairs = [h for h in pair_histories((singles if quick else bases_upto(2)) + [NANMASK, NANFILL], nan=True) if h not in pairs]
    ctx.notes["settings_pairs_per_kind"] = {"all kinds": len(pairs), "exact kinds, nan policy": len(nan_pairs)}
    for kind in KINDS:
        for h in pairs + (nan_pairs if kind in ("exact", "kiss", "sgpr") else []):
            jobs.append((kind, h, rng.getrandbits(20)))
    # the same cell before and after every invalidation op
    for kind in KINDS:
        for h in invalidation_histories(kind in ("exact", "kiss", "sgpr")):
            jobs.append((kind, h, rng.getrandbits(20)))
    # a sibling object constructed from the same argument tensors goes through ops; the observed object must not notice
    for kind in KINDS:
        extra = [] if quick else [h[1:10] for h in hists[::3]]
        for h in two_object_histories(rng, extra):
            jobs.append((kind, h, rng.getrandbits(20)))
    if not quick:
        for kind in KINDS:
            for h in all_short(4, rng):
                jobs.append((kind, h, rng.getrandbits(20)))
            for _ in range(150 if kind != "kiss" else 60):
                jobs.append((kind, long_history(rng, rng.randrange(10, 41)), rng.getrandbits(20)))
    ctx.notes["histories_per_kind"] = {k: sum(1 for j in jobs if j[0] == k) for k in KINDS}
    results = run_many(jobs)
    ctx.notes["real_side_wall_s"] = round(time.time() - t0, 1)
    check_results(ctx, jobs, results, "histories")
    if proc is not None:
        collect_exhaustive(ctx, proc, 5 if quick else 6, 3 if quick else 4)


# ------------------------------------------------------------------------------------------ search / replay

def search(ctx, broken):
    """A proof / the tie / the key correspondence broke: look for a history on which the real models give a
    stale answer.  (i) histories the Lean model itself flags (when the driver still runs), (ii) every
    `eval; a; b; c; probes` over the 9 op kinds with the cells that exercise every cache."""
    sys.path.insert(0, os.path.join(C.VERIF, "harness"))
    rng = ctx.rng("search")
    jobs = []
    focus = {"P": ["P1", "P2", "P4", "P0"]}
    for kind in KINDS:
        for ks in itertools.product(OPKINDS, repeat=3):
            if "P" not in ks and "R" not in ks and "F" not in ks and "B" not in ks:
                continue  # no cache is ever filled before the probes
            toks = ["E"]
            for i, k in enumerate(ks):
                toks.append(focus["P"][i % 4] if k == "P" else (D_VARIANTS[i] if k == "D" else (L_VARIANTS[i] if k == "L" else k)))
            jobs.append((kind, toks + probes(toks), rng.getrandbits(20)))
    # every argument pattern of set_train_data / kind of state dict, between two eval-mode calls and before the first
    for kind in KINDS:
        for v in D_VARIANTS + L_VARIANTS:
            for pre in (["E", "P0"], ["E", "P1"], ["E"], ["E", "P0", "B"], ["P0", "E"]):
                for post in (["P0"], ["P1"], ["R", "P0"], ["P0", "P0"]):
                    jobs.append((kind, pre + [v] + post + ["P1", "P0"], rng.getrandbits(20)))
    # caches filled under accuracy-degrading settings must stay invisible to exact-path calls
    for kind in KINDS:
        for q in ("Q1", "Q2"):
            for mid in ([], ["B"], ["R"], ["F"], ["P4"], ["P5"], ["P2"], ["P3"]):
                for pre in ([], ["P0"], ["P5"]):
                    toks = ["E"] + pre + [q] + mid
                    jobs.append((kind, toks + ["P0", "P1", "P0"], rng.getrandbits(20)))
    # two predictions that differ in one setting (bases of <= 2 settings); sibling objects built from the same tensors
    for kind in KINDS:
        ex = kind in ("exact", "kiss", "sgpr")
        for h in pair_histories(bases_upto(2) + ([NANMASK, NANFILL] if ex else []), nan=ex) + invalidation_histories(ex):
            jobs.append((kind, h, rng.getrandbits(20)))
        for h in two_object_histories(rng):
            jobs.append((kind, h, rng.getrandbits(20)))
    # training-mode staleness: train; call; step; call
    for kind in KINDS:
        for mid in (["S"], ["S", "S"], ["P0", "S"], ["S", "P0", "S"]):
            toks = ["T", "P0"] + mid + ["P0"]
            jobs.append((kind, toks + probes(toks), rng.getrandbits(20)))
    ctx.notes["search_histories"] = len(jobs)
    # cheap first: stop as soon as failures are found for some kind
    order = sorted(range(len(jobs)), key=lambda i: (len(jobs[i][1]), i))
    batch = 400
    for s in range(0, len(order), batch):
        sub = [jobs[i] for i in order[s:s + batch]]
        res = run_many(sub)
        before = len(ctx.failures)
        saved = list(ctx.broken)
        check_results(ctx, sub, res, "search")
        ctx.broken[:] = saved + [b for b in ctx.broken[len(saved):] if b[0] != "correspondence" or "cache-keys" not in b[1]][:4]
        if len(ctx.failures) > before:
            break


def replay(ctx, payload):
    sys.path.insert(0, os.path.join(C.VERIF, "harness"))
    _setup_torch()
    case = payload["case"]
    recs = run_history(case["kind"], case["ops"], int(case["seed"]))
    bad_fantasy = False
    for r in recs:
        print(f"  {r['obj']} {r['token']:4s} {r['status']:22s} {r['keys']}" + (f"  rel.diff vs fresh = {r['diff']:.3g}" if r["diff"] is not None else ""))
        f = r.get("fantasy")
        if f is not None:
            print(f"         fantasy model under predict[{cell_name(f['a'])}]>predict[{cell_name(f['b'])}] vs a second fantasy model: "
                  + (f["error"] if f["error"] is not None else f"rel.diff = {f['diff']:.3g}"))
            bad_fantasy = bad_fantasy or (not f.get("skipped") and (f["error"] is not None or not (f["diff"] <= f["tol"])))
    return first_divergence(recs) is None and not bad_fantasy

"""C07 — every covariance handed out is a valid covariance.

Tie
* translator G4/C07 (`harness/translate/g4_c07_constants.py` -> `Gen/C07Constants.lean`): the default noise bounds
  `GreaterThan(1e-4)`, the `min_variance` / `min_fixed_noise` defaults, the clamp of `MultivariateNormal.variance`,
  the clamp of `FixedGaussianNoise.__init__` and `GreaterThan.transform` as tiny expression IRs; the theorems
  `variance_ge_min`, `fixed_noise_ge_min`, `noise_ge_lower`, `*_defaults_pos` are about these generated terms;
* correspondence: the Lean driver (`drivers/C07.lean`, model `Model/PSD.lean`) and the real code on the same inputs:
  - float64 Gram matrices `K(x,x)` of every kernel on its documented domain, adversarial geometries: exact symmetry,
    `eigvalsh` min eigenvalue >= -1e-9*||K||, 2x2 principal minors, diagonal = `diag=True` path, and the driver's
    *exact* answer on the rationalised matrix: certificate `L D L^T, D >= 0` of `K + delta*I` (sound by
    `ldl_cert_psd` / `ldl_cert_shift`) or a vector `v` with `v^T (K + delta I) v < 0` (`neg_witness_not_psd`);
  - exact-GP prior / posterior / marginal covariances, prior - posterior, appended-rows variance monotonicity, and
    the posterior covariance against the exact Schur complement `posteriorCov?` of the same kernel blocks;
  - variational q(f) / predictive covariances (whitened, unwhitened; Cholesky / mean-field / delta) against
    `variationalCov`;
  - `dist.variance` against `Clamp.run Gen.C07.varianceClamp` (exact), `>= settings.min_variance`, stddev real;
  - `likelihood.noise` against `NExpr.eval Gen.C07.greaterThanTransform` at Float, `>= constraint lower bound`;
  - `FixedGaussianNoise` against `Clamp.run Gen.C07.fixedNoiseClamp` (exact), `>= settings.min_fixed_noise`;
  - wave 3 (`props/_c07_wave3.py`): accessor histories (one distribution object under a sequence of floors, every floor-reading
    accessor), every variational strategy class with all parameters moved away from their initial coincidences (symmetry, exact
    PSD certificate, closed form through `variationalCov`), ARD / derivative-kernel GPs (diag-mode variance == diagonal of the
    dense covariance on the training-mode / prior-mode / eager / lazy-joint paths, posterior variance <= prior variance, exact
    Schur complement), OVC fantasies against the dense pseudo-point conditional; `dist_consistency` for every distribution.
"""
import concurrent.futures as cf
import math
import os
import struct
import sys
import warnings
from fractions import Fraction

from lib import common as C

ID = "C07"
PROP_MODULES = ["GPVerif.Props.C07"]
BUILD_TARGETS = ["GPVerif.Props.C07", "GPVerif.Gen.C07Constants"]
RULE = ("Gram cells = kernel family x hyperparameter point x geometry (random, >=3 duplicated rows, 3 rows 1e-9 apart, "
        "two 1e-6 clusters, collinear grid, 1e-6-scaled, 1e6-offset) x (n<=10, d<=3), lengthscales 1e-5..1e6 of unit-spread "
        "data; distinct = distinct (kernel, hyperparameters, geometry, n, d, seed stream); non-trivial = the matrix has "
        "an off-diagonal entry > 1e-12*max (not numerically diagonal) or is a model / clamp / noise case. Model cells = "
        "exact-GP (kernel x n_train x n_test x noise) and variational (strategy x variational distribution x m) grids. Wave 3: "
        "ARD (unequal lengthscales) copies of every family taking ard_num_dims and multi-output cells at d >= 2, both diag-mode "
        "paths per cell; accessor histories = one distribution object x sequence of min_variance floors x order of floor-reading "
        "accessors; variational strategy classes (11 classes x variational distributions) as constructed and with EVERY parameter "
        "moved, eval and training mode; ARD / derivative-kernel exact GPs on the training-mode, prior-mode, eager and lazy-joint "
        "paths; OVC fantasies (fast_pred_var off / on)")
EXHAUSTIVE = False
TRUSTED = ["translator harness/translate/g4_c07_constants.py (Python ast -> constants, Clamp / NExpr IR)",
           "float64 -> exact rational conversion of every matrix sent to the driver (float.as_integer_ratio)",
           "numpy/torch eigvalsh only for the float screening; the verdict on sampled matrices is the exact certificate",
           "modelled not verified: torch / linear_operator primitives (Cholesky, solves, DiagLinearOperator.diagonal)"]
ASSUMPTIONS = ["float64 only (torch default dtype set to float64 by the harness, so GreaterThan(1e-4).lower_bound is the float64 1e-4)",
               "positive definiteness of the Matern covariance FUNCTIONS in input dimension d > 1 (nu = 1/2, 3/2, 5/2), of the "
               "piecewise-polynomial functions (q >= 1; q = 0 in d > 1) and of the derivative kernels RBFKernelGradGrad, "
               "Matern52KernelGrad is NOT proved (gram_psd_partial): observed numerically and certified exactly per "
               "sampled float64 matrix only (counter gram_cells_family_observed_only); RBF, RQ, Matern-1/2, -3/2, -5/2 in d = 1, the triangle "
               "kernel (piecewise q = 0, d = 1), Hamming-IMQ, PolynomialKernelGrad, RBFKernelGrad (also ARD), cosine (d = 1), periodic, spectral mixture, linear, polynomial, constant, "
               "index, multitask/LCM structure, cylindrical (radial factor on 1-d radii: RBF, RQ, Matern), scale, sums and products ARE "
               "theorems for all sizes",
               "kernels not examined: ArcKernel, GaussianSymmetrizedKLKernel/DistributionalInputKernel (not PD in general), "
               "MultiDeviceKernel, keops kernels, GridKernel / GridInterpolationKernel, InducingPointKernel (Gram part)",
               "FixedGaussianNoise: a call-time `noise=` tensor is used as given (no constraint object exists for it)",
               "exact-GP models use the default (Cholesky) prediction path; fast_pred_var/LOVE is not examined here"]

GEN = os.path.join(C.LEAN_DIR, "GPVerif", "Gen", "C07Constants.lean")
EIG_TOL = 1e-9          # min eigenvalue >= -EIG_TOL * ||K||_2
SYM_EXACT = 1e-15       # Gram matrices with max|K - K^T| <= SYM_EXACT * max|K| are counted as "symmetric to the last bit"
SYM_TOL = 1e-9          # ... and fail above SYM_TOL * max|K| (same "up to rounding" level as EIG_TOL: sq_dist sums (i,j) and
                        # (j,i) in different orders, so K(x,x) is symmetric only up to ~eps*R^2; observed <= 2.2e-14 at R = 463)
SYM_TOL_DERIVED = 1e-12 # covariances computed by matrix products (posterior, q(f)): rounding of the products, rel. to the prior scale
MINOR_TOL = 1e-13       # |K_ij| <= sqrt(K_ii K_jj) (1 + MINOR_TOL)
DIAG_TOL = 1e-12        # K(x,x).diagonal() vs K(x,x,diag=True)
MONO_TOL = 1e-10        # appended rows: variance may not grow by more than MONO_TOL * scale
_state = {}


# ------------------------------------------------------------------------------------------------ translator

def generate(ctx):
    sys.path.insert(0, os.path.join(C.VERIF, "harness"))
    from translate import g4_c07_constants as g4
    x, changed = g4.generate(C.REPO, GEN)
    _state["gen"] = x
    ctx.notes["gen_changed"] = changed
    ctx.notes["gen_constants"] = {k: v[0] for k, v in x.items() if isinstance(v, tuple)}


# ------------------------------------------------------------------------------------------------ helpers

def W3():
    from props import _c07_wave3
    return _c07_wave3


def _torch():
    import torch
    torch.set_num_threads(2)
    torch.set_default_dtype(torch.float64)
    return torch


def fr(x):
    return Fraction(*float(x).as_integer_ratio())


def rat_rows(M):
    return [[fr(v) for v in row] for row in M.tolist()]


def sym_rows(rows):
    n = len(rows)
    return [[(rows[i][j] + rows[j][i]) / 2 for j in range(n)] for i in range(n)]


def rows_tokens(rows):
    r = len(rows)
    c = len(rows[0]) if r else 0
    return f"{r} {c} " + " ".join(C.rat_str(v) for row in rows for v in row)


def bits(x):
    return struct.unpack("<Q", struct.pack("<d", float(x)))[0]


def unbits(k):
    return struct.unpack("<d", struct.pack("<Q", int(k)))[0]


def quad(rows, v):
    n = len(rows)
    return sum(v[i] * rows[i][j] * v[j] for i in range(n) for j in range(n))


class Driver:
    """Collects request lines, runs them in parallel chunks, hands replies back to callbacks."""

    def __init__(self, ctx):
        self.ctx, self.lines, self.cbs = ctx, [], []
        self.ok = True

    def ask(self, line, cb):
        self.lines.append(line)
        self.cbs.append(cb)

    def flush(self, workers=None):
        if not self.lines:
            return
        workers = workers or (4 if self.ctx.tier == "quick" else 8)
        lines, cbs = self.lines, self.cbs
        self.lines, self.cbs = [], []
        k = max(1, min(workers, len(lines) // 8 or 1))
        chunks = [list(range(i, len(lines), k)) for i in range(k)]
        try:
            with cf.ThreadPoolExecutor(max_workers=k) as ex:
                outs = list(ex.map(lambda idx: C.run_driver("C07", [lines[i] for i in idx]), chunks))
        except Exception as e:  # the driver does not build / crashed: broken tie, spec checks continue
            self.ok = False
            self.ctx.broke("correspondence", "driver C07", str(e)[-1500:])
            return
        for idx, out in zip(chunks, outs):
            for i, rep in zip(idx, out):
                cbs[i](rep)
        self.ctx.count("driver_lines", len(lines))


def parse_decision(tok):
    """'psd <minpivot>' | 'neg <q> n 1 v...' | 'und'"""
    t = tok.split()
    if t[0] == "psd":
        return ("psd", Fraction(t[1]), None)
    if t[0] == "neg":
        vec, _ = C.parse_mat(t, 2)
        return ("neg", Fraction(t[1]), [r[0] for r in vec])
    return ("und", None, None)


# ------------------------------------------------------------------------------------------------ kernels

def accurate_distances():
    """Context manager: replace gpytorch.kernels.kernel.sq_dist / dist by accurate pairwise distances (same clamps
    and zero diagonal).  Used only to *attribute* a failure to the quadratic-expansion rounding of sq_dist."""
    import contextlib
    import torch
    import gpytorch.kernels.kernel as KK

    @contextlib.contextmanager
    def cm():
        o_sq, o_d = KK.sq_dist, KK.dist

        def sq(x1, x2, x1_eq_x2=False):
            res = torch.cdist(x1, x2, compute_mode="donot_use_mm_for_euclid_dist").pow(2)
            if x1_eq_x2 and not x1.requires_grad and not x2.requires_grad:
                res.diagonal(dim1=-2, dim2=-1).fill_(0)
            return res.clamp_min_(0)

        def d(x1, x2, x1_eq_x2=False):
            res = torch.cdist(x1, x2, compute_mode="donot_use_mm_for_euclid_dist")
            return res.clamp_min(1e-15)
        KK.sq_dist, KK.dist = sq, d
        try:
            yield
        finally:
            KK.sq_dist, KK.dist = o_sq, o_d
    return cm()


LS = [1e-3, 1e-1, 1.0, 10.0, 1e3, 1e6]
LS_STRESS = [1e-5]


def kernel_grid(tier, rng):
    """-> list of (family, hp dict).  hp dicts are JSON-able and sufficient for `build_kernel`."""
    g = []
    ls = LS + LS_STRESS
    for l in ls:
        g.append(("rbf", {"l": l}))
        for nu in (0.5, 1.5, 2.5):
            g.append(("matern", {"nu": nu, "l": l}))
    for l in ls:
        for a in (1e-2, 1.0, 1e2):
            g.append(("rq", {"l": l, "alpha": a}))
    for l in LS:
        for p in (1e-2, 1.0, 1e2):
            g.append(("periodic", {"l": l, "p": p}))
    for p in (1e-3, 1e-1, 1.0, 1e2):
        g.append(("cosine", {"p": p}))
    for q in (0, 1, 2, 3):
        for l in (1e-1, 1.0, 10.0, 1e3):
            g.append(("piecewise", {"q": q, "l": l}))
    for q in (1, 3):
        for s in (1e-2, 1.0, 1e2):
            g.append(("spectral_mixture", {"q": q, "s": s, "seed": rng.getrandbits(20)}))
    for v in (1e-3, 1.0, 1e3):
        g.append(("linear", {"v": v}))
    for p in (1, 2, 3, 5):
        for o in (1e-3, 1.0, 1e2):
            g.append(("polynomial", {"power": p, "offset": o}))
    for c in (1e-3, 1.0, 1e3):
        g.append(("constant", {"c": c}))
    for l in (1e-1, 1.0, 10.0):
        g.append(("rff", {"l": l, "seed": rng.getrandbits(20)}))
        g.append(("spectral_delta", {"l": l, "seed": rng.getrandbits(20)}))
        g.append(("cylindrical", {"l": l, "base": "matern2.5"}))
        g.append(("cylindrical", {"l": l, "base": "rbf"}))
        g.append(("rbf_grad", {"l": l}))
        g.append(("matern52_grad", {"l": l}))
        g.append(("rbf_gradgrad", {"l": l}))
        g.append(("newton_girard", {"l": l}))
    for p in (2, 3):
        g.append(("polynomial_grad", {"power": p, "offset": 1.0}))
    for s in (1e-6, 1.0, 1e6):
        g.append(("scale_rbf", {"s": s, "l": 1.0}))
    g.append(("sum", {"l": 1.0}))
    g.append(("product", {"l": 1.0}))
    g.append(("product", {"l": 1e-1}))
    for a in (1e-2, 1.0, 1e2):
        for b in (0.5, 2.0):
            g.append(("hamming", {"alpha": a, "beta": b}))
    for r in (1, 2):
        g.append(("index", {"rank": r, "seed": rng.getrandbits(20)}))
    g.append(("multitask", {"rank": 1, "seed": rng.getrandbits(20), "l": 1.0}))
    g.append(("lcm", {"rank": 1, "seed": rng.getrandbits(20)}))
    g.append(("additive_structure", {"l": 1.0}))
    g.append(("product_structure", {"l": 1.0}))
    # wave 3: ARD lengthscales that DIFFER between input dimensions, for every family that takes ard_num_dims
    for l in (1e-1, 1.0, 10.0):
        g.append(("rbf", {"l": l, "ard": True}))
        g.append(("rq", {"l": l, "alpha": 1.0, "ard": True}))
        g.append(("periodic", {"l": l, "p": 1.0, "ard": True}))
        for nu in (0.5, 1.5, 2.5):
            g.append(("matern", {"nu": nu, "l": l, "ard": True}))
        g.append(("piecewise", {"q": 1, "l": l, "ard": True}))
        g.append(("rbf_grad", {"l": l, "ard": True}))
        g.append(("matern52_grad", {"l": l, "ard": True}))
        g.append(("rbf_gradgrad", {"l": l, "ard": True}))
        g.append(("rff", {"l": l, "seed": rng.getrandbits(20), "ard": True}))
    g.append(("multitask", {"rank": 1, "seed": rng.getrandbits(20), "l": 1.0, "ard": True}))
    g.append(("scale_rbf", {"s": 2.0, "l": 1.0, "ard": True}))
    return g


DOMAIN = {
    "cosine": "d = 1 only (other d skipped)",
    "cylindrical": "inputs rescaled into the open unit ball (x / (1.25 max||x||)), exact zeros left to the kernel's eps jitter",
    "hamming": "one-hot encoded sequences (T=3, V=3) drawn from the geometry (duplicates kept; near-coincidence has no discrete analogue)",
    "index": "integer task indices in [0, 4) with repeats",
    "rbf_grad": "n*(d+1) <= 12", "matern52_grad": "n*(d+1) <= 12", "polynomial_grad": "n*(d+1) <= 12",
    "rbf_gradgrad": "n*(2d+1) <= 12", "multitask": "n*t <= 12 (t = 2)", "lcm": "n*t <= 12 (t = 2)",
    "newton_girard": "d >= 2", "additive_structure": "d >= 2", "product_structure": "d >= 2",
}
# Gram PSD is a THEOREM (Props/C07.lean, all n / d / hyperparameters) for these grid families ...
PROVED_FAMILIES = {
    "rbf": "gram_rbf_psd", "rq": "gram_rq_psd", "periodic": "gram_periodic_psd", "cosine": "gram_cosine_psd (d=1)",
    "spectral_mixture": "gram_spectral_mixture_psd", "linear": "gram_linear_psd", "polynomial": "gram_polynomial_psd",
    "constant": "gram_constant_psd", "rff": "gram_linear_psd (feature map Z Z^T)", "spectral_delta": "gram_linear_psd (feature map)",
    "scale_rbf": "gram_scale_psd + gram_rbf_psd", "index": "gram_index_psd", "multitask": "gram_kronecker_psd + gram_rbf_psd + gram_index_psd",
    "newton_girard": "gram_sum_psd / gram_finite_product_psd over 1-d gram_rbf_psd", "additive_structure": "gram_sum_psd + gram_rbf_psd",
    "product_structure": "gram_finite_product_psd + gram_rbf_psd", "cylindrical[rbf]": "gram_cylindrical_psd + gram_rbf_psd",
    # wave 3
    "hamming": "gram_hamming_imq_psd (any sequence length / vocabulary, alpha, beta > 0)",
    "rbf_grad": "gram_rbf_grad_psd (shared and ARD lengthscales; jet product of a(x)a(y) with the jet exponential, chain-rule congruence)",
    "polynomial_grad": "gram_polynomial_grad_psd (value / gradient blocks of (<x,y>+c)^p by the Leibniz jet product; interleaved layout = reindexing)",
    "cylindrical[matern2.5]": "gram_cylindrical_psd + gram_matern52_1d_psd (the radial factor acts on the one-dimensional radii kuma(r))",
    "matern[d=1]": "gram_matern12_1d_psd / gram_matern32_1d_psd / gram_matern52_1d_psd (input dimension one only)",
    "piecewise[q=0,d=1]": "gram_piecewise_q0_1d_psd (triangle kernel; input dimension one only)",
    "sum[d=1]": "gram_sum_psd + gram_rbf_psd + gram_matern32_1d_psd + gram_linear_psd (input dimension one only)",
    "lcm[d=1]": "gram_lcm_psd / gram_kronecker_psd + gram_rbf_psd + gram_matern32_1d_psd + gram_index_psd (input dimension one only)",
    "product[d=1]": "gram_product_psd + gram_rbf_psd + gram_matern12_1d_psd + gram_polynomial_psd (input dimension one only)"}
# ... and only OBSERVED (float screening + exact per-matrix certificate) for these:
OBSERVED_ONLY = {
    "matern[d>1]": "Matern nu in {1/2, 3/2, 5/2} in input dimension d > 1 (d = 1: theorems)",
    "piecewise": "PiecewisePolynomialKernel q >= 1 in any dimension, q = 0 in d > 1 (q = 0, d = 1: gram_piecewise_q0_1d_psd)",
    "rbf_gradgrad": "RBFKernelGradGrad (second-order jets)", "matern52_grad": "Matern52KernelGrad",
    "sum[d>1]": "contains Matern-3/2 (d > 1)", "product[d>1]": "contains Matern-1/2 (d > 1)",
    "lcm[d>1]": "contains Matern-3/2 (d > 1)"}


def proof_class(fam, hp, d=None):
    """'theorem' when PSD of this family's Gram matrix at input dimension d is a theorem of Props/C07.lean"""
    key = f"{fam}[{hp['base']}]" if fam == "cylindrical" else fam
    if key in PROVED_FAMILIES:
        return "theorem"
    if d == 1 and (fam in ("matern", "sum", "lcm", "product") or (fam == "piecewise" and hp.get("q") == 0)):
        return "theorem"
    return "observed"


STATIONARY = {"rbf", "matern", "rq", "periodic", "cosine", "piecewise", "spectral_mixture", "scale_rbf", "hamming"}


def _ls(hp, d):
    """shared lengthscale, or (hp['ard']) one lengthscale per input dimension around hp['l']"""
    import torch
    if hp.get("ard"):
        return torch.tensor([[hp["l"] * (1.0 + 0.25 * ((k * 7) % 5 - 2) / 2.0) for k in range(d)]])
    return hp["l"]


def build_kernel(fam, hp, d):
    import torch
    from gpytorch import kernels as K
    ard = d if hp.get("ard") else None
    if fam == "rbf":
        k = K.RBFKernel(ard_num_dims=ard); k.lengthscale = _ls(hp, d)
    elif fam == "matern":
        k = K.MaternKernel(nu=hp["nu"], ard_num_dims=ard); k.lengthscale = _ls(hp, d)
    elif fam == "rq":
        k = K.RQKernel(ard_num_dims=ard); k.lengthscale = _ls(hp, d); k.alpha = hp["alpha"]
    elif fam == "periodic":
        k = K.PeriodicKernel(ard_num_dims=ard) if ard else K.PeriodicKernel()
        k.lengthscale = _ls(hp, d)
        k.period_length = hp["p"] if not ard else _ls({"l": hp["p"], "ard": True}, d) * 1.3
    elif fam == "cosine":
        k = K.CosineKernel(); k.period_length = hp["p"]
    elif fam == "piecewise":
        k = K.PiecewisePolynomialKernel(q=hp["q"], ard_num_dims=ard); k.lengthscale = _ls(hp, d)
    elif fam == "spectral_mixture":
        g = torch.Generator().manual_seed(hp["seed"])
        q = hp["q"]
        k = K.SpectralMixtureKernel(num_mixtures=q, ard_num_dims=d)
        k.mixture_scales = torch.rand(q, 1, d, generator=g) * hp["s"] + 1e-6
        k.mixture_means = torch.rand(q, 1, d, generator=g) * hp["s"]
        k.mixture_weights = torch.rand(q, generator=g) + 0.1
    elif fam == "linear":
        k = K.LinearKernel(); k.variance = hp["v"]
    elif fam == "polynomial":
        k = K.PolynomialKernel(power=hp["power"]); k.offset = hp["offset"]
    elif fam == "constant":
        k = K.ConstantKernel(); k.constant = torch.tensor(hp["c"])
    elif fam == "rff":
        torch.manual_seed(hp["seed"])
        k = K.RFFKernel(num_samples=7, num_dims=d, ard_num_dims=ard); k.lengthscale = _ls(hp, d)
    elif fam == "spectral_delta":
        torch.manual_seed(hp["seed"])
        k = K.SpectralDeltaKernel(num_dims=d, num_deltas=6); k.lengthscale = hp["l"]
    elif fam == "cylindrical":
        base = K.MaternKernel(nu=2.5) if hp["base"] == "matern2.5" else K.RBFKernel()
        base.lengthscale = hp["l"]
        k = K.CylindricalKernel(num_angular_weights=3, radial_base_kernel=base)
    elif fam == "rbf_grad":
        k = K.RBFKernelGrad(ard_num_dims=ard); k.lengthscale = _ls(hp, d)
    elif fam == "matern52_grad":
        k = K.Matern52KernelGrad(ard_num_dims=ard); k.lengthscale = _ls(hp, d)
    elif fam == "rbf_gradgrad":
        k = K.RBFKernelGradGrad(ard_num_dims=ard); k.lengthscale = _ls(hp, d)
    elif fam == "polynomial_grad":
        k = K.PolynomialKernelGrad(power=hp["power"]); k.offset = hp["offset"]
    elif fam == "newton_girard":
        b = K.RBFKernel(ard_num_dims=d); b.lengthscale = hp["l"]
        k = K.NewtonGirardAdditiveKernel(b, num_dims=d)
    elif fam == "scale_rbf":
        b = K.RBFKernel(ard_num_dims=ard); b.lengthscale = _ls(hp, d)
        k = K.ScaleKernel(b); k.outputscale = hp["s"]
    elif fam == "sum":
        a = K.RBFKernel(); a.lengthscale = hp["l"]
        k = a + K.MaternKernel(nu=1.5) + K.LinearKernel()
    elif fam == "product":
        a = K.RBFKernel(); a.lengthscale = hp["l"]
        b = K.MaternKernel(nu=0.5); b.lengthscale = hp["l"]
        k = a * b * K.PolynomialKernel(power=2)
    elif fam == "hamming":
        k = K.HammingIMQKernel(vocab_size=3); k.alpha = hp["alpha"]; k.beta = hp["beta"]
    elif fam == "index":
        torch.manual_seed(hp["seed"])
        k = K.IndexKernel(num_tasks=4, rank=hp["rank"])
        k.covar_factor.data = torch.randn(4, hp["rank"])
    elif fam == "multitask":
        torch.manual_seed(hp["seed"])
        b = K.RBFKernel(ard_num_dims=ard); b.lengthscale = _ls(hp, d)
        k = K.MultitaskKernel(b, num_tasks=2, rank=hp["rank"])
        k.task_covar_module.covar_factor.data = torch.randn(2, hp["rank"])
    elif fam == "lcm":
        torch.manual_seed(hp["seed"])
        k = K.LCMKernel([K.RBFKernel(), K.MaternKernel(nu=1.5)], num_tasks=2, rank=hp["rank"])
    elif fam == "additive_structure":
        b = K.RBFKernel(); b.lengthscale = hp["l"]
        with warnings.catch_warnings():
            warnings.simplefilter("ignore")
            k = K.AdditiveStructureKernel(b, num_dims=d)
    elif fam == "product_structure":
        b = K.RBFKernel(); b.lengthscale = hp["l"]
        with warnings.catch_warnings():
            warnings.simplefilter("ignore")
            k = K.ProductStructureKernel(b, num_dims=d)
    else:
        raise RuntimeError(f"unknown kernel family {fam}")
    return k.eval()


def out_per_input(fam, d):
    return {"rbf_grad": d + 1, "matern52_grad": d + 1, "polynomial_grad": d + 1, "rbf_gradgrad": 2 * d + 1,
            "multitask": 2, "lcm": 2}.get(fam, 1)


MULTI_OUT_SIZES = [(3, 2), (4, 2), (3, 3)]      # extra (n, d) cells for the multi-output families (rows = n * outputs <= 24)


def admissible(fam, n, d, cap=12):
    if fam == "cosine" and d != 1:
        return False
    if fam in ("newton_girard", "additive_structure", "product_structure") and d < 2:
        return False
    return n * out_per_input(fam, d) <= cap


def geometries(n, d, rng):
    import torch
    g = torch.Generator().manual_seed(rng.torch_seed())
    X = torch.randn(n, d, generator=g)
    out = {"random": X.clone()}
    Y = X.clone(); Y[1] = Y[0]; Y[n - 1] = Y[0]; out["duplicates"] = Y
    Y = X.clone(); Y[1] = Y[0] + 1e-9 * torch.randn(d, generator=g); Y[2] = Y[0] - 1e-9; out["near_coincident"] = Y
    Y = torch.randn(2, d, generator=g).repeat_interleave((n + 1) // 2, 0)[:n] + 1e-6 * torch.randn(n, d, generator=g)
    out["clusters"] = Y
    out["collinear_grid"] = torch.linspace(0, 1, n).unsqueeze(-1).expand(n, d).clone()
    out["tiny_scale"] = X.clone() * 1e-6
    out["far_offset"] = X.clone() * 1e3 + 1e6
    Y = X.clone(); Y[1] = Y[0]; Y[2] = Y[0] + 1e-9; out["dup_and_near"] = Y
    return out


def prep_input(fam, X, d):
    """documented-domain handling; returns the tensor actually given to the kernel"""
    import torch
    if fam == "cylindrical":
        r = X.norm(dim=-1).max().item()
        return X / (1.25 * r) if r > 0 else X
    if fam == "hamming":
        # 3 sequence positions, vocabulary 3: bucket the first coordinate(s) of the geometry
        n = X.shape[0]
        cols = [X[:, j % X.shape[1]] * (1.0 + 0.37 * j) for j in range(3)]
        cat = torch.stack([(c * 1e3).floor().long() % 3 for c in cols], dim=-1)
        return torch.nn.functional.one_hot(cat, num_classes=3).reshape(n, -1).to(torch.get_default_dtype())
    if fam == "index":
        return ((X[:, :1] * 7.0).floor().long() % 4)
    return X


def gram(fam, hp, Xk, d, mode="plain", lazy_diag=True):
    """mode: 'plain' k(X); 'clone' k(X, X.clone()) (equal values, different tensor); 'trace' under settings.trace_mode"""
    import torch
    import gpytorch
    k = build_kernel(fam, hp, d)
    with torch.no_grad(), warnings.catch_warnings():
        warnings.simplefilter("ignore")
        if mode == "clone":
            K = k(Xk, Xk.clone()).to_dense()
        elif mode == "trace":
            with gpytorch.settings.trace_mode(True):
                K = k(Xk).to_dense()
        else:
            K = k(Xk).to_dense()
        try:
            Kd = k(Xk, diag=True)
            Kd = Kd if torch.is_tensor(Kd) else Kd.to_dense()
        except Exception:
            Kd = None
        if Kd is not None and mode == "plain" and lazy_diag:
            try:        # the other diag-mode path: the diagonal of the LAZILY evaluated kernel tensor
                Kl = k(Xk).diagonal(dim1=-1, dim2=-2)
                Kd = [("K(x,x,diag=True)", Kd), ("lazy K(x,x).diagonal()", Kl)]
            except Exception:
                pass
    return K, Kd, type(k).__name__


def float_screen(K, Kd, scale_ref=None, sym_tol=SYM_TOL):
    """-> (symptoms: list[(symptom, detail)], info dict).  Pure float64 screening of one matrix."""
    import torch
    info, sym = {}, []
    if not torch.isfinite(K).all():
        return [("nonfinite", "matrix has inf/nan entries")], {"norm": float("nan")}
    mx = max(K.abs().max().item(), scale_ref or 0.0)
    asym = (K - K.transpose(-1, -2)).abs().max().item()
    info["asym_rel"] = asym / mx if mx > 0 else 0.0
    if mx > 0 and asym > sym_tol * mx:
        sym.append(("asymmetric", f"max|K-K^T| = {asym:.3e} = {asym / mx:.2e} * scale"))
    S = (K + K.transpose(-1, -2)) / 2
    ev = torch.linalg.eigvalsh(S)
    norm = max(ev.abs().max().item(), scale_ref or 0.0)
    info["norm"], info["min_eig"] = norm, ev[0].item()
    info["rel_min_eig"] = ev[0].item() / norm if norm > 0 else 0.0
    if ev[0].item() < -EIG_TOL * norm:
        sym.append(("indefinite", f"min eig = {ev[0].item():.3e} = {ev[0].item() / norm:.2e} * ||K||"))
    dg = S.diagonal()
    if (dg < -EIG_TOL * norm).any():
        sym.append(("negative-diagonal", f"min diag = {dg.min().item():.3e}"))
    bound = (dg.clamp_min(0).unsqueeze(-1) * dg.clamp_min(0).unsqueeze(-2)).sqrt()
    exc = (S.abs() - bound * (1 + MINOR_TOL) - 1e-300)
    exc = exc - torch.diag(torch.diag(exc))
    if (exc > 0).any() and norm > 0:
        i, j = divmod(int(exc.argmax()), S.shape[-1])
        rel = (S[i, j].abs() / bound[i, j] - 1).item() if bound[i, j] > 0 else float("inf")
        if not (bound[i, j] == 0 and S[i, j].abs() <= EIG_TOL * norm):
            sym.append(("correlation>1", f"|K[{i},{j}]| = {S[i, j].abs().item():.17g} > sqrt(K[{i},{i}] K[{j},{j}]) = "
                        f"{bound[i, j].item():.17g} (excess {rel:.2e})"))
    for dname, Kd1 in (Kd if isinstance(Kd, list) else ([("K(x,x,diag=True)", Kd)] if Kd is not None else [])):
        if Kd1.shape != dg.shape:
            continue
        dd = (K.diagonal() - Kd1).abs().max().item()
        info["diag_path_diff"] = max(dd, info.get("diag_path_diff", 0.0))
        if dd > DIAG_TOL * max(mx, 1e-300):
            i = int((K.diagonal() - Kd1).abs().argmax())
            sym.append(("diag-mismatch", f"max|K(x,x).to_dense().diagonal() - {dname}| = {dd:.3e} (entry {i}: dense {K.diagonal()[i].item()!r}, "
                        f"diag mode {Kd1[i].item()!r})"))
            break
    return sym, info


# ------------------------------------------------------------------------------------------------ Gram section

def gram_cases(ctx, drv, tier):
    torch = _torch()
    rng = ctx.rng("gram")
    sizes = [(3, 1), (5, 2), (8, 3), (10, 1)] if tier == "quick" else [(3, 1), (4, 2), (5, 2), (6, 3), (8, 3), (10, 1), (10, 2), (12, 3)]
    reps = 1 if tier == "quick" else 6
    grid = kernel_grid(tier, rng)
    cert_budget = 650 if tier == "quick" else 10 ** 9
    fam_count, geom_count, cert_sent = {}, {}, 0
    worst = {}
    pending = []
    n_cell = 0
    cells = [(n, d, False) for (n, d) in sizes] + [(n, d, True) for (n, d) in (MULTI_OUT_SIZES if tier == "quick" else MULTI_OUT_SIZES + [(5, 2), (2, 3)])]
    for rep in range(reps):
        for (n, d, multi_only) in cells:
            G = geometries(max(n, 3), d, rng)
            G = {k_: v_[:n] for k_, v_ in G.items()} if n < 3 else G
            for fam, hp in grid:
                if multi_only and (out_per_input(fam, d) == 1 or not admissible(fam, n, d, cap=24)):
                    continue
                if not multi_only and not admissible(fam, n, d):
                    continue
                if multi_only and not hp.get("ard") and rng.random() < 0.5:
                    continue        # (shared-lengthscale copies of these cells: half of them)
                for gname, X in G.items():
                    if fam in ("hamming", "index") and gname in ("near_coincident", "tiny_scale", "far_offset", "dup_and_near"):
                        continue
                    Xk = prep_input(fam, X, d)
                    mode = "plain"
                    if fam not in ("index", "hamming"):
                        u = rng.random()
                        mode = "clone" if u < 0.12 else ("trace" if u < 0.2 and fam in ("rbf", "matern", "rq", "scale_rbf", "sum", "product") else "plain")
                    try:
                        n_cell += 1
                        K, Kd, cls = gram(fam, hp, Xk, d, mode, lazy_diag=bool(hp.get("ard")) or out_per_input(fam, d) > 1 or n_cell % 4 == 0)
                    except Exception as e:
                        ctx.broke("correspondence", f"kernel-eval:{fam}", f"{fam} {hp} {gname} n={n} d={d}: {type(e).__name__}: {e}"[:500])
                        continue
                    symptoms, info = float_screen(K, Kd)
                    mx = K.abs().max().item()
                    off = (K - torch.diag(torch.diag(K))).abs().max().item()
                    desc = f"gram {fam} {hp} {gname} n={n} d={d} rep={rep} mode={mode}"
                    ctx.count("gram_mode_" + mode)
                    ctx.case(desc, nontrivial=off > 1e-12 * mx,
                             sample={"kind": "gram", "kernel": cls, "hp": hp, "geometry": gname, "n": n, "d": d,
                                     "rel_min_eig": info.get("rel_min_eig")})
                    fam_count[fam] = fam_count.get(fam, 0) + 1
                    pc = "theorem" if proof_class(fam, hp, d) == "theorem" else "observed_only"
                    ctx.count("gram_cells_family_" + pc)
                    ar = info.get("asym_rel", 0.0)
                    ctx.count("gram_symmetric_bitwise" if ar == 0 else ("gram_symmetric_1e-15" if ar <= SYM_EXACT else "gram_symmetric_rounding_level"))
                    _state["max_asym"] = max(_state.get("max_asym", (0.0, "")), (ar, desc))
                    geom_count[gname] = geom_count.get(gname, 0) + 1
                    w = worst.get(fam)
                    if w is None or info.get("rel_min_eig", 0) < w[0]:
                        worst[fam] = (info.get("rel_min_eig", 0), gname, str(hp))
                    rec = {"fam": fam, "hp": hp, "geometry": gname, "n": n, "d": d, "cls": cls, "X": Xk, "K": K, "mode": mode,
                           "symptoms": symptoms, "info": info, "desc": desc}
                    borderline = info.get("rel_min_eig", 0) < -EIG_TOL / 100
                    # (exact certificates of the > 12-row matrices of the multi-output cells are sampled at a third of the rate)
                    want = bool(symptoms) or borderline or (cert_sent < cert_budget and
                                                            rng.random() < (0.25 if tier == "quick" else 0.5) * (0.33 if K.shape[-1] > 12 else 1.0))
                    if want and math.isfinite(info.get("norm", float("nan"))):
                        cert_sent += 1
                        pending.append(rec)
                    elif symptoms:
                        report_gram(ctx, rec, None)
    _state["gram_py_s"] = None
    # exact verdicts
    for rec in pending:
        rows = sym_rows(rat_rows(rec["K"]))
        delta = fr(EIG_TOL * rec["info"]["norm"])
        rec["rows"], rec["delta"] = rows, delta

        def cb(rep, rec=rec):
            rec["reply"] = rep
        drv.ask(f"psd {C.rat_str(delta)} {rows_tokens(rows)}", cb)
    drv.flush()
    n_cert = n_neg = n_exact_psd0 = 0
    for rec in pending:
        rep = rec.get("reply")
        if rep is None:       # driver unavailable: fall back to the float screening
            if rec["symptoms"]:
                report_gram(ctx, rec, None)
            continue
        parts = rep.split(";")
        if len(parts) != 2:
            ctx.broke("correspondence", "driver-reply", f"{rec['desc']}: {rep[:200]}")
            continue
        d0, dd = parse_decision(parts[0]), parse_decision(parts[1])
        n_cert += 1
        n_exact_psd0 += d0[0] == "psd"
        if dd[0] == "und" or d0[0] == "und":
            ctx.broke("correspondence", "driver-undecided", f"{rec['desc']}: {rep[:200]}")
        float_indef = any(s == "indefinite" for s, _ in rec["symptoms"])
        if dd[0] == "neg":
            # independent re-check of the witness in Python rationals
            v = dd[2]
            q = quad(rec["rows"], v) + rec["delta"] * sum(x * x for x in v)
            if q != dd[1] or q >= 0:
                ctx.broke("correspondence", "witness-recheck", f"{rec['desc']}: driver q={dd[1]} python q={q}")
            n_neg += 1
            if not float_indef:
                rec["symptoms"].append(("indefinite", "exact: v^T (K + delta I) v < 0 although eigvalsh passed"))
            report_gram(ctx, rec, dd)
        else:
            if float_indef:
                # eigvalsh says indefinite but K + delta I has an exact PSD certificate: trust the certificate
                rec["symptoms"] = [s for s in rec["symptoms"] if s[0] != "indefinite"]
                ctx.count("eigvalsh_overruled_by_certificate")
            if rec["symptoms"]:
                report_gram(ctx, rec, None)
    ctx.notes["gram"] = {"per_family": fam_count, "per_geometry": geom_count, "exact_verdicts": n_cert,
                         "exact_negative": n_neg, "exactly_psd_without_shift": n_exact_psd0,
                         "worst_rel_min_eig_per_family": {k: [f"{v[0]:.2e}", v[1], v[2]] for k, v in worst.items()},
                         "max_relative_asymmetry": list(_state.get("max_asym", (0.0, ""))),
                         "psd_is_a_theorem_for": PROVED_FAMILIES, "psd_observed_only_for": OBSERVED_ONLY,
                         "domain_handling": DOMAIN, "tolerances": {"eig": EIG_TOL, "sym": SYM_TOL, "minor": MINOR_TOL,
                                                                  "diag": DIAG_TOL}}


# ------------------------------------------------------------------------------------------------ dense point clouds

def dense_grid(tier):
    g = []
    for l in (0.3, 1.0, 3.0):
        for ard in (False, True):
            g.append(("rbf", {"l": l, "ard": ard}))
            g.append(("rq", {"l": l, "alpha": 1.0, "ard": ard}))
            for nu in (0.5, 1.5, 2.5):
                g.append(("matern", {"nu": nu, "l": l, "ard": ard}))
            for q in (0, 1, 2, 3):
                g.append(("piecewise", {"q": q, "l": l, "ard": ard}))
        g.append(("periodic", {"l": l, "p": 1.0}))
        g.append(("cylindrical", {"l": l, "base": "matern2.5"}))
        g.append(("scale_rbf", {"s": 1.0, "l": l}))
        g.append(("product", {"l": l}))
        g.append(("sum", {"l": l}))
    g.append(("spectral_mixture", {"q": 2, "s": 1.0, "seed": 7}))
    g.append(("hamming", {"alpha": 1.0, "beta": 1.0}))
    return g


def dense_geometries(n, d, rng):
    import torch
    g = torch.Generator().manual_seed(rng.torch_seed())
    out = {"unit_cube": torch.rand(n, d, generator=g)}
    m = max(2, int(round(n ** (1.0 / d))))
    axes = [torch.linspace(0, 1, m) for _ in range(d)]
    lat = torch.cartesian_prod(*axes) if d > 1 else axes[0].unsqueeze(-1)
    out["lattice"] = lat[:n].clone().reshape(-1, d)
    out["gaussian_cloud"] = torch.randn(n, d, generator=g) * 0.5
    return out


def exact_witness_from_eig(K, norm):
    """float eigenvector of the smallest eigenvalue -> small rationals -> exact v^T K v, v^T (K + delta I) v"""
    import torch
    S = (K + K.transpose(-1, -2)) / 2
    ev, V = torch.linalg.eigh(S)
    v = V[:, 0]
    v = v / v.abs().max()
    vq = [Fraction(int(round(x * 2 ** 20)), 2 ** 20) for x in v.tolist()]
    rows = sym_rows(rat_rows(K))
    delta = fr(EIG_TOL * norm)
    q0 = quad(rows, vq)
    qd = q0 + delta * sum(x * x for x in vq)
    return rows, delta, vq, q0, qd


def dense_cases(ctx, drv, tier):
    torch = _torch()
    rng = ctx.rng("dense")
    sizes = [(60, 2), (90, 3), (110, 5)] if tier == "quick" else [(60, 2), (120, 2), (150, 3), (220, 3), (250, 5), (120, 1)]
    grid = dense_grid(tier)
    nfam = {}
    for (n, d) in sizes:
        G = dense_geometries(n, d, rng)
        for fam, hp in grid:
            if fam in ("periodic",) and d > 3:
                continue
            for gname, X in G.items():
                if fam == "hamming" and gname != "unit_cube":
                    continue
                Xk = prep_input(fam, X, d)
                try:
                    K, Kd, cls = gram(fam, hp, Xk, d)
                except Exception as e:
                    ctx.broke("correspondence", f"kernel-eval:{fam}", f"dense {fam} {hp} {gname} n={n} d={d}: {type(e).__name__}: {e}"[:500])
                    continue
                symptoms, info = float_screen(K, Kd)
                desc = f"dense {fam} {hp} {gname} n={X.shape[0]} d={d}"
                ctx.case(desc, sample={"kind": "gram-dense", "kernel": cls, "hp": hp, "geometry": gname, "n": X.shape[0], "d": d,
                                       "rel_min_eig": info.get("rel_min_eig")})
                nfam[fam] = nfam.get(fam, 0) + 1
                pc = "theorem" if proof_class(fam, hp, d) == "theorem" else "observed_only"
                ctx.count("gram_cells_family_" + pc)
                if not symptoms:
                    continue
                rec = {"fam": fam, "hp": hp, "geometry": "dense-" + gname, "n": X.shape[0], "d": d, "cls": cls, "X": Xk, "K": K,
                       "mode": "plain", "symptoms": symptoms, "info": info, "desc": desc}
                neg = None
                if any(x == "indefinite" for x, _ in symptoms) and math.isfinite(info.get("norm", float("nan"))):
                    rows, delta, vq, q0, qd = exact_witness_from_eig(K, info["norm"])
                    rec["rows"], rec["delta"] = rows, delta
                    if qd < 0:
                        neg = ("neg", qd, vq)
                        if drv is not None and X.shape[0] <= 160:
                            def cb(rep, q0=q0, qd=qd, desc=desc):
                                t = rep.split()
                                ctx.count("dense_witness_checked_by_driver")
                                if len(t) != 2 or Fraction(t[0]) != q0 or Fraction(t[1]) != qd:
                                    ctx.broke("correspondence", "witness-recheck", f"{desc}: driver {rep[:120]} vs python {q0} {qd}")
                            drv.ask(f"quad {C.rat_str(delta)} {rows_tokens(rows)} {len(vq)} 1 " + " ".join(C.rat_str(x) for x in vq), cb)
                    else:
                        # the float eigen-solver's verdict is not confirmed exactly: report, never hide
                        ctx.count("dense_float_indefinite_not_confirmed")
                        rec["symptoms"] = [x for x in symptoms if x[0] != "indefinite"]
                if rec["symptoms"]:
                    report_gram(ctx, rec, neg)
    ctx.notes["dense_clouds"] = {"per_family": nfam, "sizes": sizes,
                                 "rule": "n points uniform in the unit cube / on a lattice / Gaussian cloud, lengthscale 0.3, 1, 3; "
                                         "shared and ARD lengthscales; verdict by eigvalsh, a negative one is confirmed by an exact "
                                         "rational witness (rationalised eigenvector, v^T(K+delta I)v < 0 in exact arithmetic)"}


ENV_C = 64.0            # constant of the a-priori rounding envelope of the quadratic expansion
ENV_R_SMOOTH = 256.0    # smooth kernels: envelope ENV_C*eps*R^2 reaches EIG_TOL only for R >= sqrt(EIG_TOL/(ENV_C*eps)) ~ 265
EPS = 2.0 ** -52


def probe_distances(compute):
    """Run `compute()` with `kernels.kernel.sq_dist` / `dist` wrapped: every call of the real functions is compared
    with accurate pairwise distances.  Returns dict(R, ratio = max sq_dist error / envelope, negative, diag_nonzero,
    used_sqrt, min_offdiag_dist, calls)."""
    import torch
    import gpytorch.kernels.kernel as KK
    st = {"R": 0.0, "ratio": 0.0, "negative": False, "diag_nonzero": False, "used_sqrt": False,
          "min_offdiag_dist": float("inf"), "calls": 0}
    o_sq, o_d = KK.sq_dist, KK.dist

    def sq(x1, x2, x1_eq_x2=False):
        out = o_sq(x1, x2, x1_eq_x2)
        with torch.no_grad():
            mu = x1.mean(-2, keepdim=True)
            R = max((x1 - mu).norm(dim=-1).max().item(), (x2 - mu).norm(dim=-1).max().item())
            accd = torch.cdist(x1, x2, compute_mode="donot_use_mm_for_euclid_dist")
            acc = accd.pow(2)
            st["calls"] += 1
            st["R"] = max(st["R"], R)
            st["negative"] |= bool((out < 0).any())
            if x1_eq_x2:
                st["diag_nonzero"] |= bool((out.diagonal(dim1=-2, dim2=-1) != 0).any())
                acc = acc - torch.diag_embed(acc.diagonal(dim1=-2, dim2=-1))
                n = accd.shape[-1]
                if n > 1:
                    off = accd + torch.eye(n) * 1e300
                    st["min_offdiag_dist"] = min(st["min_offdiag_dist"], off.min().item())
            err = (out - acc).abs().max().item()
            env = ENV_C * EPS * R * R
            st["ratio"] = max(st["ratio"], err / env if env > 0 else (0.0 if err == 0 else float("inf")))
        return out

    def dd(x1, x2, x1_eq_x2=False):
        st["used_sqrt"] = True
        return o_d(x1, x2, x1_eq_x2)
    KK.sq_dist, KK.dist = sq, dd
    try:
        compute()
    finally:
        KK.sq_dist, KK.dist = o_sq, o_d
    return st


def guarded_attribution(still_symptomatic, magnitude):
    """The known finding `sq_dist-cancellation` applies only when ALL of
      (a)  the symptom disappears when sq_dist/dist are replaced by accurate pairwise distances;
      (b1) every sq_dist call of the computation is within the rounding envelope ENV_C*eps*R^2 of the exact squared
           distances, non-negative, with an exactly zero diagonal (so a removed clamp / zero-fill is NOT covered);
      (b2) the size of the symptom (|lambda_min|/||K||, asymmetry/max|K|) is within ENV_C*eps*R^2 when only sq_dist is
           involved, ENV_C*sqrt(eps)*R when the kernel takes dist() = sqrt(sq_dist) (kink at 0);
      (c)  the geometry is the extreme one: R >= ENV_R_SMOOTH, or (dist() kernels only) some pair of distinct rows lies
           below the sqrt noise floor ENV_C*sqrt(eps)*R (nearly coincident rows).
    R = max_i ||x_i - mean|| of the (lengthscale-scaled) inputs handed to sq_dist.
    `still_symptomatic()` re-runs the computation and says whether the symptom is still there.  -> (bool, explanation)"""
    try:
        with accurate_distances():
            a = not still_symptomatic()
        st = probe_distances(still_symptomatic)
    except Exception as e:
        return False, f"attribution failed: {type(e).__name__}: {e}"
    if st["calls"] == 0:
        return False, "the computation does not call sq_dist"
    R = st["R"]
    b1 = st["ratio"] <= 1.0 and not st["negative"] and not st["diag_nonzero"]
    env = ENV_C * math.sqrt(EPS) * R if st["used_sqrt"] else ENV_C * EPS * R * R
    b2 = magnitude <= env
    c = (R >= ENV_R_SMOOTH) or (st["used_sqrt"] and st["min_offdiag_dist"] <= ENV_C * math.sqrt(EPS) * R)
    expl = (f"R={R:.3g}, through dist()={st['used_sqrt']}, accurate-distance re-evaluation clean={a}, sq_dist error/envelope="
            f"{st['ratio']:.2g}, negative sq_dist={st['negative']}, nonzero diagonal={st['diag_nonzero']}, symptom size "
            f"{magnitude:.2e} vs envelope {env:.2e}, extreme geometry={c}")
    return (a and b1 and b2 and c), expl


SOFT = ("indefinite", "asymmetric", "negative-diagonal", "nonfinite")


def attribute_sq_dist(rec, magnitude):
    fam, hp, d = rec["fam"], rec["hp"], rec["d"]

    def still():
        K2, Kd2, _ = gram(fam, hp, rec["X"], d, rec.get("mode", "plain"))
        s2, _ = float_screen(K2, Kd2)
        return any(x in SOFT for x, _ in s2)
    return guarded_attribution(still, magnitude)


def report_gram(ctx, rec, neg):
    """Turn the symptoms of one Gram matrix into ctx.fail entries (with guarded root-cause attribution)."""
    fam, hp, d = rec["fam"], rec["hp"], rec["d"]
    info = rec["info"]
    replay = {"kind": "gram", "family": fam, "hp": hp, "d": d, "geometry": rec["geometry"], "mode": rec.get("mode", "plain"),
              "kernel_input": [[C.rat_str(v) for v in row] for row in rec["X"].tolist()],
              "rel_min_eig_float": info.get("rel_min_eig"), "norm": info.get("norm")}
    if rec["K"].shape[-1] <= 16:
        replay["K_float64_exact"] = [[C.rat_str(fr(v)) for v in row] for row in rec["K"].tolist()]
    if neg is not None:
        replay["delta"] = C.rat_str(rec["delta"])
        replay["witness_v"] = [C.rat_str(x) for x in neg[2]]
        replay["vT_(K+delta I)_v"] = C.rat_str(neg[1])
        replay["vT_K_v"] = C.rat_str(quad(rec["rows"], neg[2]))
    for s, detail in rec["symptoms"]:
        what = f"{rec['cls']} {hp} on `{rec['geometry']}` (n={rec['n']}, d={d}" + \
               (f", evaluation mode {rec['mode']}" if rec.get("mode", "plain") != "plain" else "") + f"): {detail}"
        key = f"gram-{s}:{rec['cls']}"
        if s in ("indefinite", "asymmetric", "negative-diagonal"):
            mag = info.get("asym_rel", 0.0) if s == "asymmetric" else abs(min(info.get("rel_min_eig", 0.0), 0.0))
            if s == "negative-diagonal":
                mag = max(mag, EIG_TOL)
            ok, expl = attribute_sq_dist(rec, mag)
            replay["attribution"] = expl
            if ok:
                key = f"gram-indefinite:sq_dist-cancellation/{rec['cls']}" + ("" if s != "asymmetric" else "/asymmetric")
                what += "; attributed to the rounding of the quadratic expansion in kernels.kernel.sq_dist: " + expl
            else:
                what += "; NOT attributable to sq_dist rounding: " + expl
        if neg is not None and s == "indefinite":
            what += f"; exact witness v with v^T K v = {float(quad(rec['rows'], neg[2])):.3e} < -delta |v|^2"
        ctx.fail(key, what, replay)


def recheck_gram(case):
    """replay: True when the recorded Gram case no longer shows any symptom"""
    torch = _torch()
    X = torch.tensor([[float(Fraction(v)) for v in row] for row in case["kernel_input"]])
    if case["family"] == "index":
        X = X.long()
    K, Kd, _ = gram(case["family"], case["hp"], X, case["d"], case.get("mode", "plain"))
    s, _ = float_screen(K, Kd)
    return not s


def report_model_fails(ctx, fails, p, still):
    """fails: tuples (key, what) or (key, what, symptom, magnitude, label); soft symptoms get the guarded attribution"""
    for f in fails:
        key, what = f[0], f[1]
        if len(f) == 5 and f[2] in SOFT:
            ok, expl = guarded_attribution(still, f[3])
            if ok:
                key = f"gram-indefinite:sq_dist-cancellation/{f[4]}" + ("/asymmetric" if f[2] == "asymmetric" else "")
                what += "; attributed to the rounding of the quadratic expansion in kernels.kernel.sq_dist: " + expl
            else:
                what += "; NOT attributable to sq_dist rounding: " + expl
        ctx.fail(key, what, p)


# ------------------------------------------------------------------------------------------------ exact GP grid

def _exact_model(kind, hp, train_x, train_y, noise):
    import torch
    import gpytorch

    class M(gpytorch.models.ExactGP):
        def __init__(self, tx, ty, lik):
            super().__init__(tx, ty, lik)
            self.mean_module = gpytorch.means.ConstantMean()
            if kind == "scale_rbf":
                b = gpytorch.kernels.RBFKernel()
            elif kind == "scale_matern1.5":
                b = gpytorch.kernels.MaternKernel(nu=1.5)
            elif kind == "scale_matern0.5":
                b = gpytorch.kernels.MaternKernel(nu=0.5)
            elif kind == "scale_rq":
                b = gpytorch.kernels.RQKernel()
            elif kind == "rbf_plus_linear":
                b = gpytorch.kernels.RBFKernel() + gpytorch.kernels.LinearKernel()
            elif kind == "poly2":
                b = gpytorch.kernels.PolynomialKernel(power=2)
            else:
                raise RuntimeError(kind)
            self.covar_module = gpytorch.kernels.ScaleKernel(b)

        def forward(self, x):
            return gpytorch.distributions.MultivariateNormal(self.mean_module(x), self.covar_module(x))
    lik = gpytorch.likelihoods.GaussianLikelihood()
    m = M(train_x, train_y, lik)
    m.covar_module.outputscale = hp["s"]
    base = m.covar_module.base_kernel
    for sub in ([base] if not hasattr(base, "kernels") else list(base.kernels)):
        if getattr(sub, "has_lengthscale", False):
            sub.lengthscale = hp["l"]
    lik.noise = noise
    m.mean_module.constant.data.fill_(hp.get("mean", 0.0))
    return m.eval(), lik.eval()


def exact_gp_payload(rng, kind):
    import torch
    g = torch.Generator().manual_seed(rng.torch_seed())
    n = rng.choice([3, 4, 5, 6, 7])
    m = rng.choice([2, 3, 4])
    d = rng.choice([1, 2])
    tx = torch.randn(n, d, generator=g)
    ty = torch.randn(n, generator=g)
    sx = torch.randn(m, d, generator=g)
    flavour = rng.choice(["plain", "test_on_train", "dup_train", "near_test"])
    if flavour == "test_on_train":
        sx[0] = tx[0]
    elif flavour == "dup_train":
        tx[1] = tx[0]
    elif flavour == "near_test":
        sx[1] = sx[0] + 1e-9
    s = rng.choice([1e-2, 1.0, 1e2])
    hp = {"s": s, "l": rng.choice([0.3, 1.0, 3.0]), "mean": rng.choice([0.0, 1.5])}
    noise = s * rng.choice([3e-2, 1e-1, 1.0])
    return {"kind": "exact_gp", "kernel": kind, "hp": hp, "noise": noise, "flavour": flavour,
            "train_x": tx.tolist(), "train_y": ty.tolist(), "test_x": sx.tolist()}


def cov_screen(M, ref_norm):
    """symptoms of a covariance matrix, tolerance relative to max(||M||, ref_norm)"""
    s, info = float_screen(M, None, scale_ref=ref_norm, sym_tol=SYM_TOL_DERIVED)
    return [x for x in s if x[0] != "correlation>1"], info


def run_exact_gp(ctx, drv, p, want_driver=True):
    """All C07 checks for one exact-GP configuration.  Returns list of (key, what)."""
    import torch
    import gpytorch
    fails = []
    tx, ty, sx = torch.tensor(p["train_x"]), torch.tensor(p["train_y"]), torch.tensor(p["test_x"])
    model, lik = _exact_model(p["kernel"], p["hp"], tx, ty, p["noise"])
    n, m = tx.shape[0], sx.shape[0]
    with torch.no_grad(), warnings.catch_warnings():
        warnings.simplefilter("ignore")
        with gpytorch.settings.prior_mode(True):
            prior = model(sx).covariance_matrix.clone()
        post_d = model(sx)
        post = post_d.covariance_matrix.clone()
        marg_d = lik(post_d)
        marg = marg_d.covariance_matrix.clone()
        fails += W3().dist_consistency(post_d, f"exact GP {p['kernel']}/{p['flavour']}: posterior", f"exactgp-posterior:{p['kernel']}")
        fails += W3().dist_consistency(marg_d, f"exact GP {p['kernel']}/{p['flavour']}: marginal", f"exactgp-marginal:{p['kernel']}")
        # the kernel blocks as the model evaluates them: K(tx,tx) by the prediction strategy; test rows against all
        # columns in one rectangular evaluation (DefaultPredictionStrategy.exact_prediction, eager branch)
        Ktt = model.covar_module(tx).to_dense()
        Krect = model.covar_module(sx, torch.cat([tx, sx], 0)).to_dense()   # exact_prediction: joint_covar[n:, :]
        Kts = Krect[:, :n].transpose(-1, -2).contiguous()
        Kss = Krect[:, n:]
        noise = lik.noise.item()
    scale = max(torch.linalg.eigvalsh((prior + prior.T) / 2).abs().max().item(), 1e-300)
    tag = f"{p['kernel']}/{p['flavour']}"
    # the rarely used branch of exact_prediction: joint kernel kept lazy (size above max_eager_kernel_size)
    model_l, lik_l = _exact_model(p["kernel"], p["hp"], tx, ty, p["noise"])
    with torch.no_grad(), warnings.catch_warnings(), gpytorch.settings.max_eager_kernel_size(1):
        warnings.simplefilter("ignore")
        lazy_d = model_l(sx)
        lazy_var = lazy_d.variance.clone()          # read before the dense matrix exists: the kernel's diag=True path
        fails += W3().dist_consistency(lazy_d, f"exact GP {tag} max_eager_kernel_size(1): posterior through the lazily evaluated joint",
                                       f"exactgp-posterior(lazy joint):{p['kernel']}", scale)
        post_lazy = lazy_d.covariance_matrix.clone()
    exc = (lazy_var - prior.diagonal()).max().item()
    if exc > MONO_TOL * scale:
        fails.append((f"exactgp-posterior(lazy joint)-variance-above-prior:{p['kernel']}",
                      f"exact GP {tag} max_eager_kernel_size(1): a posterior variance exceeds the prior variance of the same point by {exc:.3e} "
                      f"(scale {scale:.3e})"))
    sm, info = cov_screen(post_lazy, scale)
    for sym, detail in sm:
        mag = info.get("asym_rel", 0.0) if sym == "asymmetric" else max(abs(min(info.get("rel_min_eig", 0.0), 0.0)), EIG_TOL)
        fails.append((f"exactgp-posterior(lazy joint)-{sym}:{p['kernel']}", f"exact GP {tag} n={n} m={m} max_eager_kernel_size(1): posterior covariance {detail}",
                      sym, mag, f"ExactGP({p['kernel']})/posterior-lazy"))
    dl = (post_lazy - post).abs().max().item()
    if dl > 1e-7 * scale and p["flavour"] != "near_test":   # (near_test: the two branches evaluate k(x*,x*) through different distance paths)
        fails.append((f"exactgp-lazy-vs-eager:{p['kernel']}", f"exact GP {tag}: posterior covariance with a lazily evaluated joint kernel "
                      f"(max_eager_kernel_size(1)) differs from the eager one by {dl:.3e} (scale {scale:.3e})"))
    for name, Mx in (("prior", prior), ("posterior", post), ("marginal", marg), ("prior-minus-posterior", prior - post)):
        s, info = cov_screen(Mx, scale)
        for sym, detail in s:
            mag = info.get("asym_rel", 0.0) if sym == "asymmetric" else max(abs(min(info.get("rel_min_eig", 0.0), 0.0)), EIG_TOL)
            fails.append((f"exactgp-{name}-{sym}:{p['kernel']}", f"exact GP {tag} n={n} m={m}: {name} covariance {detail}",
                          sym, mag, f"ExactGP({p['kernel']})/{name}"))
    # marginal = posterior + noise I with noise >= bound
    dm = (marg - post - noise * torch.eye(m)).abs().max().item()
    if dm > 1e-9 * (scale + noise):
        fails.append((f"exactgp-marginal-noise:{p['kernel']}", f"exact GP {tag}: marginal - posterior - noise I = {dm:.3e}"))
    # appended rows: variances non-increasing
    prev = None
    for k in range(1, n + 1):
        mk, _ = _exact_model(p["kernel"], p["hp"], tx[:k], ty[:k], p["noise"])
        with torch.no_grad(), warnings.catch_warnings():
            warnings.simplefilter("ignore")
            cov_k = mk(sx).covariance_matrix
            var = cov_k.diagonal().clone()
        if prev is not None:
            inc = (var - prev).max().item()
            if inc > MONO_TOL * scale:
                fails.append((f"exactgp-more-data-more-variance:{p['kernel']}",
                              f"exact GP {tag}: adding training row {k} of {n} RAISES a posterior variance by {inc:.3e} "
                              f"(scale {scale:.3e})"))
                break
            s, _ = cov_screen(prev_cov - cov_k, scale)
            if any(x[0] == "indefinite" for x in s):
                fails.append((f"exactgp-loewner:{p['kernel']}",
                              f"exact GP {tag}: posterior({k - 1} rows) - posterior({k} rows) is not PSD: {s[0][1]}"))
                break
        prev, prev_cov = var, cov_k.clone()
    if want_driver and drv is not None:
        A = Ktt + noise * torch.eye(n)
        B, D = Kts, Kss
        line = f"schur {rows_tokens(rat_rows(A))} {rows_tokens(rat_rows(B))} {rows_tokens(rat_rows(D))}"
        kappa = torch.linalg.eigvalsh((A + A.T) / 2).abs().max().item() / noise   # lambda_min(A) >= noise
        tol = 1e3 * n * kappa * 2.0 ** -52 * scale + 1e-12

        def cb(rep, post=post, tag=tag, tol=tol, p=p):
            if rep in ("singular", "bad"):
                ctx.broke("correspondence", "schur", f"{tag}: driver says {rep}")
                return
            rows, _ = C.parse_mat(rep.split())
            ex = torch.tensor([[float(v) for v in r] for r in rows])
            diff = (ex - post).abs().max().item()
            ctx.count("schur_compared")
            _state.setdefault("schur_max_diff_over_tol", 0.0)
            _state["schur_max_diff_over_tol"] = max(_state["schur_max_diff_over_tol"], diff / tol)
            if diff > tol:
                ctx.fail(f"exactgp-posterior-vs-schur:{p['kernel']}",
                         f"exact GP {tag}: posterior covariance differs from the exact Schur complement "
                         f"D - B^T A^-1 B of the same kernel blocks by {diff:.3e} (tol {tol:.1e})", p)
            # the exact Schur complement itself: certified PSD up to the same relative shift
            rr = sym_rows(rows)
            dl = fr(EIG_TOL * scale)

            def cb2(rep2, tag=tag, p=p):
                parts = rep2.split(";")
                if len(parts) == 2 and parse_decision(parts[1])[0] == "neg":
                    ctx.fail(f"exactgp-schur-indefinite:{p['kernel']}",
                             f"exact GP {tag}: the exact Schur complement of the float64 kernel blocks has an "
                             f"eigenvalue below -1e-9*||prior||", p)
                ctx.count("schur_certified")
            drv.ask(f"psd {C.rat_str(dl)} {rows_tokens(rr)}", cb2)
        drv.ask(line, cb)
        for name, Mx in (("posterior", post), ("marginal", marg), ("prior-minus-posterior", prior - post)):
            rows = sym_rows(rat_rows(Mx))
            dl = fr(EIG_TOL * scale)

            def cb3(rep, name=name, tag=tag, p=p, rows=rows):
                parts = rep.split(";")
                if len(parts) != 2:
                    return
                dd = parse_decision(parts[1])
                ctx.count("model_cov_certified")
                if dd[0] == "neg":
                    q = dict(p)
                    q["witness_v"] = [C.rat_str(x) for x in dd[2]]
                    q["matrix"] = name
                    qv = float(quad(rows, dd[2]))
                    vv = float(sum(x * x for x in dd[2]))
                    mag = max(EIG_TOL, -qv / (vv * scale)) if vv > 0 else EIG_TOL
                    report_model_fails(ctx, [(f"exactgp-{name}-indefinite:{p['kernel']}",
                                              f"exact GP {tag}: {name} covariance has exact negative curvature "
                                              f"v^T M v = {qv:.3e} (|v|^2 = {vv:.3e}) beyond -1e-9*||prior||",
                                              "indefinite", mag, f"ExactGP({p['kernel']})/{name}")], q,
                                       lambda p=p: bool(run_exact_gp(None, None, p, want_driver=False)))
            drv.ask(f"psd {C.rat_str(dl)} {rows_tokens(rows)}", cb3)
    return fails


def exact_gp_cases(ctx, drv, tier):
    rng = ctx.rng("exactgp")
    kinds = ["scale_rbf", "scale_matern1.5", "scale_matern0.5", "scale_rq", "rbf_plus_linear", "poly2"]
    reps = 4 if tier == "quick" else 80
    for kind in kinds:
        for _ in range(reps):
            p = exact_gp_payload(rng, kind)
            try:
                fails = run_exact_gp(ctx, drv, p)
            except Exception as e:
                ctx.broke("correspondence", f"exactgp:{kind}", f"{type(e).__name__}: {e}"[:600])
                continue
            ctx.case(f"exactgp {kind} {p['flavour']} {p['hp']} noise={p['noise']} n={len(p['train_x'])} m={len(p['test_x'])} "
                     f"x0={p['train_x'][0]}", sample={"kind": "exact_gp", "kernel": kind, "flavour": p["flavour"]})
            report_model_fails(ctx, fails, p, lambda p=p: bool(run_exact_gp(None, None, p, want_driver=False)))


# ------------------------------------------------------------------------------------------------ posterior checks shared by
# the NaN-policy grid and the multi-step histories

def posterior_checks(ctx, drv, model, lik, tx, sx, obs, tag, label, p, want_driver=True, call=None, compare=True):
    """Validity of everything an exact GP hands out for test points `sx` *in its current state*:
    prior, posterior, marginal symmetric PSD; prior - posterior PSD; variance floor; posterior = exact Schur complement
    of the kernel blocks evaluated with the *current* parameters over the observed training rows `obs` (bool mask).
    `call(x)` produces the posterior distribution (default: model(x)).  Returns list of fail tuples."""
    import torch
    import gpytorch
    fails = []
    n, m = tx.shape[0], sx.shape[0]
    call = call or (lambda x: model(x))
    with torch.no_grad(), warnings.catch_warnings():
        warnings.simplefilter("ignore")
        post_d = call(sx)
        post = post_d.covariance_matrix.clone()
        var, sd = post_d.variance.clone(), post_d.stddev.clone()
        marg = lik(post_d).covariance_matrix.clone()
        fails += W3().dist_consistency(post_d, f"{tag}: posterior", label + "-posterior")
        # reference blocks from the modules as they are NOW (no prediction-strategy caches involved)
        with gpytorch.settings.lazily_evaluate_kernels(False):
            Ktt = to_dense_(model.covar_module(tx))
            Krect = to_dense_(model.covar_module(sx, torch.cat([tx, sx], 0)))
        prior = Krect[:, n:]
        prior = (prior + prior.T) / 2
        noise = lik.noise.reshape(-1)[0].item()
    scale = max(torch.linalg.eigvalsh(prior).abs().max().item(), 1e-300)
    for name, Mx in (("posterior", post), ("marginal", marg), ("prior-minus-posterior", prior - post)):
        sm, info = cov_screen(Mx, scale)
        for sym, detail in sm:
            mag = info.get("asym_rel", 0.0) if sym == "asymmetric" else max(abs(min(info.get("rel_min_eig", 0.0), 0.0)), EIG_TOL)
            fails.append((f"{label}-{name}-{sym}", f"{tag}: {name} covariance {detail}", sym, mag, f"{label}/{name}"))
    b = gpytorch.settings.min_variance.value(torch.double)
    if (var < b).any() or torch.isnan(sd).any():
        fails.append((f"{label}-variance-below-min", f"{tag}: variance {var.tolist()} below min_variance {b} / stddev {sd.tolist()}"))
    if want_driver and drv is not None and compare:
        o = obs.nonzero().reshape(-1)
        A = Ktt[o][:, o] + noise * torch.eye(len(o))
        B = Krect[:, :n][:, o].transpose(-1, -2).contiguous()
        D = Krect[:, n:]
        if len(o) > 0:
            kappa = torch.linalg.eigvalsh((A + A.T) / 2).abs().max().item() / noise
            tol = 1e3 * max(n, 1) * kappa * 2.0 ** -52 * scale + 1e-12

            def cb(rep, post=post, tol=tol):
                if rep in ("singular", "bad"):
                    ctx.broke("correspondence", "schur", f"{tag}: driver says {rep}")
                    return
                rows, _ = C.parse_mat(rep.split())
                ex = torch.tensor([[float(v) for v in r] for r in rows])
                diff = (ex - post).abs().max().item()
                ctx.count("schur_compared")
                if diff > tol:
                    ctx.fail(f"{label}-posterior-vs-schur",
                             f"{tag}: posterior covariance differs from the exact Schur complement D - B^T A^-1 B of the kernel "
                             f"blocks of the CURRENT parameters over the observed training rows by {diff:.3e} (tol {tol:.1e})", p)
            drv.ask(f"schur {rows_tokens(rat_rows(A))} {rows_tokens(rat_rows(B))} {rows_tokens(rat_rows(D))}", cb)
    return fails, {"post": post, "var": var, "prior": prior, "scale": scale}


def to_dense_(x):
    return x.to_dense() if hasattr(x, "to_dense") else x


# ------------------------------------------------------------------------------------------------ NaN policies

def nan_payload(rng, kind, policy):
    import torch
    g = torch.Generator().manual_seed(rng.torch_seed())
    n = rng.choice([4, 5, 6, 7])
    m = rng.choice([2, 3, 4])
    d = rng.choice([1, 2])
    tx = torch.randn(n, d, generator=g)
    ty = torch.randn(n, generator=g)
    sx = torch.randn(m, d, generator=g)
    k = rng.choice([1, 2, max(1, n // 2)])
    missing = sorted(rng.sample(range(n), k))
    flavour = rng.choice(["test_near_missing", "test_on_missing", "plain"])
    if flavour == "test_near_missing":
        sx[0] = tx[missing[0]] + 0.05
    elif flavour == "test_on_missing":
        sx[0] = tx[missing[0]]
    s = rng.choice([1.0, 10.0])
    return {"kind": "nan_policy", "policy": policy, "kernel": kind, "hp": {"s": s, "l": rng.choice([0.5, 1.0, 2.0]), "mean": 0.0},
            "noise": s * rng.choice([3e-2, 1e-1]), "flavour": flavour, "missing": missing,
            "train_x": tx.tolist(), "train_y": ty.tolist(), "test_x": sx.tolist()}


def run_nan_policy(ctx, drv, p, want_driver=True):
    import torch
    import gpytorch
    tx, sx = torch.tensor(p["train_x"]), torch.tensor(p["test_x"])
    ty_full = torch.tensor(p["train_y"])
    ty = ty_full.clone()
    ty[p["missing"]] = float("nan")
    obs = ~torch.isnan(ty)
    tag = f"exact GP {p['kernel']} observation_nan_policy('{p['policy']}') missing={p['missing']} {p['flavour']}"
    label = f"nanpolicy-{p['policy']}"
    model, lik = _exact_model(p["kernel"], p["hp"], tx, ty, p["noise"])
    with gpytorch.settings.observation_nan_policy(p["policy"]):
        fails, r = posterior_checks(ctx, drv, model, lik, tx, sx, obs, tag, label, p, want_driver)
        # prediction twice (second call goes through the caches)
        with torch.no_grad(), warnings.catch_warnings():
            warnings.simplefilter("ignore")
            again = model(sx).covariance_matrix
    if (again - r["post"]).abs().max().item() > 1e-9 * r["scale"]:
        fails.append((f"{label}-second-call-differs", f"{tag}: second prediction differs by {(again - r['post']).abs().max().item():.3e}"))
    # more data, less variance: the model that observed ALL rows can only be more certain
    mfull, _ = _exact_model(p["kernel"], p["hp"], tx, ty_full, p["noise"])
    with torch.no_grad(), warnings.catch_warnings():
        warnings.simplefilter("ignore")
        cov_full = mfull(sx).covariance_matrix
    dec = (cov_full.diagonal() - r["var"]).max().item()
    if dec > MONO_TOL * r["scale"]:
        fails.append((f"{label}-less-data-less-variance",
                      f"{tag}: a posterior variance is {dec:.3e} BELOW that of the same model with every target observed "
                      f"(scale {r['scale']:.3e}): conditioning on fewer observations must not reduce uncertainty"))
    sm, info = cov_screen(r["post"] - cov_full, r["scale"])
    for sym, detail in sm:
        if sym == "indefinite":
            fails.append((f"{label}-loewner", f"{tag}: posterior(missing) - posterior(all observed) is not PSD: {detail}",
                          sym, max(abs(info.get("rel_min_eig", 0.0)), EIG_TOL), f"{label}/loewner"))
    # deletion semantics: same as the model trained on the observed rows only
    mdel, _ = _exact_model(p["kernel"], p["hp"], tx[obs], ty_full[obs], p["noise"])
    with torch.no_grad(), warnings.catch_warnings():
        warnings.simplefilter("ignore")
        cov_del = mdel(sx).covariance_matrix
    dd = (cov_del - r["post"]).abs().max().item()
    if dd > 1e-8 * r["scale"]:
        fails.append((f"{label}-vs-deletion", f"{tag}: posterior covariance differs from the model trained on the observed rows only by {dd:.3e}"))
    return fails


def nan_policy_cases(ctx, drv, tier):
    rng = ctx.rng("nanpolicy")
    reps = 5 if tier == "quick" else 40
    for policy in ("mask", "fill"):
        for kind in ("scale_rbf", "scale_matern1.5", "rbf_plus_linear"):
            for _ in range(reps):
                p = nan_payload(rng, kind, policy)
                try:
                    fails = run_nan_policy(ctx, drv, p)
                except Exception as e:
                    ctx.broke("correspondence", f"nanpolicy:{policy}/{kind}", f"{type(e).__name__}: {e}"[:600])
                    continue
                ctx.case(f"nanpolicy {policy} {kind} {p['flavour']} missing={p['missing']} n={len(p['train_x'])} x0={p['train_x'][0]}",
                         sample={"kind": "nan_policy", "policy": policy, "kernel": kind, "missing": p["missing"], "flavour": p["flavour"]})
                report_model_fails(ctx, fails, p, lambda p=p: bool(run_nan_policy(None, None, p, want_driver=False)))


# ------------------------------------------------------------------------------------------------ multi-step histories

HIST_KINDS = ["exact", "exact_fast_pred_var", "model_list", "model_list_fast_pred_var", "wrapper_exact", "wrapper_exact_fast_pred_var",
              "svgp_whitened", "svgp_unwhitened", "wrapper_svgp"]
HIST_OPS = ["load_state_dict", "set_train_data", "train_step_eval", "load_state_dict_partial", "set_train_targets", "set_train_inputs"]


def history_payload(rng, kind):
    import torch
    g = torch.Generator().manual_seed(rng.torch_seed())
    d = rng.choice([1, 2])
    n = rng.choice([4, 5, 6])
    m = rng.choice([2, 3])

    def hp():
        return {"s": rng.choice([0.2, 1.0, 5.0, 25.0]), "l": rng.choice([0.3, 1.0, 3.0]), "mean": 0.0}
    ops = [rng.choice(HIST_OPS) for _ in range(rng.choice([1, 2, 3]))]
    if not kind.startswith(("exact", "model_list", "wrapper_exact")):
        ops = [o if o not in ("set_train_data", "set_train_targets", "set_train_inputs") else "load_state_dict" for o in ops]
    p = {"kind": "history", "model": kind, "ops": ops, "d": d,
         "train_x": torch.randn(n, d, generator=g).tolist(), "train_y": torch.randn(n, generator=g).tolist(),
         "train_x2": torch.randn(n + 1, d, generator=g).tolist(), "train_y2": torch.randn(n + 1, generator=g).tolist(),
         "test_x": torch.randn(m, d, generator=g).tolist(),
         "hps": [hp() for _ in range(len(ops) + 1)], "hps_b": [hp() for _ in range(len(ops) + 1)],
         "noise_rel": [rng.choice([3e-2, 1e-1, 0.5]) for _ in range(len(ops) + 1)],
         "kernel": rng.choice(["scale_rbf", "scale_matern1.5"])}
    if rng.random() < 0.5:
        p["test_x"][0] = p["train_x"][0]
    if kind.startswith(("svgp", "wrapper_svgp")):
        mz = rng.choice([2, 3, 4])
        p["inducing"] = (torch.randn(mz, d, generator=g) * 1.5).tolist()
        p["vparams"] = []
        for _ in range(len(ops) + 1):
            Lc = torch.tril(torch.randn(mz, mz, generator=g)) * 0.7
            Lc = Lc - torch.diag(torch.diag(Lc)) + torch.diag(torch.rand(mz, generator=g) + 0.1)
            p["vparams"].append({"vmean": torch.randn(mz, generator=g).tolist(), "vchol": Lc.tolist()})
    return p


def _hist_build(p, j):
    """(container, leaves) for parameter set j.  leaves: list of dict(model, lik, tx, kind) that hand out covariances;
    container: the top-level module that receives load_state_dict / train() / eval()."""
    import torch
    import gpytorch
    kind = p["model"]
    tx, ty = torch.tensor(p["train_x"]), torch.tensor(p["train_y"])

    class Wrap(gpytorch.Module):
        def __init__(self, inner, lik):
            super().__init__()
            self.inner = inner
            self.inner_likelihood = lik

        def forward(self, x):
            return self.inner(x)
    if kind.startswith(("exact", "wrapper_exact")):
        hp = p["hps"][j]
        m, lik = _exact_model(p["kernel"], hp, tx, ty, hp["s"] * p["noise_rel"][j])
        leaves = [{"model": m, "lik": lik, "exact": True}]
        top = m if kind.startswith("exact") else Wrap(m, lik).eval()
        return top, leaves
    if kind.startswith("model_list"):
        a, la = _exact_model(p["kernel"], p["hps"][j], tx, ty, p["hps"][j]["s"] * p["noise_rel"][j])
        b, lb = _exact_model("scale_rbf", p["hps_b"][j], tx.flip(0).clone(), ty.flip(0).clone(), p["hps_b"][j]["s"] * p["noise_rel"][j])
        top = gpytorch.models.IndependentModelList(a, b).eval()
        return top, [{"model": a, "lik": la, "exact": True}, {"model": b, "lik": lb, "exact": True}]
    # SVGP
    q = {"inducing": p["inducing"], "vdist": "cholesky", "strategy": "unwhitened" if kind == "svgp_unwhitened" else "whitened",
         "kernel": "rbf" if p["kernel"] == "scale_rbf" else "matern1.5", "s": p["hps"][j]["s"], "l": p["hps"][j]["l"],
         "vmean": p["vparams"][j]["vmean"], "vchol": p["vparams"][j]["vchol"], "vstd": None}
    m, vd = _var_model(q)
    lik = gpytorch.likelihoods.GaussianLikelihood().eval()
    lik.noise = p["hps"][j]["s"] * p["noise_rel"][j]
    leaves = [{"model": m, "lik": lik, "exact": False, "vd": vd, "strategy": q["strategy"]}]
    top = m if kind != "wrapper_svgp" else Wrap(m, lik).eval()
    return top, leaves


def svgp_checks(ctx, drv, leaf, sx, tag, label, p, want_driver=True):
    import torch
    fails = []
    model, lik, vd = leaf["model"], leaf["lik"], leaf["vd"]
    Z = model.variational_strategy.inducing_points.detach()
    with torch.no_grad(), warnings.catch_warnings():
        warnings.simplefilter("ignore")
        q = model(sx)
        qc = q.covariance_matrix.clone()
        var, sd = q.variance.clone(), q.stddev.clone()
        pc = lik(q).covariance_matrix.clone()
        fails += W3().dist_consistency(q, f"{tag}: q(f)", label + "-q(f)")
        S = vd().covariance_matrix.clone()
        Kxx = model.covar_module(sx).to_dense()
        Kzz = model.covar_module(Z).to_dense()
        Kzx = model.covar_module(Z, sx).to_dense()
    scale = max(torch.linalg.eigvalsh((Kxx + Kxx.T) / 2).abs().max().item(), 1e-300)
    sscale = max(scale, torch.linalg.eigvalsh((S + S.T) / 2).abs().max().item())
    for name, Mx in (("q(f)", qc), ("predictive", pc)):
        sm, info = cov_screen(Mx, sscale)
        for sym, detail in sm:
            mag = info.get("asym_rel", 0.0) if sym == "asymmetric" else max(abs(min(info.get("rel_min_eig", 0.0), 0.0)), EIG_TOL)
            fails.append((f"{label}-{name}-{sym}", f"{tag}: {name} covariance {detail}", sym, mag, f"{label}/{name}"))
    import gpytorch
    b = gpytorch.settings.min_variance.value(torch.double)
    if (var < b).any() or torch.isnan(sd).any():
        fails.append((f"{label}-variance-below-min", f"{tag}: variance {var.tolist()} below min_variance {b}"))
    jit = model.variational_strategy.jitter_val
    mz = Z.shape[0]
    Kj = Kzz + jit * torch.eye(mz)
    if torch.linalg.cond(Kj).item() > 1e6:
        ctx and ctx.count("variational_discarded_ill_conditioned")
        return fails
    if leaf["strategy"] == "whitened":
        if want_driver and drv is not None:
            L = torch.linalg.cholesky(Kj)
            B = torch.linalg.solve_triangular(L, Kzx, upper=False)
            Kss = Kxx + jit * torch.eye(sx.shape[0])
            tol = 1e-8 * sscale * max(1.0, sscale / scale) + 1e-12

            def cb(rep, qc=qc, tol=tol):
                rows, _ = C.parse_mat(rep.split())
                ex = torch.tensor([[float(v) for v in r] for r in rows])
                diff = (ex - qc).abs().max().item()
                ctx.count("vcov_compared")
                if diff > tol:
                    ctx.fail(f"{label}-vs-model", f"{tag}: q(f) covariance differs from K_xx - B^T (I - S) B evaluated with the CURRENT "
                             f"parameters by {diff:.3e} (tol {tol:.1e})", p)
            drv.ask(f"vcov {rows_tokens(rat_rows(Kss))} {rows_tokens(rat_rows(B))} {rows_tokens(rat_rows(S))}", cb)
    else:
        # unwhitened: K_xx - K_xz K_zz^-1 (K_zz - S) K_zz^-1 K_zx   (float reference; cond <= 1e6 ensured above)
        W = torch.linalg.solve(Kj, Kzx)
        ref = Kxx - W.T @ (Kj - S) @ W    # (the unwhitened strategy adds the jitter to K_zz only)
        diff = (ref - qc).abs().max().item()
        if diff > 1e-6 * sscale:
            fails.append((f"{label}-vs-model", f"{tag}: q(f) covariance differs from K_xx - K_xz K_zz^-1 (K_zz - S) K_zz^-1 K_zx "
                          f"evaluated with the CURRENT parameters by {diff:.3e} (scale {sscale:.3e})"))
    return fails


def run_history(ctx, drv, p, want_driver=True):
    """predict -> (mutate -> predict)*, staying in eval mode except inside `train_step_eval`; every covariance handed
    out after every step is checked for validity and against the model evaluated with the current parameters."""
    import torch
    import gpytorch
    fails = []
    kind = p["model"]
    fpv = "fast_pred_var" in kind
    sx = torch.tensor(p["test_x"])
    top, leaves = _hist_build(p, 0)
    cur_tx = [torch.tensor(p["train_x"]) if i == 0 or not kind.startswith("model_list") else torch.tensor(p["train_x"]).flip(0).clone()
              for i in range(len(leaves))]

    def predict(step):
        out = []
        for i, leaf in enumerate(leaves):
            tag = f"history {kind} ops={p['ops']} after step {step} ({'initial' if step == 0 else p['ops'][step - 1]}) model#{i}"
            label = f"history-{kind}"
            if leaf["exact"]:
                if kind.startswith("model_list"):
                    def call(x, i=i):
                        return top(*[x for _ in leaves])[i]
                elif kind.startswith("wrapper"):
                    def call(x):
                        return top(x)
                else:
                    call = None
                with gpytorch.settings.fast_pred_var(fpv):
                    f, _ = posterior_checks(ctx, drv, leaf["model"], leaf["lik"], cur_tx[i], sx,
                                            torch.ones(cur_tx[i].shape[0], dtype=torch.bool), tag, label, p, want_driver, call=call)
            else:
                f = svgp_checks(ctx, drv, leaf, sx, tag, label, p, want_driver)
            out += f
        return out
    fails += predict(0)
    for k, op in enumerate(p["ops"], 1):
        if op == "load_state_dict":
            twin, _ = _hist_build(p, k)
            top.load_state_dict(twin.state_dict())
        elif op == "load_state_dict_partial":
            # only the kernel hyperparameters of a twin, strict=False, into the already-used model
            twin, _ = _hist_build(p, k)
            # (for SVGP the strategy's own buffers are kept in the dict: with none of its keys present the pre-hook
            #  `_ensure_updated_strategy_flag_set` of VariationalStrategy raises IndexError on an empty child dict —
            #  a robustness observation outside C07, noted in docs/C07.md)
            sd = {kk: vv for kk, vv in twin.state_dict().items()
                  if "covar_module" in kk or ("variational_strategy." in kk and "_variational_distribution" not in kk)}
            top.load_state_dict(sd, strict=False)
        elif op == "set_train_targets":
            for i, leaf in enumerate(leaves):
                ny = torch.tensor(p["train_y"]).flip(0).clone() * 1.5 + 0.3
                if cur_tx[i].shape[0] != ny.shape[0]:
                    ny = torch.tensor(p["train_y2"]).flip(0).clone() * 1.5 + 0.3
                leaf["model"].set_train_data(targets=ny, strict=False)
        elif op == "set_train_inputs":
            # inputs only (targets omitted): same number of points, new locations
            for i, leaf in enumerate(leaves):
                nx = torch.tensor(p["train_x2"])[: cur_tx[i].shape[0]].clone() * 0.9 + 0.1 * k
                if i == 1:
                    nx = nx.flip(0).clone()
                leaf["model"].set_train_data(inputs=nx, strict=False)
                cur_tx[i] = nx
        elif op == "set_train_data":
            for i, leaf in enumerate(leaves):
                nx, ny = torch.tensor(p["train_x2"]), torch.tensor(p["train_y2"])
                if i == 1:
                    nx, ny = nx.flip(0).clone(), ny.flip(0).clone()
                leaf["model"].set_train_data(nx, ny, strict=False)
                cur_tx[i] = nx
        else:  # train_step_eval: enter training mode, move every raw hyperparameter, return to eval mode
            top.train()
            for leaf in leaves:
                leaf["lik"].train()
            g = torch.Generator().manual_seed(1000 + k)
            with torch.no_grad():
                mods = [top] + [leaf["lik"] for leaf in leaves]
                seen = set()
                for mod in mods:
                    for name, prm in mod.named_parameters():
                        if id(prm) in seen or "inducing_points" in name:
                            continue
                        seen.add(id(prm))
                        if "chol_variational_covar" in name:
                            prm.mul_(1.3)
                        else:
                            prm.add_(0.8 * torch.rand(prm.shape, generator=g) + 0.4)
            top.eval()
            for leaf in leaves:
                leaf["lik"].eval()
        fails += predict(k)
    return fails


def history_cases(ctx, drv, tier):
    rng = ctx.rng("history")
    reps = 5 if tier == "quick" else 40
    dist = {}
    for kind in HIST_KINDS:
        for _ in range(reps):
            p = history_payload(rng, kind)
            try:
                fails = run_history(ctx, drv, p)
            except Exception as e:
                ctx.broke("correspondence", f"history:{kind}", f"{type(e).__name__}: {e}"[:600])
                continue
            for o in p["ops"]:
                dist[o] = dist.get(o, 0) + 1
            ctx.case(f"history {kind} {p['ops']} {p['kernel']} hps={p['hps']} x0={p['train_x'][0]}",
                     sample={"kind": "history", "model": kind, "ops": p["ops"]})
            report_model_fails(ctx, fails, p, lambda p=p: bool(run_history(None, None, p, want_driver=False)))
    ctx.notes["history_ops"] = dist


# ------------------------------------------------------------------------------------------------ fixed-noise fantasies

def fantasy_payload(rng, floor):
    import torch
    g = torch.Generator().manual_seed(rng.torch_seed())
    n = rng.choice([3, 4, 5])
    m = rng.choice([2, 3])
    d = rng.choice([1, 2])
    b = floor if floor is not None else 1e-6
    fpv = rng.random() < 0.4
    # negative raw fantasy noise only without fast_pred_var: with it the fantasy strategy updates its caches from the raw
    # (unfloored) call-time noise and a second round can raise NotPSDError on the unchanged tree (observation, see docs)
    pool = [0.0, b / 10, b, b * (1 - 2 ** -52), b * 3, 0.05, 0.3] + ([] if fpv else [-0.1 * b])
    rounds = []
    for _ in range(rng.choice([1, 1, 2])):
        k = rng.choice([1, 2, 3])
        rounds.append({"x": torch.randn(k, d, generator=g).tolist(), "y": torch.randn(k, generator=g).tolist(),
                       "noise": [rng.choice(pool) for _ in range(k)]})
    if not any(v < b for r in rounds for v in r["noise"]):
        rounds[0]["noise"][0] = rng.choice([0.0, b / 10])
    return {"kind": "fantasy", "floor": floor, "kernel": rng.choice(["scale_rbf", "scale_matern1.5"]),
            "hp": {"s": rng.choice([1.0, 4.0]), "l": rng.choice([0.5, 1.0]), "mean": 0.0},
            "train_x": torch.randn(n, d, generator=g).tolist(), "train_y": torch.randn(n, generator=g).tolist(),
            "train_noise": [rng.choice([b / 10, 0.05, 0.2, 0.0]) for _ in range(n)],
            "test_x": torch.randn(m, d, generator=g).tolist(), "learn_additional_noise": rng.random() < 0.3,
            "fast_pred_var": fpv, "rounds": rounds}


def run_fantasy(ctx, drv, p, want_driver=True):
    """ExactGP + FixedNoiseGaussianLikelihood -> eval -> predict -> get_fantasy_model(x_f, y_f, noise=nu)  (1-2 rounds).
    After every round: the stored noise of the (fantasy) likelihood is >= settings.min_fixed_noise and equals the
    regenerated clamp of cat([old stored, nu]); the noise it adds to the training covariance is >= the floor; the
    posterior is symmetric PSD, prior - posterior PSD, and equals the exact Schur complement with the FLOORED noise."""
    import contextlib
    import torch
    import gpytorch
    fails = []
    floor_cm = gpytorch.settings.min_fixed_noise(double_value=p["floor"]) if p["floor"] is not None else contextlib.nullcontext()
    with floor_cm, warnings.catch_warnings():
        warnings.simplefilter("ignore")
        b = gpytorch.settings.min_fixed_noise.value(torch.double)
        tx, ty, sx = torch.tensor(p["train_x"]), torch.tensor(p["train_y"]), torch.tensor(p["test_x"])
        lik = gpytorch.likelihoods.FixedNoiseGaussianLikelihood(noise=torch.tensor(p["train_noise"]),
                                                                learn_additional_noise=p["learn_additional_noise"])
        base, _ = _exact_model(p["kernel"], p["hp"], tx, ty, 0.5)

        class M(gpytorch.models.ExactGP):
            def __init__(self):
                super().__init__(tx, ty, lik)
                self.mean_module, self.covar_module = base.mean_module, base.covar_module

            def forward(self, x):
                return gpytorch.distributions.MultivariateNormal(self.mean_module(x), self.covar_module(x))
        model = M().eval()
        lik.eval()
        expect = [max(v, b) for v in p["train_noise"]]      # documented meaning; the exact model value comes from the driver
        cur_x = tx

        def check(mod, stage, raw_chain):
            out = []
            tag = f"FixedNoise fantasy history floor={b!r} learn_additional_noise={p['learn_additional_noise']} fast_pred_var={p['fast_pred_var']} {stage}"
            stored = mod.likelihood.noise_covar.noise.detach().reshape(-1)   # (likelihood.noise would add the learned second noise)
            n_all = stored.shape[0]
            if (stored < b).any():
                out.append(("fantasy-noise-below-min:FixedNoiseGaussianLikelihood",
                            f"{tag}: likelihood.noise = {stored.tolist()} has entries below settings.min_fixed_noise = {b!r}"))
            added = mod.likelihood.noise_covar(shape=torch.Size([n_all])).diagonal(dim1=-1, dim2=-2).detach().reshape(-1)
            if (added < b).any():
                out.append(("fantasy-added-noise-below-min:FixedNoiseGaussianLikelihood",
                            f"{tag}: the noise covariance added to the {n_all} training points has diagonal {added.tolist()} < {b!r}"))
            if want_driver and drv is not None:
                def cb(rep, stored=stored.tolist(), raw_chain=list(raw_chain)):
                    vals, _ = C.parse_mat(rep.split())
                    want = [x[0] for x in vals]
                    ctx.count("fixed_noise_compared")
                    if [fr(x) for x in stored] != want:
                        ctx.fail("fantasy-noise-vs-model:FixedNoiseGaussianLikelihood",
                                 f"{tag}: stored noise {stored} but the regenerated FixedGaussianNoise clamp of {raw_chain} with "
                                 f"floor {b!r} gives {[float(w) for w in want]}", p)
                drv.ask(f"fix {C.rat_str(fr(b))} {len(raw_chain)} 1 " + " ".join(C.rat_str(fr(x)) for x in raw_chain), cb)
            # posterior validity and exact reference with the floored noise
            with torch.no_grad(), gpytorch.settings.fast_pred_var(p["fast_pred_var"]):
                post_d = mod(sx)
                post = post_d.covariance_matrix.clone()
                var, sd = post_d.variance.clone(), post_d.stddev.clone()
                with gpytorch.settings.lazily_evaluate_kernels(False):
                    Ktt = to_dense_(mod.covar_module(cur_x))
                    Krect = to_dense_(mod.covar_module(sx, torch.cat([cur_x, sx], 0)))
            nn = cur_x.shape[0]
            prior = (Krect[:, nn:] + Krect[:, nn:].T) / 2
            scale = max(torch.linalg.eigvalsh(prior).abs().max().item(), 1e-300)
            extra0 = mod.likelihood.second_noise.item() if p["learn_additional_noise"] else 0.0
            A0 = Ktt + torch.diag(added) + extra0 * torch.eye(nn)
            ev0 = torch.linalg.eigvalsh((A0 + A0.T) / 2)
            if ev0[0].item() <= 0 or ev0[-1].item() / ev0[0].item() > 1e6:
                ctx and ctx.count("fantasy_discarded_ill_conditioned")   # (noise 0 with floor 0: rounding ~ eps*cond)
                return out
            for name, Mx in (("posterior", post), ("prior-minus-posterior", prior - post)):
                sm, info = cov_screen(Mx, scale)
                for sym, detail in sm:
                    mag = info.get("asym_rel", 0.0) if sym == "asymmetric" else max(abs(min(info.get("rel_min_eig", 0.0), 0.0)), EIG_TOL)
                    out.append((f"fantasy-{name}-{sym}", f"{tag}: {name} covariance {detail}", sym, mag, f"FixedNoiseFantasy/{name}"))
            if (var < gpytorch.settings.min_variance.value(torch.double)).any() or torch.isnan(sd).any():
                out.append(("fantasy-variance-below-min", f"{tag}: variance {var.tolist()}"))
            if want_driver and drv is not None:
                extra = mod.likelihood.second_noise.item() if p["learn_additional_noise"] else 0.0
                floored = torch.tensor([max(v, b) for v in raw_chain]) + extra
                A = Ktt + torch.diag(floored)
                B = Krect[:, :nn].transpose(-1, -2).contiguous()
                D = Krect[:, nn:]
                lam = floored.min().item()
                kappa = torch.linalg.eigvalsh((A + A.T) / 2).abs().max().item() / max(lam, 1e-300)
                if kappa > 1e8:
                    ctx.count("fantasy_discarded_ill_conditioned")
                else:
                    tol = 1e3 * nn * kappa * 2.0 ** -52 * scale + 1e-12
                    fpv = p["fast_pred_var"]

                    def cb2(rep, post=post, tol=tol, fpv=fpv, scale=scale):
                        if rep in ("singular", "bad"):
                            return
                        rows, _ = C.parse_mat(rep.split())
                        ex = torch.tensor([[float(v) for v in r] for r in rows])
                        diff = (ex - post).abs().max().item()
                        if fpv:
                            # OBSERVATION, not judged here (C04's subject): with fast_pred_var the fantasy strategy updates its
                            # covariance cache from `fant_likelihood(mvn, inputs, noise=<raw fantasy noise>)`, i.e. with the
                            # UNFLOORED call-time noise, while the fantasy likelihood stores the floored noise
                            _state["fantasy_fpv_max_rel"] = max(_state.get("fantasy_fpv_max_rel", 0.0), diff / scale)
                            ctx.count("fantasy_fpv_observed")
                            return
                        ctx.count("schur_compared")
                        if diff > tol:
                            ctx.fail("fantasy-posterior-vs-schur:FixedNoiseGaussianLikelihood",
                                     f"{tag}: posterior covariance differs from the exact Schur complement with the FLOORED fixed "
                                     f"noise max(noise, {b!r}) by {diff:.3e} (tol {tol:.1e})", p)
                    drv.ask(f"schur {rows_tokens(rat_rows(A))} {rows_tokens(rat_rows(B))} {rows_tokens(rat_rows(D))}", cb2)
            return out
        # NOTE the chain of *raw* noises: FixedGaussianNoise floors at construction, so flooring the concatenation of
        # (already floored) old noise and new noise equals flooring every raw value once
        chain = list(p["train_noise"])
        fails += check(model, "before fantasies", chain)
        cur = model
        for r, rd in enumerate(p["rounds"], 1):
            xf, yf, nf = torch.tensor(rd["x"]), torch.tensor(rd["y"]), torch.tensor(rd["noise"])
            with torch.no_grad(), gpytorch.settings.fast_pred_var(p["fast_pred_var"]):
                cur(sx)     # get_fantasy_model needs a prediction strategy
                cur = cur.get_fantasy_model(xf, yf, noise=nf)
            cur_x = torch.cat([cur_x, xf], 0)
            chain = chain + list(rd["noise"])
            fails += check(cur, f"after fantasy round {r} with noise={rd['noise']}", chain)
    return fails


def fantasy_cases(ctx, drv, tier):
    rng = ctx.rng("fantasy")
    reps = 4 if tier == "quick" else 40
    for floor in (None, 1e-2, 1e-9, 0.0):
        for _ in range(reps):
            p = fantasy_payload(rng, floor)
            try:
                fails = run_fantasy(ctx, drv, p)
            except Exception as e:
                ctx.broke("correspondence", "fantasy", f"{type(e).__name__}: {e}"[:600])
                continue
            ctx.case(f"fantasy floor={floor} {p['kernel']} rounds={[r['noise'] for r in p['rounds']]} lan={p['learn_additional_noise']} "
                     f"fpv={p['fast_pred_var']} x0={p['train_x'][0]}",
                     sample={"kind": "fantasy", "floor": floor, "rounds": [r["noise"] for r in p["rounds"]]})
            report_model_fails(ctx, fails, p, lambda p=p: bool(run_fantasy(None, None, p, want_driver=False)))


# ------------------------------------------------------------------------------------------------ variational grid

def _var_model(p):
    import torch
    import gpytorch
    Z = torch.tensor(p["inducing"])
    mz = Z.shape[0]
    vd = {"cholesky": gpytorch.variational.CholeskyVariationalDistribution,
          "meanfield": gpytorch.variational.MeanFieldVariationalDistribution,
          "delta": gpytorch.variational.DeltaVariationalDistribution}[p["vdist"]](mz)
    strat_cls = {"whitened": gpytorch.variational.VariationalStrategy,
                 "unwhitened": gpytorch.variational.UnwhitenedVariationalStrategy}[p["strategy"]]

    class M(gpytorch.models.ApproximateGP):
        def __init__(self):
            vs = strat_cls(self, Z, vd, learn_inducing_locations=False)
            super().__init__(vs)
            self.mean_module = gpytorch.means.ConstantMean()
            b = gpytorch.kernels.RBFKernel() if p["kernel"] == "rbf" else gpytorch.kernels.MaternKernel(nu=1.5)
            self.covar_module = gpytorch.kernels.ScaleKernel(b)

        def forward(self, x):
            return gpytorch.distributions.MultivariateNormal(self.mean_module(x), self.covar_module(x))
    m = M()
    m.covar_module.outputscale = p["s"]
    m.covar_module.base_kernel.lengthscale = p["l"]
    with torch.no_grad():
        if p["vdist"] == "cholesky":
            vd.variational_mean.copy_(torch.tensor(p["vmean"]))
            vd.chol_variational_covar.copy_(torch.tensor(p["vchol"]))
        elif p["vdist"] == "meanfield":
            vd.variational_mean.copy_(torch.tensor(p["vmean"]))
            vd._variational_stddev.copy_(torch.tensor(p["vstd"]))
        else:
            vd.variational_mean.copy_(torch.tensor(p["vmean"]))
    return m.eval(), vd


def var_payload(rng, strategy, vdist):
    import torch
    g = torch.Generator().manual_seed(rng.torch_seed())
    mz = rng.choice([2, 3, 4, 5])
    mt = rng.choice([2, 3, 4])
    d = rng.choice([1, 2])
    Z = torch.randn(mz, d, generator=g) * 1.5
    X = torch.randn(mt, d, generator=g)
    flavour = rng.choice(["plain", "test_on_inducing", "dup_test"])
    if flavour == "test_on_inducing":
        X[0] = Z[0]
    elif flavour == "dup_test":
        X[1] = X[0]
    Lc = torch.tril(torch.randn(mz, mz, generator=g)) * rng.choice([0.1, 1.0, 2.0])
    Lc = Lc - torch.diag(torch.diag(Lc)) + torch.diag(torch.rand(mz, generator=g) + 0.05)
    return {"kind": "variational", "strategy": strategy, "vdist": vdist, "kernel": rng.choice(["rbf", "matern1.5"]),
            "s": rng.choice([0.1, 1.0, 10.0]), "l": rng.choice([0.5, 1.0, 2.0]), "flavour": flavour,
            "inducing": Z.tolist(), "test_x": X.tolist(), "vmean": torch.randn(mz, generator=g).tolist(),
            "vchol": Lc.tolist(), "vstd": (torch.rand(mz, generator=g) * 2 + 0.01).tolist(), "lik_noise": rng.choice([1e-3, 0.1])}


def run_variational(ctx, drv, p, want_driver=True):
    import torch
    import gpytorch
    fails = []
    model, vd = _var_model(p)
    X, Z = torch.tensor(p["test_x"]), torch.tensor(p["inducing"])
    lik = gpytorch.likelihoods.GaussianLikelihood().eval()
    lik.noise = p["lik_noise"]
    with torch.no_grad(), warnings.catch_warnings():
        warnings.simplefilter("ignore")
        q = model(X)
        qc = q.covariance_matrix.clone()
        pc = lik(q).covariance_matrix.clone()
        fails += W3().dist_consistency(q, f"variational {p['strategy']}/{p['vdist']}/{p['kernel']}/{p['flavour']}: q(f)",
                                       f"variational-q(f):{p['strategy']}/{p['vdist']}")
        S = vd().covariance_matrix.clone() if p["vdist"] != "delta" else torch.zeros(Z.shape[0], Z.shape[0])
        Kxx = model.covar_module(X).to_dense()
        Kzz = model.covar_module(Z).to_dense()
        Kzx = model.covar_module(Z, X).to_dense()
    scale = max(torch.linalg.eigvalsh((Kxx + Kxx.T) / 2).abs().max().item(), 1e-300)
    sscale = max(scale, torch.linalg.eigvalsh((S + S.T) / 2).abs().max().item() if S.numel() else 0.0)
    tag = f"{p['strategy']}/{p['vdist']}/{p['kernel']}/{p['flavour']}"
    for name, Mx in (("q(f)", qc), ("predictive", pc), ("q(u)", S)):
        s, info = cov_screen(Mx, sscale)
        for sym, detail in s:
            mag = info.get("asym_rel", 0.0) if sym == "asymmetric" else max(abs(min(info.get("rel_min_eig", 0.0), 0.0)), EIG_TOL)
            fails.append((f"variational-{name}-{sym}:{p['strategy']}/{p['vdist']}",
                          f"variational {tag}: {name} covariance {detail}", sym, mag,
                          f"Variational({p['strategy']},{p['vdist']},{p['kernel']})/{name}"))
    if want_driver and drv is not None and p["strategy"] == "whitened":
        jit = model.variational_strategy.jitter_val
        mz = Z.shape[0]
        L = torch.linalg.cholesky(Kzz + jit * torch.eye(mz))
        B = torch.linalg.solve_triangular(L, Kzx, upper=False)
        Kss = Kxx + jit * torch.eye(X.shape[0])
        cond = torch.linalg.cond(Kzz + jit * torch.eye(mz)).item()
        if cond > 1e6:
            ctx.count("variational_discarded_ill_conditioned")
        else:
            line = f"vcov {rows_tokens(rat_rows(Kss))} {rows_tokens(rat_rows(B))} {rows_tokens(rat_rows(S))}"
            tol = 1e-8 * sscale * max(1.0, sscale / scale) + 1e-12

            def cb(rep, qc=qc, tag=tag, tol=tol, p=p):
                rows, _ = C.parse_mat(rep.split())
                ex = torch.tensor([[float(v) for v in r] for r in rows])
                diff = (ex - qc).abs().max().item()
                ctx.count("vcov_compared")
                if diff > tol:
                    ctx.fail(f"variational-vs-model:{p['strategy']}/{p['vdist']}",
                             f"variational {tag}: q(f) covariance differs from K_xx - B^T (I - S) B by {diff:.3e} (tol {tol:.1e})", p)
            drv.ask(line, cb)
    if want_driver and drv is not None:
        rows = sym_rows(rat_rows(qc))
        dl = fr(EIG_TOL * sscale)

        def cb3(rep, tag=tag, p=p, rows=rows):
            parts = rep.split(";")
            if len(parts) != 2:
                return
            dd = parse_decision(parts[1])
            ctx.count("model_cov_certified")
            if dd[0] == "neg":
                q2 = dict(p)
                q2["witness_v"] = [C.rat_str(x) for x in dd[2]]
                qv = float(quad(rows, dd[2]))
                vv = float(sum(x * x for x in dd[2]))
                mag = max(EIG_TOL, -qv / (vv * sscale)) if vv > 0 else EIG_TOL
                report_model_fails(ctx, [(f"variational-q(f)-indefinite:{p['strategy']}/{p['vdist']}",
                                          f"variational {tag}: q(f) covariance has exact negative curvature "
                                          f"{qv:.3e} (|v|^2 = {vv:.3e}) beyond -1e-9*scale", "indefinite", mag,
                                          f"Variational({p['strategy']},{p['vdist']},{p['kernel']})/q(f)")], q2,
                                   lambda p=p: bool(run_variational(None, None, p, want_driver=False)))
        drv.ask(f"psd {C.rat_str(dl)} {rows_tokens(rows)}", cb3)
    return fails


def variational_cases(ctx, drv, tier):
    rng = ctx.rng("variational")
    reps = 4 if tier == "quick" else 80
    for strategy in ("whitened", "unwhitened"):
        for vdist in ("cholesky", "meanfield", "delta"):
            for _ in range(reps):
                p = var_payload(rng, strategy, vdist)
                try:
                    fails = run_variational(ctx, drv, p)
                except Exception as e:
                    ctx.broke("correspondence", f"variational:{strategy}/{vdist}", f"{type(e).__name__}: {e}"[:600])
                    continue
                ctx.case(f"variational {strategy} {vdist} {p['kernel']} {p['flavour']} s={p['s']} l={p['l']} "
                         f"mz={len(p['inducing'])} z0={p['inducing'][0]}",
                         sample={"kind": "variational", "strategy": strategy, "vdist": vdist, "flavour": p["flavour"]})
                report_model_fails(ctx, fails, p, lambda p=p: bool(run_variational(None, None, p, want_driver=False)))


# ------------------------------------------------------------------------------------------------ variance floor

VAR_DIAGS = [[-1e-12, 0.0, 1e-30], [1e-11, 1e-10, 5e-10, 1.0], [-1.0, 2.0], [0.0], [1e-10], [9.999999999999999e-11],
             [1.0000000000000002e-10, 3.0], [-1e-300, 1e-300, 1e300], [0.5, 0.25, 0.125]]


def run_variance(ctx, drv, diag, setting, container, want_driver=True):
    """diag: list of floats; setting: None or double_value; container: 'diag'|'dense_lazy'|'dense'|'batch'|'multitask'"""
    import torch
    import gpytorch
    from linear_operator.operators import DiagLinearOperator, DenseLinearOperator
    fails = []
    dvec = torch.tensor(diag)
    n = len(diag)
    cm = gpytorch.settings.min_variance(double_value=setting) if setting is not None else None
    p = {"kind": "variance", "diag": [C.rat_str(fr(v)) for v in diag], "min_variance_double": setting, "container": container}

    def body():
        b = gpytorch.settings.min_variance.value(torch.double)
        if container == "diag":
            dist = gpytorch.distributions.MultivariateNormal(torch.zeros(n), DiagLinearOperator(dvec))
        elif container == "dense_lazy":
            dist = gpytorch.distributions.MultivariateNormal(torch.zeros(n), DenseLinearOperator(torch.diag(dvec)))
        elif container == "dense":
            dist = gpytorch.distributions.MultivariateNormal(torch.zeros(n), torch.diag(dvec))
        elif container == "batch":
            dist = gpytorch.distributions.MultivariateNormal(torch.zeros(2, n), DiagLinearOperator(torch.stack([dvec, dvec.flip(0)])))
        elif container in ("root_wide", "root_tall"):
            from linear_operator.operators import RootLinearOperator
            r = dvec.abs().sqrt()
            R = torch.cat([torch.diag(r), torch.zeros(n, 2)], -1) if container == "root_wide" else r.unsqueeze(-1)
            dist = gpytorch.distributions.MultivariateNormal(torch.zeros(n), RootLinearOperator(R))
        else:
            dist = gpytorch.distributions.MultitaskMultivariateNormal(torch.zeros(n, 2), DiagLinearOperator(torch.cat([dvec, dvec.flip(0)])))
        with warnings.catch_warnings():
            warnings.simplefilter("ignore")
            var = dist.variance
            sd = dist.stddev
        return b, var, sd
    if cm is not None:
        with cm:
            b, var, sd = body()
    else:
        b, var, sd = body()
    if (var < b).any() or torch.isnan(var).any():
        fails.append((f"variance-below-min:{container}", f"MultivariateNormal({container}) with covariance diagonal {diag}: "
                      f"variance {var.flatten().tolist()} < settings.min_variance = {b}"))
    if torch.isnan(sd).any() or (sd < 0).any() or (b > 0 and (sd <= 0).any()) or not torch.allclose(sd, var.sqrt(), rtol=1e-15, atol=0):
        fails.append((f"stddev-not-real:{container}", f"MultivariateNormal({container}) with covariance diagonal {diag}: "
                      f"stddev {sd.flatten().tolist()} (variance {var.flatten().tolist()})"))
    if want_driver and drv is not None and container in ("diag", "dense_lazy", "batch"):
        rows = [dvec.tolist()] if container != "batch" else [dvec.tolist(), dvec.flip(0).tolist()]
        got = var.reshape(len(rows), n).tolist()
        for r, g in zip(rows, got):
            def cb(rep, g=g, r=r, b=b):
                vals, _ = C.parse_mat(rep.split())
                want = [v[0] for v in vals]
                ctx.count("variance_compared")
                if [fr(x) for x in g] != want:
                    ctx.fail(f"variance-vs-model:{container}",
                             f"MultivariateNormal({container}).variance for diagonal {r} with min_variance {b} is {g}; "
                             f"the regenerated clamp gives {[float(w) for w in want]}", p)
            drv.ask(f"var {C.rat_str(fr(b))} {n} 1 " + " ".join(C.rat_str(fr(v)) for v in r), cb)
    return fails, p


def variance_cases(ctx, drv, tier):
    rng = ctx.rng("variance")
    diags = list(VAR_DIAGS)
    for _ in range(6 if tier == "quick" else 200):
        n = rng.choice([1, 2, 3, 5])
        diags.append([rng.choice([-1e-12, 0.0, 1e-30, 1e-10, rng.random() * 1e-9, rng.random(), -rng.random() * 1e-14]) for _ in range(n)])
    for diag in diags:
        for setting in (None, 1e-6, 1e-3, 0.5, 0.0):
            for container in ("diag", "dense_lazy", "batch", "multitask", "dense", "root_wide", "root_tall"):
                if container == "dense" and min(diag) <= 0:
                    continue  # a non-lazy tensor covariance must be PD for torch's own Cholesky: not constructible
                try:
                    fails, p = run_variance(ctx, drv, diag, setting, container)
                except Exception as e:
                    ctx.broke("correspondence", f"variance:{container}", f"{diag} {setting}: {type(e).__name__}: {e}"[:500])
                    continue
                ctx.case(f"variance {diag} {setting} {container}", sample=p)
                for key, what in fails:
                    ctx.fail(key, what, p)
    # one distribution object, queried under a sequence of settings: the floor in force at the time of the query applies
    import torch
    import gpytorch
    from linear_operator.operators import DiagLinearOperator
    dist = gpytorch.distributions.MultivariateNormal(torch.zeros(3), DiagLinearOperator(torch.tensor([-1e-12, 1e-8, 1.0])))
    seq = [None, 1e-3, None, 0.0, 1e-6, None]
    for k, setting in enumerate(seq):
        with warnings.catch_warnings():
            warnings.simplefilter("ignore")
            if setting is None:
                b = gpytorch.settings.min_variance.value(torch.double)
                var = dist.variance
            else:
                with gpytorch.settings.min_variance(double_value=setting):
                    b = gpytorch.settings.min_variance.value(torch.double)
                    var = dist.variance
        want = torch.tensor([-1e-12, 1e-8, 1.0]).clamp_min(b)
        ctx.case(f"variance re-used distribution step {k} setting {setting}", sample={"kind": "variance-reuse", "sequence": seq, "step": k})
        if not torch.equal(var, want):
            ctx.fail("variance-reused-distribution", f"one MultivariateNormal queried under min_variance settings {seq}: at step {k} "
                     f"(floor {b!r}) variance is {var.tolist()}, expected {want.tolist()}",
                     {"kind": "variance", "diag": [C.rat_str(fr(v)) for v in (-1e-12, 1e-8, 1.0)], "min_variance_double": setting,
                      "container": "diag"})
    # a posterior whose variance rounds below the floor: test point on a training point, tiny noise
    for s in (1.0, 1e-12):
        p = {"kind": "exact_gp", "kernel": "scale_rbf", "hp": {"s": s, "l": 1.0, "mean": 0.0}, "noise": 1e-3,
             "flavour": "variance_floor", "train_x": [[0.0], [0.5], [1.0]], "train_y": [0.1, 0.2, 0.3],
             "test_x": [[0.0], [0.5], [0.25]]}
        model, lik = _exact_model(p["kernel"], p["hp"], torch.tensor(p["train_x"]), torch.tensor(p["train_y"]), p["noise"])
        import gpytorch
        with torch.no_grad(), warnings.catch_warnings():
            warnings.simplefilter("ignore")
            d = model(torch.tensor(p["test_x"]))
            var, sd = d.variance, d.stddev
        b = gpytorch.settings.min_variance.value(torch.double)
        ctx.case(f"variance posterior-at-train s={s}", sample={"kind": "variance-posterior", "s": s})
        if (var < b).any() or torch.isnan(sd).any():
            ctx.fail("variance-below-min:posterior", f"posterior variance {var.tolist()} < min_variance {b}", p)


# ------------------------------------------------------------------------------------------------ noise floor

RAWS = [-1e308, -1e30, -800.0, -745.2, -40.0, -1.0, -1e-300, 0.0, 1e-300, 1.0, 19.9, 20.0, 20.000000000000004, 40.0, 800.0, 1e30, 1e308]


def noise_objects():
    """-> list of (name, setter(raw)->None, getter()->tensor, lower_bound tensor, generated-constant name or None)"""
    import torch
    import gpytorch
    from gpytorch.constraints import GreaterThan, Positive
    out = []
    g = gpytorch.likelihoods.GaussianLikelihood()
    out.append(("GaussianLikelihood", g.noise_covar.raw_noise, lambda g=g: g.noise, g.noise_covar.raw_noise_constraint, "homoskedastic"))
    for c in (1e-6, 0.5, 3.0):
        g2 = gpytorch.likelihoods.GaussianLikelihood(noise_constraint=GreaterThan(c))
        out.append((f"GaussianLikelihood(GreaterThan({c}))", g2.noise_covar.raw_noise, lambda g2=g2: g2.noise,
                    g2.noise_covar.raw_noise_constraint, None))
    g3 = gpytorch.likelihoods.GaussianLikelihood(noise_constraint=Positive())
    out.append(("GaussianLikelihood(Positive())", g3.noise_covar.raw_noise, lambda g3=g3: g3.noise,
                g3.noise_covar.raw_noise_constraint, None))
    f = gpytorch.likelihoods.FixedNoiseGaussianLikelihood(noise=torch.tensor([0.1, 0.2, 0.3]), learn_additional_noise=True)
    out.append(("FixedNoiseGaussianLikelihood.second_noise", f.second_noise_covar.raw_noise, lambda f=f: f.second_noise,
                f.second_noise_covar.raw_noise_constraint, "homoskedastic"))
    mt = gpytorch.likelihoods.MultitaskGaussianLikelihood(num_tasks=3)
    out.append(("MultitaskGaussianLikelihood.noise", mt.raw_noise, lambda mt=mt: mt.noise, mt.raw_noise_constraint, "multitask"))
    out.append(("MultitaskGaussianLikelihood.task_noises", mt.raw_task_noises, lambda mt=mt: mt.task_noises,
                mt.raw_task_noises_constraint, "multitask"))
    mt2 = gpytorch.likelihoods.MultitaskGaussianLikelihood(num_tasks=2, rank=1)
    out.append(("MultitaskGaussianLikelihood(rank=1).noise", mt2.raw_noise, lambda mt2=mt2: mt2.noise, mt2.raw_noise_constraint, "multitask"))
    mt3 = gpytorch.likelihoods.MultitaskGaussianLikelihood(num_tasks=2, has_global_noise=False)
    out.append(("MultitaskGaussianLikelihood(no global).task_noises", mt3.raw_task_noises, lambda mt3=mt3: mt3.task_noises,
                mt3.raw_task_noises_constraint, "multitask"))

    class Dummy(gpytorch.Module):
        def __init__(self):
            super().__init__()
            self.raw = torch.nn.Parameter(torch.zeros(3))

        def forward(self, x):
            return gpytorch.distributions.MultivariateNormal(self.raw, torch.eye(3))
    try:
        from gpytorch.likelihoods.noise_models import HeteroskedasticNoise
        dm = Dummy()
        hn = HeteroskedasticNoise(dm)

        def get(hn=hn):
            with warnings.catch_warnings():
                warnings.simplefilter("ignore")
                return hn(torch.zeros(3, 1)).diagonal(dim1=-1, dim2=-2)
        out.append(("HeteroskedasticNoise", dm.raw, get, hn._noise_constraint, "heteroskedastic"))
        # multi-output noise model + `noise_indices` (only some outputs parameterise the noise): the selected outputs go
        # through the noise constraint like the single-output case — every index subset of a 3-output model
        class DummyMT(gpytorch.Module):
            def __init__(self):
                super().__init__()
                self.raw = torch.nn.Parameter(torch.zeros(3, 3))

            def forward(self, x):
                return gpytorch.distributions.MultitaskMultivariateNormal(self.raw, torch.eye(9))
        for idx in ([0], [1], [2], [0, 2], [1, 2], [0, 1, 2], [2, 0]):
            dmt = DummyMT()
            hni = HeteroskedasticNoise(dmt, noise_indices=idx)

            def get_i(hni=hni):
                with warnings.catch_warnings():
                    warnings.simplefilter("ignore")
                    return hni(torch.zeros(3, 1)).diagonal(dim1=-1, dim2=-2)
            out.append((f"HeteroskedasticNoise(noise_indices={idx})", dmt.raw, get_i, hni._noise_constraint, "heteroskedastic"))
    except Exception as e:  # pragma: no cover
        _state["hetero_error"] = f"{type(e).__name__}: {e}"
    return out


def run_noise(ctx, drv, want_driver=True, raws=None, require_positive=False):
    import torch
    gen = _state.get("gen")
    raws = list(RAWS if raws is None else raws)
    for name, rawp, getter, constraint, gname in noise_objects():
        lb = constraint.lower_bound
        lbv = float(lb.reshape(-1)[0])
        if gname is not None:
            want = gen[f"{gname}_lower"][1] if gen else 1e-4
            ctx.case(f"noise default-bound {name}", sample={"kind": "noise-default-bound", "object": name, "bound": lbv})
            if lbv != want:
                with torch.no_grad():
                    rawp.fill_(-800.0)
                    at = getter().reshape(-1)[0].item()
                ctx.fail(f"noise-default-bound:{name}",
                         f"{name}: default noise constraint lower bound is {lbv!r}, the generated/baseline default is {want!r} "
                         f"(GreaterThan({want})); noise at raw=-800 is {at!r}",
                         {"kind": "noise", "object": name, "raw": -800.0, "expected_default_bound": want})
        got = []
        for r in raws:
            with torch.no_grad():
                rawp.fill_(r)
                v = getter().detach().reshape(-1)
            got.append(v[0].item())
            ctx.case(f"noise {name} raw={r!r}", sample={"kind": "noise", "object": name, "raw": r, "noise": v[0].item()})
            if not bool((v >= lbv).all()) or torch.isnan(v).any():
                ctx.fail(f"noise-below-bound:{name}", f"{name}: raw={r!r} gives noise {v.tolist()} < lower bound {lbv!r}",
                         {"kind": "noise", "object": name, "raw": r})
            if require_positive and gname is not None and not bool((v > 0).all()):
                ctx.fail(f"noise-not-positive:{name}", f"{name} (default constraint, lower bound {lbv!r}): raw={r!r} gives noise "
                         f"{v.tolist()}: the added noise variance is not > 0 (default_noise_lower_pos no longer holds)",
                         {"kind": "noise", "object": name, "raw": r, "require_positive": True})
        if want_driver and drv is not None and type(constraint).__name__ == "GreaterThan":
            def cb(rep, name=name, got=got, lbv=lbv):
                vals = [unbits(t) for t in rep.split()]
                for r, a, b in zip(raws, got, vals):
                    ctx.count("noise_compared")
                    # 3e-16 absolute: the Lean Float model evaluates log(1 + exp x), torch log1p(exp x); they differ by
                    # at most one rounding of `1 + exp x`
                    if not (abs(a - b) <= 1e-10 * max(abs(a), abs(b)) + 3e-16 or a == b):
                        ctx.fail(f"noise-vs-model:{name}", f"{name}: raw={r!r}: likelihood noise {a!r} but softplus(raw)+lower "
                                 f"(regenerated GreaterThan.transform, lower={lbv!r}) = {b!r}",
                                 {"kind": "noise", "object": name, "raw": r})
            drv.ask("noise " + str(bits(lbv)) + " " + " ".join(str(bits(r)) for r in raws), cb)
    # the noise covariance a multitask rank-1 likelihood adds is PSD with diagonal >= global bound
    import gpytorch
    mt = gpytorch.likelihoods.MultitaskGaussianLikelihood(num_tasks=3, rank=2)
    with torch.no_grad():
        mt.raw_noise.fill_(-800.0)
        Sig = mt._shaped_noise_covar(torch.Size([2, 3])).to_dense()
    s, _ = float_screen(Sig, None)
    ctx.case("noise multitask rank-2 shaped covariance", sample={"kind": "noise-covar", "object": "MultitaskGaussianLikelihood(rank=2)"})
    for sym, detail in s:
        if sym != "correlation>1":
            ctx.fail("noise-covar-" + sym + ":MultitaskGaussianLikelihood(rank=2)", f"noise covariance {detail}", {"kind": "noise-covar"})
    if (Sig.diagonal() < float(mt.raw_noise_constraint.lower_bound)).any():
        ctx.fail("noise-below-bound:MultitaskGaussianLikelihood(rank=2)", "diagonal of the added noise covariance below the bound",
                 {"kind": "noise-covar"})


def run_fixed_noise(ctx, drv, want_driver=True):
    import torch
    import gpytorch
    vecs = [[0.0, 1e-12, 1e-7, 1e-6, 9.999999999999999e-07, 1e-5, 1.0, -1.0], [1e-6], [0.5, 0.25], [0.0], [2e-4, 5e-4, 1e-3]]
    for setting in (None, 1e-3, 1e-9, 0.0):
        for vec in vecs:
            v = torch.tensor(vec)
            cm = gpytorch.settings.min_fixed_noise(double_value=setting) if setting is not None else None
            with warnings.catch_warnings():
                warnings.simplefilter("ignore")
                if cm is not None:
                    with cm:
                        b = gpytorch.settings.min_fixed_noise.value(torch.double)
                        lik = gpytorch.likelihoods.FixedNoiseGaussianLikelihood(noise=v.clone())
                else:
                    b = gpytorch.settings.min_fixed_noise.value(torch.double)
                    lik = gpytorch.likelihoods.FixedNoiseGaussianLikelihood(noise=v.clone())
                got = lik.noise.tolist()
                added = lik.noise_covar(torch.zeros(len(vec), 1), shape=torch.Size([len(vec)])).diagonal(dim1=-1, dim2=-2).tolist()
            p = {"kind": "fixed_noise", "noise": [C.rat_str(fr(x)) for x in vec], "min_fixed_noise_double": setting}
            ctx.case(f"fixed-noise {vec} {setting}", sample=p)
            if any(g < b for g in got) or any(a < b for a in added):
                ctx.fail("fixed-noise-below-min:FixedGaussianNoise",
                         f"FixedNoiseGaussianLikelihood(noise={vec}) stores {got} / adds {added}; settings.min_fixed_noise = {b}", p)
            if want_driver and drv is not None:
                def cb(rep, got=got, vec=vec, b=b, p=p):
                    vals, _ = C.parse_mat(rep.split())
                    want = [x[0] for x in vals]
                    ctx.count("fixed_noise_compared")
                    if [fr(x) for x in got] != want:
                        ctx.fail("fixed-noise-vs-model:FixedGaussianNoise",
                                 f"FixedGaussianNoise({vec}) with min_fixed_noise {b} stores {got}; regenerated clamp gives "
                                 f"{[float(w) for w in want]}", p)
                drv.ask(f"fix {C.rat_str(fr(b))} {len(vec)} 1 " + " ".join(C.rat_str(fr(x)) for x in vec), cb)


def constants_tie(ctx, drv):
    import torch
    import gpytorch

    def cb(rep):
        kv = dict(x.split("=") for x in rep.split(";"))
        real = {"minVarianceFloat": gpytorch.settings.min_variance.value(torch.float),
                "minVarianceDouble": gpytorch.settings.min_variance.value(torch.double),
                "minVarianceHalf": gpytorch.settings.min_variance.value(torch.half),
                "minFixedNoiseFloat": gpytorch.settings.min_fixed_noise.value(torch.float),
                "minFixedNoiseDouble": gpytorch.settings.min_fixed_noise.value(torch.double),
                "minFixedNoiseHalf": gpytorch.settings.min_fixed_noise.value(torch.half)}
        for k, v in real.items():
            ctx.count("constants_compared")
            if Fraction(kv[k]) != fr(v):
                ctx.fail(f"constant-mismatch:{k}", f"runtime settings value {v!r} but generated constant {k} = {kv[k]}",
                         {"kind": "constant", "name": k})
    ctx.case("constants generated == runtime", sample={"kind": "constants"})
    drv.ask("const", cb)


# ------------------------------------------------------------------------------------------------ entry points

def correspondence(ctx, want_driver=True):
    _torch()
    sys.path.insert(0, os.path.join(C.VERIF, "harness"))
    drv = Driver(ctx)
    if "gen" not in _state:
        # translator failed: the spec checks below still run; model comparisons use the committed Gen baseline
        ctx.notes["translator_output"] = "unavailable (baseline Gen used by the driver)"
    T = C.Timer()
    tm = {}
    import traceback

    def section(name, fn):
        try:
            fn()
        except Exception as e:
            ctx.broke("correspondence", f"section {name}: {type(e).__name__}", traceback.format_exc()[-1200:])
        tm[name] = round(T(), 1)
    section("constants", lambda: constants_tie(ctx, drv))
    section("variance", lambda: variance_cases(ctx, drv, ctx.tier))
    section("noise", lambda: run_noise(ctx, drv))
    section("fixed_noise", lambda: run_fixed_noise(ctx, drv))
    section("exactgp_py", lambda: exact_gp_cases(ctx, drv, ctx.tier))
    section("variational_py", lambda: variational_cases(ctx, drv, ctx.tier))
    section("nan_policy_py", lambda: nan_policy_cases(ctx, drv, ctx.tier))
    section("history_py", lambda: history_cases(ctx, drv, ctx.tier))
    section("fantasy_py", lambda: fantasy_cases(ctx, drv, ctx.tier))
    section("accessor_histories_py", lambda: W3().accessor_cases(ctx, drv, ctx.tier))
    section("ard_derivative_gp_py", lambda: W3().deriv_gp_cases(ctx, drv, ctx.tier))
    section("variational_strategies_py", lambda: W3().vstrat_cases(ctx, drv, ctx.tier))
    section("ovc_fantasy_py", lambda: W3().ovc_cases(ctx, drv, ctx.tier))
    section("set_train_data_py", lambda: W3().set_train_data_cases(ctx, drv, ctx.tier))
    section("dense_py", lambda: dense_cases(ctx, drv, ctx.tier))
    section("gram", lambda: gram_cases(ctx, drv, ctx.tier))
    drv.flush()
    drv.flush()
    tm["all"] = round(T(), 1)
    ctx.notes["section_seconds_cumulative"] = tm
    ctx.notes["schur_max_diff_over_tol"] = _state.get("schur_max_diff_over_tol")
    ctx.notes["fantasy_fast_pred_var_cache_vs_floored_closed_form_max_rel_diff (observation)"] = _state.get("fantasy_fpv_max_rel")
    if "hetero_error" in _state:
        ctx.notes["hetero_error"] = _state["hetero_error"]
    # run.py starts `search` only when no failure at all was recorded; known-finding hits are failures too, so the
    # spec-only search is started from here whenever the translator / a proof / the driver broke
    if any(k in ("translator", "proof", "audit") or (k == "correspondence" and n.startswith(("driver", "section"))) for k, n, _ in ctx.broken):
        try:
            search(ctx, ctx.broken)
        except Exception:
            ctx.notes["search_error"] = traceback.format_exc()[-1200:]


def search(ctx, broken):
    """A proof obligation / the translator / the driver broke.  Every spec check of `correspondence` is phrased
    against the property itself (variance >= min_variance, noise >= bound, PSD, monotone), so a failing input is
    whatever they report; they have already run.  What remains is the case where the driver was unavailable for
    the model comparisons: re-run the clamp / noise sections spec-only with extra raw values and diagonals."""
    if _state.get("searched"):
        return
    _state["searched"] = True
    _torch()
    rng = ctx.rng("search")
    n_before = len(ctx.failures)
    import gpytorch
    for nm, mk in (("GaussianLikelihood()", lambda: gpytorch.likelihoods.GaussianLikelihood()),
                   ("MultitaskGaussianLikelihood(num_tasks=2)", lambda: gpytorch.likelihoods.MultitaskGaussianLikelihood(num_tasks=2))):
        try:
            mk()
        except Exception as e:
            ctx.fail(f"likelihood-construction:{nm}", f"{nm} cannot be constructed with its default noise constraint: "
                     f"{type(e).__name__}: {e}", {"kind": "construct", "object": nm})
    if len(ctx.failures) > n_before:
        return

    class NoDrv:
        def ask(self, *a):
            pass

        def flush(self):
            pass
    run_noise(ctx, None, want_driver=False, raws=RAWS + [rng.uniform(-800, 50) for _ in range(200)], require_positive=True)
    run_fixed_noise(ctx, None, want_driver=False)
    for _ in range(300):
        n = rng.choice([1, 2, 4])
        diag = [rng.choice([-1e-12, 0.0, 1e-30, rng.random() * 1e-9, -rng.random()]) for _ in range(n)]
        for container in ("diag", "dense_lazy", "batch", "multitask"):
            try:
                fails, p = run_variance(ctx, None, diag, rng.choice([None, 1e-6, 1e-3]), container, want_driver=False)
            except Exception:
                continue
            ctx.case(f"search variance {diag} {container}")
            for key, what in fails:
                ctx.fail(key, what, p)
        if len(ctx.failures) > n_before:
            return


def replay(ctx, payload):
    """Re-run one recorded case; True when it no longer fails."""
    _torch()
    case = payload.get("case", payload)
    kind = case.get("kind")
    if kind == "gram":
        return recheck_gram(case)
    if kind == "exact_gp":
        return not run_exact_gp(ctx, None, case, want_driver=False)
    if kind == "fantasy":
        return not run_fantasy(ctx, None, case, want_driver=False)
    if kind == "nan_policy":
        return not run_nan_policy(ctx, None, case, want_driver=False)
    if kind == "history":
        return not run_history(ctx, None, case, want_driver=False)
    if kind == "variational":
        return not run_variational(ctx, None, case, want_driver=False)
    if kind == "accessor_history":
        return W3().replay_accessor(ctx, case)
    if kind == "deriv_gp":
        return not W3().run_deriv_gp(ctx, None, case, want_driver=False)
    if kind == "vstrat":
        return not W3().run_vstrat(ctx, None, case, want_driver=False)
    if kind == "ovc":
        return not W3().run_ovc(ctx, None, case, want_driver=False)
    if kind == "set_train_data":
        return not W3().run_set_train_data(ctx, None, case, want_driver=False)
    if kind == "variance":
        diag = [float(Fraction(x)) for x in case["diag"]]
        fails, _ = run_variance(ctx, None, diag, case.get("min_variance_double"), case["container"], want_driver=False)
        return not fails
    if kind in ("noise", "noise-covar"):
        run_noise(ctx, None, want_driver=False, raws=[case.get("raw", -800.0)], require_positive=bool(case.get("require_positive")))
        return not ctx.failures
    if kind == "construct":
        import gpytorch
        try:
            eval("gpytorch.likelihoods." + case["object"])
            return True
        except Exception:
            return False
    if kind == "fixed_noise":
        run_fixed_noise(ctx, None, want_driver=False)
        return not ctx.failures
    return True

"""C07, wave 3: three classes of inputs the first generators did not reach (private helper of props/c07.py).

W1  accessor histories — ONE distribution object read under a SEQUENCE of `settings.min_variance` floors, every
    floor-reading accessor (`variance`, `stddev`, `confidence_region()` (twice in a row), `to_data_independent_dist()`,
    `metrics.quantile_coverage_error`, `metrics.mean_standardized_log_loss`, `GaussianLikelihood.expected_log_prob`) in a
    random order: at every step the value must honour the floor in force NOW (`variance >= floor`, exactly the regenerated
    clamp of the raw diagonal, `stddev == sqrt(variance)`, region == mean -+ 2 stddev) and equal the value a freshly
    built twin object gives under the same floor (an accessor may not remember an earlier setting).
W2  every variational strategy class (Variational, Unwhitened, BatchDecoupled (both batch-dim conventions),
    OrthogonallyDecoupled over a whitened / unwhitened base, Ciq, GridInterpolation, LMC, IndependentMultitask,
    NNVariationalStrategy where constructible) x variational distributions, judged (a) as constructed and (b) after EVERY
    parameter (inducing points of every branch, every batch entry of every hyperparameter, variational parameters) has
    been moved by an independent random amount, in eval and in training mode: q(f) symmetric, PSD (float screen + exact
    certificate), `variance` = diagonal of `covariance_matrix`, >= floor, and equal to the dense closed form
    `K_xx + j I + B^T (S - I) B` (exact, driver op `vcov`) where the strategy documents one.
W3  diag-mode paths: for every model family incl. derivative kernels (RBFKernelGrad, Matern52KernelGrad,
    RBFKernelGradGrad, PolynomialKernelGrad) with ARD lengthscales that differ, multitask kernels and plain ARD kernels:
    `variance` of the lazily evaluated prior (training mode, prior_mode), of the eager posterior and of the posterior
    through the LAZY joint (`max_eager_kernel_size(1)`, the branch taken above 512 rows) == diagonal of the dense
    covariance; posterior variance <= prior variance (dense Gram diagonal); lazy == eager; posterior == exact Schur
    complement of the dense kernel blocks (driver op `schur`); and `dist_consistency` (below) for every distribution.
"""
import warnings
from fractions import Fraction

from lib import common as C


def _B():
    from props import c07
    return c07


# ------------------------------------------------------------------------------------------------ generic consistency

def raw_variance(dist):
    """the unclamped marginal variances in the layout of `dist.variance`, read from the DENSE covariance matrix"""
    import gpytorch
    cov = dist.covariance_matrix
    flat = cov.diagonal(dim1=-1, dim2=-2)
    if isinstance(dist, gpytorch.distributions.MultitaskMultivariateNormal):
        out = dist._output_shape
        if not dist._interleaved:
            return flat.reshape(out[:-2] + out[:-3:-1]).transpose(-1, -2)
        return flat.reshape(out)
    return flat


def dist_consistency(dist, tag, label, scale=None):
    """`variance` is the (floored) diagonal of `covariance_matrix`, `stddev` its square root, the confidence region
    mean -+ 2 stddev — for ANY distribution handed out, whatever path computes its diagonal.  -> list of fail tuples"""
    import torch
    import gpytorch
    fails = []
    with warnings.catch_warnings():
        warnings.simplefilter("ignore")
        var = dist.variance.detach().clone()
        sd = dist.stddev.detach().clone()
        raw = raw_variance(dist).detach()
        lo, hi = dist.confidence_region()
        mean = dist.mean.detach()
    b = gpytorch.settings.min_variance.value(var.dtype)
    sc = max(raw.abs().max().item() if raw.numel() else 0.0, scale or 0.0, b)
    want = raw.clamp_min(b)
    if var.shape != want.shape:
        fails.append((f"{label}-variance-shape", f"{tag}: variance has shape {tuple(var.shape)}, the covariance diagonal {tuple(want.shape)}"))
        return fails
    dv = (var - want).abs().max().item() if var.numel() else 0.0
    if not (dv <= 1e-10 * sc):
        i = int((var - want).abs().reshape(-1).argmax())
        fails.append((f"{label}-variance-vs-diagonal",
                      f"{tag}: `variance` is not the diagonal of `covariance_matrix` (floor {b!r}): flat entry {i} is "
                      f"{var.reshape(-1)[i].item()!r}, the covariance diagonal there {want.reshape(-1)[i].item()!r} "
                      f"(max difference {dv:.3e}, scale {sc:.3e})"))
    if (var < b).any() or torch.isnan(var).any():
        fails.append((f"{label}-variance-below-min", f"{tag}: variance {var.reshape(-1).tolist()[:8]} below min_variance {b!r}"))
    if torch.isnan(sd).any() or not torch.equal(sd, var.sqrt()):
        fails.append((f"{label}-stddev-vs-variance", f"{tag}: stddev {sd.reshape(-1).tolist()[:8]} is not sqrt(variance) "
                      f"{var.sqrt().reshape(-1).tolist()[:8]}"))
    std2 = var.sqrt().mul(2)
    if not (torch.equal(lo.detach(), mean.sub(std2)) and torch.equal(hi.detach(), mean.add(std2))):
        fails.append((f"{label}-confidence-region", f"{tag}: confidence_region() is not mean -+ 2 sqrt(variance): "
                      f"max deviation {max((lo.detach() - mean.sub(std2)).abs().max().item(), (hi.detach() - mean.add(std2)).abs().max().item()):.3e}"))
    return fails


# ------------------------------------------------------------------------------------------------ W1 accessor histories

FLOORS = [None, 1e-3, 0.5, 0.0, 1e-6, 1e-8, 1e-2, 0.1]
ACCESSORS = ["variance", "stddev", "confidence_region", "confidence_region", "to_data_independent_dist", "qce", "msll", "gauss_elp"]


def _floor_cm(setting):
    import contextlib
    import gpytorch
    if setting is None:
        return contextlib.nullcontext()
    return gpytorch.settings.min_variance(double_value=setting, float_value=setting)


def accessor_objects(rng):
    """-> list of (name, factory, kind): factory() builds a NEW, equal distribution object each time"""
    import torch
    import gpytorch
    from linear_operator.operators import DiagLinearOperator, DenseLinearOperator, RootLinearOperator
    B = _B()
    MVN, MT = gpytorch.distributions.MultivariateNormal, gpytorch.distributions.MultitaskMultivariateNormal
    out = []
    pool = [-1e-12, 0.0, 1e-30, 1e-12, 3e-9, 1e-7, 2e-5, 4e-4, 5e-3, 0.03, 0.3, 1.0, 7.0]
    for rep in range(2):
        n = rng.choice([2, 3, 5])
        dv = [rng.choice(pool) for _ in range(n)]
        dv[0] = rng.choice([1e-12, 3e-9, 2e-5, 4e-4])       # at least one entry below a floor of the pool
        mean = [rng.uniform(-1, 1) for _ in range(n)]
        d, mu = torch.tensor(dv), torch.tensor(mean)
        out.append((f"MVN(DiagLinearOperator {dv})", lambda d=d, mu=mu: MVN(mu.clone(), DiagLinearOperator(d.clone())), "mvn"))
        out.append((f"MVN(DenseLinearOperator diag {dv})", lambda d=d, mu=mu: MVN(mu.clone(), DenseLinearOperator(torch.diag(d))), "mvn"))
        out.append((f"MVN(batch DiagLinearOperator {dv})",
                    lambda d=d, mu=mu: MVN(torch.stack([mu, -mu]), DiagLinearOperator(torch.stack([d, d.flip(0)]))), "mvn"))
        pd = [abs(x) + 1e-9 for x in dv]
        out.append((f"MVN(dense tensor diag {pd})", lambda pd=pd, mu=mu: MVN(mu.clone(), torch.diag(torch.tensor(pd))), "mvn-dense"))
        out.append((f"MVN(RootLinearOperator {pd})",
                    lambda pd=pd, mu=mu: MVN(mu.clone(), RootLinearOperator(torch.cat([torch.diag(torch.tensor(pd).sqrt()), torch.zeros(len(pd), 1)], -1))), "mvn"))
        d2 = torch.tensor(dv + dv[::-1])
        for inter in (True, False):
            out.append((f"MTMVN(interleaved={inter}, DiagLinearOperator {dv + dv[::-1]})",
                        lambda d2=d2, n=n, inter=inter: MT(torch.zeros(n, 2), DiagLinearOperator(d2.clone()), interleaved=inter), "mt"))
    # real predictive distributions whose variances lie below the larger floors
    g = torch.Generator().manual_seed(rng.torch_seed())
    tx = torch.randn(5, 2, generator=g)
    ty = torch.randn(5, generator=g)
    sx = torch.cat([tx[:2], tx[2:3] + 1e-3, torch.randn(1, 2, generator=g)], 0)
    for kind, s, noise in (("scale_rbf", 1.0, 1e-4), ("scale_matern1.5", 0.2, 3e-3)):
        model, lik = B._exact_model(kind, {"s": s, "l": 1.0, "mean": 0.3}, tx, ty, noise)

        def post(model=model):
            with torch.no_grad(), warnings.catch_warnings():
                warnings.simplefilter("ignore")
                return model(sx)

        def marg(model=model, lik=lik):
            with torch.no_grad(), warnings.catch_warnings():
                warnings.simplefilter("ignore")
                return lik(model(sx))

        def lazy_post(model=model):
            with torch.no_grad(), warnings.catch_warnings(), gpytorch.settings.max_eager_kernel_size(1):
                warnings.simplefilter("ignore")
                model.train()
                model.eval()
                return model(sx)
        out.append((f"ExactGP({kind}, noise {noise}) posterior at / near training points", post, "mvn"))
        out.append((f"ExactGP({kind}, noise {noise}) marginal likelihood(model(x*))", marg, "mvn"))
        out.append((f"ExactGP({kind}, noise {noise}) posterior through the lazily evaluated joint", lazy_post, "mvn"))
    q = {"inducing": (torch.randn(3, 2, generator=g) * 1.2).tolist(), "vdist": "cholesky", "strategy": "whitened", "kernel": "rbf",
         "s": 0.5, "l": 1.0, "vmean": [0.1, -0.2, 0.3], "vchol": [[0.02, 0, 0], [0.01, 0.03, 0], [0.0, 0.01, 0.015]], "vstd": None}
    vm, _ = B._var_model(q)
    Zq = torch.tensor(q["inducing"])

    def qf(vm=vm):
        with torch.no_grad(), warnings.catch_warnings():
            warnings.simplefilter("ignore")
            return vm(torch.cat([Zq[:2], Zq[2:] + 0.5], 0))
    out.append(("SVGP(whitened, Cholesky) q(f) at the inducing points", qf, "mvn"))
    try:
        mt_model = _deriv_model("rbf_grad", 2, tx[:3], torch.randn(3, 3, generator=g), {"s": 1.0, "ls": [0.6, 1.7], "noise": 1e-4})[0]

        def mtpost(mt_model=mt_model):
            with torch.no_grad(), warnings.catch_warnings():
                warnings.simplefilter("ignore")
                return mt_model(tx[:2])
        out.append(("ExactGP(RBFKernelGrad ARD) multitask posterior at training points", mtpost, "mt"))
    except Exception:  # pragma: no cover
        pass
    return out


def _read_accessor(acc, dist, kind, y, glik):
    """-> dict name -> tensor (everything this accessor hands out)"""
    import torch
    import gpytorch
    with warnings.catch_warnings():
        warnings.simplefilter("ignore")
        if acc == "variance":
            return {"variance": dist.variance.detach().clone()}
        if acc == "stddev":
            return {"stddev": dist.stddev.detach().clone()}
        if acc == "confidence_region":
            lo, hi = dist.confidence_region()
            return {"region_lower": lo.detach().clone(), "region_upper": hi.detach().clone()}
        if acc == "to_data_independent_dist":
            di = dist.to_data_independent_dist()
            if kind == "mt":
                return {"independent_variance": di.variance.detach().clone()}
            return {"independent_scale": di.scale.detach().clone(), "independent_loc": di.loc.detach().clone()}
        if acc == "qce":
            return {"quantile_coverage_error": gpytorch.metrics.quantile_coverage_error(dist, y, quantile=70.0).detach().clone()}
        if acc == "msll":
            return {"mean_standardized_log_loss": gpytorch.metrics.mean_standardized_log_loss(dist, y).detach().clone()}
        if acc == "gauss_elp":
            if kind == "mt":
                return {}
            with torch.no_grad():
                return {"gaussian_expected_log_prob": glik.expected_log_prob(y, dist).detach().clone()}
    raise RuntimeError(acc)


def run_accessor_history(ctx, drv, name, factory, kind, seq, order, want_driver=True):
    """one object `factory()`; for every floor of `seq`: read the accessors of `order[k]`; judge each value"""
    import torch
    import gpytorch
    fails = []
    dist = factory()
    exact = kind != "mvn-dense" and not name.startswith(("ExactGP", "SVGP"))
    g = torch.Generator().manual_seed(12345)
    y = dist.mean.detach() + torch.randn(dist.mean.shape, generator=g) * 0.3
    glik = gpytorch.likelihoods.GaussianLikelihood().eval()
    glik.noise = 0.37
    for k, (setting, accs) in enumerate(zip(seq, order)):
        with _floor_cm(setting):
            b = gpytorch.settings.min_variance.value(torch.double)
            twin = factory()                      # never read before, built and read under the floor in force now
            with warnings.catch_warnings():
                warnings.simplefilter("ignore")
                tv = twin.variance.detach().clone()
            for acc in accs:
                tag = (f"{name}: ONE object read under min_variance settings {seq}; step {k} (floor {b!r}), accessor `{acc}` "
                       f"(accessors read so far: {[a for o in order[:k] for a in o] + list(accs[:accs.index(acc)])})")
                try:
                    ref = _read_accessor(acc, twin, kind, y, glik)
                except Exception:
                    # undefined for a fresh object too (e.g. Normal(scale = 0) under floor 0.0 with a zero variance): not a history effect
                    ctx is not None and ctx.count("accessor_undefined_for_fresh_object")
                    continue
                try:
                    got = _read_accessor(acc, dist, kind, y, glik)
                except Exception as e:
                    fails.append((f"accessor-raises:{acc}", f"{tag}: raises {type(e).__name__}: {e} although a freshly built equal object "
                                  f"answers under the same floor"[:700]))
                    continue
                for nm, val in got.items():
                    rv = ref[nm]
                    if exact:       # bitwise, NaN == NaN (log-loss of a zero variance under floor 0.0 is legitimately inf - inf)
                        same = val.shape == rv.shape and bool(((val == rv) | (torch.isnan(val) & torch.isnan(rv))).all())
                    else:
                        same = torch.allclose(val, rv, rtol=1e-10, atol=1e-13, equal_nan=True)
                    if not same:
                        i = int((val - rv).abs().reshape(-1).argmax()) if val.numel() else 0
                        fails.append((f"accessor-remembers-earlier-setting:{nm}",
                                      f"{tag}: `{nm}` of the re-used object differs from that of a freshly built equal object under the "
                                      f"same floor: flat entry {i}: {val.reshape(-1)[i].item()!r} vs {rv.reshape(-1)[i].item()!r}"))
                    if nm == "variance" and ((val < b).any() or torch.isnan(val).any()):
                        fails.append(("accessor-vs-current-floor:variance", f"{tag}: variance {val.reshape(-1).tolist()[:8]} < floor {b!r}"))
                    if nm in ("stddev", "independent_scale"):
                        if (val * val < b * (1 - 1e-12)).any() or torch.isnan(val).any() or not torch.equal(val, tv.sqrt().reshape(val.shape)):
                            fails.append((f"accessor-vs-current-floor:{nm}",
                                          f"{tag}: `{nm}` = {val.reshape(-1).tolist()[:8]} is not sqrt(variance) = "
                                          f"{tv.sqrt().reshape(-1).tolist()[:8]} under the floor in force (sqrt(floor) = {b ** 0.5!r})"))
                    if nm in ("region_lower", "region_upper"):
                        m_, s2 = dist.mean.detach(), tv.sqrt().reshape(dist.mean.shape).mul(2)
                        wantv = m_.sub(s2) if nm == "region_lower" else m_.add(s2)
                        if not torch.equal(val, wantv):
                            fails.append((f"accessor-vs-current-floor:{nm}",
                                          f"{tag}: confidence_region() {nm} = {val.reshape(-1).tolist()[:8]} is not mean -+ 2 sqrt(variance) = "
                                          f"{wantv.reshape(-1).tolist()[:8]} under the floor in force"))
                    if nm == "independent_variance" and (val < b).any():
                        fails.append((f"accessor-vs-current-floor:{nm}", f"{tag}: {val.reshape(-1).tolist()[:8]} < floor {b!r}"))
            # exact: the variance of the re-used object is the regenerated clamp of the raw diagonal
            if want_driver and drv is not None and exact and kind in ("mvn", "mt") and "DiagLinearOperator" in name and "batch" not in name:
                with warnings.catch_warnings():
                    warnings.simplefilter("ignore")
                    v_now = dist.variance.detach().clone()
                rawd = dist.lazy_covariance_matrix.diagonal(dim1=-1, dim2=-2).detach()
                flat = v_now.reshape(-1) if kind == "mvn" or dist._interleaved else v_now.transpose(-1, -2).reshape(-1)

                def cb(rep, flat=flat.tolist(), rawd=rawd.tolist(), b=b, k=k):
                    vals, _ = C.parse_mat(rep.split())
                    want = [x[0] for x in vals]
                    ctx.count("accessor_variance_vs_clamp_compared")
                    if [_B().fr(x) for x in flat] != want:
                        ctx.fail("accessor-variance-vs-model", f"{name}: sequence {seq}, step {k} (floor {b!r}): variance {flat} but the regenerated "
                                 f"clamp of {rawd} gives {[float(w) for w in want]}",
                                 {"kind": "accessor_history", "object": name, "sequence": seq, "order": order})
                drv.ask(f"var {C.rat_str(_B().fr(b))} {len(rawd)} 1 " + " ".join(C.rat_str(_B().fr(v)) for v in rawd), cb)
    return fails


def accessor_cases(ctx, drv, tier):
    rng = ctx.rng("accessor-history")
    objs = accessor_objects(rng)
    reps = 2 if tier == "quick" else 12
    n_steps = {}
    for name, factory, kind in objs:
        for rep in range(reps):
            L = rng.choice([2, 3, 4, 5])
            seq = [rng.choice(FLOORS) for _ in range(L)]
            if rep == 0:
                seq = [None, rng.choice([1e-3, 1e-2, 0.1, 0.5])] + seq[2:]        # small floor first, then a larger one
            elif rep == 1:
                seq = [rng.choice([0.5, 0.1]), rng.choice([None, 0.0, 1e-8])] + seq[2:]   # large first, then a smaller one
            order = []
            for k in range(len(seq)):
                accs = rng.sample(ACCESSORS, rng.choice([2, 3, 5, len(ACCESSORS)]))
                if k == 0 and rep % 2 == 0:
                    accs = [rng.choice(["stddev", "confidence_region", "to_data_independent_dist", "qce"])] + accs
                order.append(accs)
            p = {"kind": "accessor_history", "object": name, "sequence": seq, "order": order}
            try:
                fails = run_accessor_history(ctx, drv, name, factory, kind, seq, order)
            except Exception as e:
                ctx.broke("correspondence", "accessor-history", f"{name} {seq}: {type(e).__name__}: {e}"[:600])
                continue
            n_steps[len(seq)] = n_steps.get(len(seq), 0) + 1
            ctx.case(f"accessor-history {name} seq={seq} order={order}", sample={"kind": "accessor_history", "object": name, "sequence": seq})
            seen = set()
            for key, what in fails:
                if key not in seen:
                    seen.add(key)
                    ctx.fail(key, what, p)
    ctx.notes["accessor_histories"] = {"objects": len(objs), "sequence_lengths": n_steps, "floors": [repr(f) for f in FLOORS],
                                       "accessors": sorted(set(ACCESSORS))}


def replay_accessor(ctx, case):
    rng = ctx.rng("accessor-history")
    for name, factory, kind in accessor_objects(rng):
        if name == case["object"]:
            return not run_accessor_history(ctx, None, name, factory, kind, case["sequence"], case["order"], want_driver=False)
    return True


# ------------------------------------------------------------------------------------------------ W3 derivative / ARD GPs

def _deriv_model(fam, d, tx, ty, hp):
    """ExactGP over a (possibly multi-output) kernel with UNEQUAL ARD lengthscales hp['ls'] (len d).
    -> (model, lik, t) with t = outputs per input (1 = plain MVN)."""
    import torch
    import gpytorch
    K = gpytorch.kernels
    ls = torch.tensor([hp["ls"]])
    t = 1
    if fam == "rbf_grad":
        base, t, mean = K.RBFKernelGrad(ard_num_dims=d), d + 1, gpytorch.means.ConstantMeanGrad()
    elif fam == "matern52_grad":
        base, t, mean = K.Matern52KernelGrad(ard_num_dims=d), d + 1, gpytorch.means.ConstantMeanGrad()
    elif fam == "rbf_gradgrad":
        base, t, mean = K.RBFKernelGradGrad(ard_num_dims=d), 2 * d + 1, gpytorch.means.ConstantMeanGradGrad()
    elif fam == "polynomial_grad":
        base, t, mean = K.PolynomialKernelGrad(power=2), d + 1, gpytorch.means.ConstantMeanGrad()
    elif fam == "multitask":
        b0 = K.RBFKernel(ard_num_dims=d)
        b0.lengthscale = ls
        base, t = K.MultitaskKernel(b0, num_tasks=2, rank=1), 2
        g = torch.Generator().manual_seed(hp.get("seed", 0))
        base.task_covar_module.covar_factor.data = torch.randn(2, 1, generator=g)       # (IndexKernel draws both at random)
        base.task_covar_module.raw_var.data = torch.randn(2, generator=g)
        mean = gpytorch.means.MultitaskMean(gpytorch.means.ConstantMean(), num_tasks=2)
    elif fam == "rbf":
        base, mean = K.RBFKernel(ard_num_dims=d), gpytorch.means.ConstantMean()
    elif fam == "matern1.5":
        base, mean = K.MaternKernel(nu=1.5, ard_num_dims=d), gpytorch.means.ConstantMean()
    elif fam == "rq":
        base, mean = K.RQKernel(ard_num_dims=d), gpytorch.means.ConstantMean()
    elif fam == "piecewise":
        base, mean = K.PiecewisePolynomialKernel(q=1, ard_num_dims=d), gpytorch.means.ConstantMean()
    else:
        raise RuntimeError(fam)
    if getattr(base, "has_lengthscale", False):
        base.lengthscale = ls
    if fam == "polynomial_grad":
        base.offset = 0.7
    wrap = fam != "multitask" and hp.get("scale", True)

    class M(gpytorch.models.ExactGP):
        def __init__(self, lik):
            super().__init__(tx, ty, lik)
            self.mean_module = mean
            self.covar_module = K.ScaleKernel(base) if wrap else base

        def forward(self, x):
            mx, kx = self.mean_module(x), self.covar_module(x)
            if t > 1:
                return gpytorch.distributions.MultitaskMultivariateNormal(mx, kx)
            return gpytorch.distributions.MultivariateNormal(mx, kx)
    if t > 1:
        lik = gpytorch.likelihoods.MultitaskGaussianLikelihood(num_tasks=t, has_task_noise=False)
    else:
        lik = gpytorch.likelihoods.GaussianLikelihood()
    lik.noise = hp["noise"]
    m = M(lik)
    if wrap:
        m.covar_module.outputscale = hp["s"]
    return m.eval(), lik.eval(), t


DERIV_FAMS = ["rbf_grad", "matern52_grad", "rbf_gradgrad", "polynomial_grad", "multitask", "rbf", "matern1.5", "rq", "piecewise"]


def deriv_payload(rng, fam):
    import torch
    g = torch.Generator().manual_seed(rng.torch_seed())
    d = rng.choice([2, 2, 3]) if fam != "rbf_gradgrad" else 2
    per = {"rbf_grad": d + 1, "matern52_grad": d + 1, "polynomial_grad": d + 1, "rbf_gradgrad": 2 * d + 1, "multitask": 2}.get(fam, 1)
    n = rng.choice([2, 3, 4]) if per > 1 else rng.choice([3, 5, 6])
    while n * per > 12:
        n -= 1
    m = rng.choice([2, 3]) if per <= 3 else 2
    ls = [rng.choice([0.3, 0.5, 0.8, 1.3, 2.1, 3.4]) for _ in range(d)]
    while len(set(ls)) < len(ls):
        ls = [rng.choice([0.3, 0.5, 0.8, 1.3, 2.1, 3.4]) for _ in range(d)]
    s = rng.choice([0.5, 1.0, 3.0])
    tx = torch.rand(n, d, generator=g) * 2 - 1
    sx = torch.rand(m, d, generator=g) * 2 - 1
    flavour = rng.choice(["plain", "test_on_train", "plain"])
    if flavour == "test_on_train":
        sx[0] = tx[0]
    ty = torch.randn(n, per, generator=g) if per > 1 else torch.randn(n, generator=g)
    return {"kind": "deriv_gp", "family": fam, "d": d, "flavour": flavour,
            "hp": {"s": s, "ls": ls, "noise": s * rng.choice([3e-2, 1e-1]), "seed": rng.getrandbits(16), "scale": rng.random() < 0.8},
            "train_x": tx.tolist(), "train_y": ty.tolist(), "test_x": sx.tolist()}


def run_deriv_gp(ctx, drv, p, want_driver=True):
    import torch
    import gpytorch
    B = _B()
    fails = []
    tx, ty, sx = torch.tensor(p["train_x"]), torch.tensor(p["train_y"]), torch.tensor(p["test_x"])
    fam, d = p["family"], p["d"]
    tag0 = f"ExactGP over {fam} (d={d}, ARD lengthscales {p['hp']['ls']}, n={tx.shape[0]}, m={sx.shape[0]}, {p['flavour']})"
    label = f"ardgp-{fam}"

    def fresh():
        return _deriv_model(fam, d, tx, ty, p["hp"])
    with torch.no_grad(), warnings.catch_warnings():
        warnings.simplefilter("ignore")
        model, lik, t = fresh()
        nt, mt = tx.shape[0] * t, sx.shape[0] * t
        # dense Gram matrix of train+test inputs: the specification of every block (full-matrix path of the kernel)
        G = model.covar_module(torch.cat([tx, sx], 0)).to_dense()
        Ktt, Kts, Kss = G[:nt, :nt], G[:nt, nt:], G[nt:, nt:]
        scale = max(torch.linalg.eigvalsh((Kss + Kss.T) / 2).abs().max().item(), 1e-300)
        noise = lik.noise.reshape(-1)[0].item()
        prior_var = Kss.diagonal()
        # P1 training mode: the prior at the training inputs, lazily evaluated
        model.train()
        pr = model(tx)
        fails += dist_consistency(pr, f"{tag0}: training-mode prior model(train_x)", label + "-train-prior", scale)
        d1 = (pr.covariance_matrix - Ktt).abs().max().item()
        if d1 > 1e-9 * scale:
            fails.append((f"{label}-train-prior-vs-gram", f"{tag0}: training-mode prior covariance differs from the dense Gram matrix by {d1:.3e}"))
        model.eval()
        # P2 prior mode at the test inputs
        with gpytorch.settings.prior_mode(True):
            pm = model(sx)
            fails += dist_consistency(pm, f"{tag0}: prior_mode model(x*)", label + "-prior-mode", scale)
        # P3 eager posterior, P4 posterior through the lazily evaluated joint (fresh model: no shared caches)
        post_d = model(sx)
        fails += dist_consistency(post_d, f"{tag0}: posterior", label + "-posterior", scale)
        post = post_d.covariance_matrix.clone()
        model_l, lik_l, _ = fresh()
        with gpytorch.settings.max_eager_kernel_size(1):
            lazy_d = model_l(sx)
            lazy_var_first = lazy_d.variance.clone()          # read BEFORE the dense matrix exists
            fails += dist_consistency(lazy_d, f"{tag0}: posterior through the lazily evaluated joint (max_eager_kernel_size(1))",
                                      label + "-posterior-lazy", scale)
            lazy = lazy_d.covariance_matrix.clone()
            marg_l = lik_l(lazy_d)
            fails += dist_consistency(marg_l, f"{tag0}: marginal of the lazy posterior", label + "-marginal-lazy", scale)
        marg = lik(post_d)
        fails += dist_consistency(marg, f"{tag0}: marginal likelihood(model(x*))", label + "-marginal", scale)
    for nm, var in (("posterior", post_d.variance), ("posterior through the lazily evaluated joint", lazy_var_first)):
        exc = (var.reshape(-1) - prior_var).max().item()
        if exc > B.MONO_TOL * scale:
            i = int((var.reshape(-1) - prior_var).argmax())
            fails.append((f"{label}-posterior-variance-above-prior",
                          f"{tag0}: {nm} variance of output {i} is {var.reshape(-1)[i].item()!r} > its prior variance "
                          f"{prior_var[i].item()!r} (diagonal of the dense Gram matrix): conditioning added uncertainty ({exc:.3e}, scale {scale:.3e})"))
    dl = (lazy - post).abs().max().item()
    if dl > 1e-7 * scale:
        fails.append((f"{label}-lazy-vs-eager", f"{tag0}: posterior covariance through the lazily evaluated joint differs from the eager one by {dl:.3e}"))
    for nm, Mx in (("prior", Kss), ("posterior", post), ("posterior-lazy", lazy), ("prior-minus-posterior", Kss - post),
                   ("prior-minus-posterior-lazy", Kss - lazy)):
        sm, info = B.cov_screen(Mx, scale)
        for sym, detail in sm:
            mag = info.get("asym_rel", 0.0) if sym == "asymmetric" else max(abs(min(info.get("rel_min_eig", 0.0), 0.0)), B.EIG_TOL)
            fails.append((f"{label}-{nm}-{sym}", f"{tag0}: {nm} covariance {detail}", sym, mag, f"ExactGP({fam})/{nm}"))
    if want_driver and drv is not None:
        A = Ktt + noise * torch.eye(nt)
        kappa = torch.linalg.eigvalsh((A + A.T) / 2).abs().max().item() / noise
        tol = 1e3 * nt * kappa * 2.0 ** -52 * scale + 1e-12

        def cb(rep, post=post, lazy=lazy, tol=tol):
            if rep in ("singular", "bad"):
                ctx.broke("correspondence", "schur", f"{tag0}: driver says {rep}")
                return
            rows, _ = C.parse_mat(rep.split())
            ex = torch.tensor([[float(v) for v in r] for r in rows])
            ctx.count("schur_compared", 2)
            for nm, Mx in (("posterior", post), ("posterior through the lazily evaluated joint", lazy)):
                diff = (ex - Mx).abs().max().item()
                if diff > tol:
                    ctx.fail(f"{label}-posterior-vs-schur", f"{tag0}: {nm} covariance differs from the exact Schur complement "
                             f"D - B^T A^-1 B of the dense kernel blocks by {diff:.3e} (tol {tol:.1e})", p)
        drv.ask(f"schur {B.rows_tokens(B.rat_rows(A))} {B.rows_tokens(B.rat_rows(Kts))} {B.rows_tokens(B.rat_rows(Kss))}", cb)
        rows = B.sym_rows(B.rat_rows(lazy))
        dlt = B.fr(B.EIG_TOL * scale)

        def cb3(rep, rows=rows):
            parts = rep.split(";")
            if len(parts) != 2:
                return
            dd = B.parse_decision(parts[1])
            ctx.count("model_cov_certified")
            if dd[0] == "neg":
                ctx.fail(f"{label}-posterior-lazy-indefinite", f"{tag0}: the posterior covariance through the lazily evaluated joint has "
                         f"exact negative curvature v^T M v = {float(B.quad(rows, dd[2])):.3e} beyond -1e-9*||prior||",
                         dict(p, witness_v=[C.rat_str(x) for x in dd[2]]))
        drv.ask(f"psd {C.rat_str(dlt)} {B.rows_tokens(rows)}", cb3)
    return fails


def deriv_gp_cases(ctx, drv, tier):
    B = _B()
    rng = ctx.rng("ardgp")
    reps = 3 if tier == "quick" else 30
    for fam in DERIV_FAMS:
        for _ in range(reps):
            p = deriv_payload(rng, fam)
            try:
                fails = run_deriv_gp(ctx, drv, p)
            except Exception as e:
                ctx.broke("correspondence", f"ardgp:{fam}", f"{type(e).__name__}: {e}"[:600])
                continue
            ctx.case(f"ardgp {fam} d={p['d']} ls={p['hp']['ls']} {p['flavour']} n={len(p['train_x'])} x0={p['train_x'][0]}",
                     sample={"kind": "deriv_gp", "family": fam, "d": p["d"], "lengthscales": p["hp"]["ls"]})
            B.report_model_fails(ctx, fails, p, lambda p=p: bool(run_deriv_gp(None, None, p, want_driver=False)))


# ------------------------------------------------------------------------------------------------ W2 variational strategies

VSTRAT_SYM_TOL = 1e-10     # rounding of K_xx + B^T (S - I) B relative to the summands; a wrong factor moves it by >= 1e-3

VSTRATS = [("whitened", ["cholesky", "meanfield", "delta", "natural", "tril_natural"]),
           ("unwhitened", ["cholesky", "meanfield", "delta"]),
           ("batchdec-1", ["cholesky", "meanfield", "tril_natural"]), ("batchdecNone", ["cholesky", "meanfield"]),
           ("orth_whitened", ["cholesky", "meanfield"]), ("orth_unwhitened", ["cholesky"]),
           ("ciq", ["cholesky", "meanfield", "natural"]), ("grid", ["cholesky", "meanfield"]),
           ("lmc", ["cholesky", "meanfield"]), ("indep_multitask", ["cholesky"]), ("nn", ["meanfield"])]


def vstrat_payload(rng, strat, vdist):
    import torch
    g = torch.Generator().manual_seed(rng.torch_seed())
    d = rng.choice([1, 2]) if strat != "grid" else rng.choice([1, 2])
    M = rng.choice([2, 3, 4, 5])
    n = rng.choice([2, 3, 4])
    Z = torch.rand(M, d, generator=g)
    X = torch.rand(n, d, generator=g)
    flavour = rng.choice(["plain", "test_on_inducing", "dup_test"])
    if flavour == "test_on_inducing":
        X[0] = Z[0]
    elif flavour == "dup_test":
        X[1] = X[0]
    return {"kind": "vstrat", "strategy": strat, "vdist": vdist, "d": d, "flavour": flavour, "kernel": rng.choice(["rbf", "matern1.5"]),
            "inducing": Z.tolist(), "test_x": X.tolist(), "perturb_seed": rng.getrandbits(30), "amount": rng.choice([0.15, 0.4, 0.8]),
            "grid_size": rng.choice([4, 5]), "lik_noise": rng.choice([1e-3, 0.1]), "n_extra": rng.choice([1, 2])}


def _vstrat_model(p):
    import torch
    import gpytorch
    V = gpytorch.variational
    Z = torch.tensor(p["inducing"])
    M, d = Z.shape
    strat = p["strategy"]
    vdc = {"cholesky": V.CholeskyVariationalDistribution, "meanfield": V.MeanFieldVariationalDistribution,
           "delta": V.DeltaVariationalDistribution, "natural": V.NaturalVariationalDistribution,
           "tril_natural": V.TrilNaturalVariationalDistribution}[p["vdist"]]

    class GP(gpytorch.models.ApproximateGP):
        def __init__(self):
            bs = torch.Size([])
            if strat in ("whitened", "unwhitened"):
                cls = V.VariationalStrategy if strat == "whitened" else V.UnwhitenedVariationalStrategy
                vs = cls(self, Z, vdc(M), learn_inducing_locations=True)
            elif strat.startswith("batchdec"):
                bd = -1 if strat.endswith("-1") else None
                vs = V.BatchDecoupledVariationalStrategy(self, Z, vdc(M), learn_inducing_locations=True, mean_var_batch_dim=bd)
                bs = torch.Size([2])
            elif strat.startswith("orth"):
                cls = V.VariationalStrategy if strat == "orth_whitened" else V.UnwhitenedVariationalStrategy
                base = cls(self, Z, vdc(M), learn_inducing_locations=True)
                g = torch.Generator().manual_seed(p["perturb_seed"] + 1)
                Zm = torch.rand(M + p["n_extra"], d, generator=g)
                vs = V.OrthogonallyDecoupledVariationalStrategy(base, Zm, V.DeltaVariationalDistribution(M + p["n_extra"]))
            elif strat == "ciq":
                vs = V.CiqVariationalStrategy(self, Z, vdc(M), learn_inducing_locations=True)
            elif strat == "grid":
                vs = V.GridInterpolationVariationalStrategy(self, p["grid_size"], [(-0.3, 1.3)] * d, vdc(p["grid_size"] ** d))
            elif strat in ("lmc", "indep_multitask"):
                Q = 2
                bs = torch.Size([Q])
                base = V.VariationalStrategy(self, Z.unsqueeze(0).repeat(Q, 1, 1), vdc(M, batch_shape=bs), learn_inducing_locations=True)
                if strat == "lmc":
                    vs = V.LMCVariationalStrategy(base, num_tasks=3, num_latents=Q, latent_dim=-1)
                else:
                    vs = V.IndependentMultitaskVariationalStrategy(base, num_tasks=Q)
            elif strat == "nn":
                vs = V.NNVariationalStrategy(self, Z, vdc(M), k=min(2, M - 1), training_batch_size=M)
            else:
                raise RuntimeError(strat)
            super().__init__(vs)
            self.mean_module = gpytorch.means.ConstantMean(batch_shape=bs)
            b = gpytorch.kernels.RBFKernel(batch_shape=bs, ard_num_dims=d) if p["kernel"] == "rbf" else \
                gpytorch.kernels.MaternKernel(nu=1.5, batch_shape=bs, ard_num_dims=d)
            self.covar_module = gpytorch.kernels.ScaleKernel(b, batch_shape=bs)

        def forward(self, x):
            return gpytorch.distributions.MultivariateNormal(self.mean_module(x), self.covar_module(x))
    return GP()


def _perturb(model, p):
    """move EVERY parameter by an independent random amount (after the variational parameters were initialised)"""
    import torch
    g = torch.Generator().manual_seed(p["perturb_seed"])
    a = p["amount"]
    with torch.no_grad():
        for name, prm in model.named_parameters():
            noise = torch.randn(prm.shape, generator=g)
            if "chol_variational_covar" in name:
                prm.add_(0.3 * a * noise.tril())
            elif "natural_mat" in name:
                # keep the natural matrix negative definite: -(1/2) S^-1 with S SPD
                A = 0.3 * a * noise
                S = torch.eye(prm.shape[-1]) * 0.5 + A @ A.transpose(-1, -2)
                prm.copy_(-0.5 * torch.linalg.inv(S))
            elif "natural_tril_mat" in name:
                prm.add_(0.2 * a * noise.tril())
            elif "_variational_stddev" in name:
                prm.mul_(torch.exp(a * noise))
            else:
                prm.add_(a * noise)
    # documented invalidation point for direct parameter edits: a train() / eval() round trip
    model.train()
    model.eval()


def _sym_inv_sqrt(A):
    import torch
    ev, Q = torch.linalg.eigh((A + A.mT) / 2)
    return Q @ torch.diag_embed(ev.clamp_min(1e-300).rsqrt()) @ Q.mT


def _closed_form(model, p, X, mode):
    """-> None or dict(Kss, Bm, S, kind) for the strategies whose q(f) covariance is K_xx + jI + B^T (S - I) B.
    kind 'exact' (Cholesky whitening as the code does it) or 'approx' (CIQ: symmetric root by contour quadrature)"""
    import torch
    strat = p["strategy"]
    vs = model.variational_strategy
    if strat == "orth_whitened":
        vs = vs.base_variational_strategy
    if strat not in ("whitened", "batchdec-1", "batchdecNone", "orth_whitened", "ciq"):
        return None
    if p["vdist"] in ("natural",) and strat == "ciq":
        return None      # NGD-CIQ hands out a diagonal covariance
    vd = vs._variational_distribution
    with torch.no_grad():
        S = vd().covariance_matrix.clone() if p["vdist"] != "delta" else torch.zeros(vd.variational_mean.shape[-1], vd.variational_mean.shape[-1])
        Z = vs.inducing_points.detach()
        km = model.covar_module
        if strat.startswith("batchdec"):
            Zv = Z[1] if strat.endswith("-1") or Z.dim() == 3 else Z[..., 1, :, :]
            Kzz = km(Zv.unsqueeze(0).expand(2, *Zv.shape)).to_dense()[1]
            Kzx = km(Zv.unsqueeze(0).expand(2, *Zv.shape), X.unsqueeze(0).expand(2, *X.shape)).to_dense()[1]
            Kxx = km(X.unsqueeze(0).expand(2, *X.shape)).to_dense()[1]
        else:
            Kzz, Kzx, Kxx = km(Z).to_dense(), km(Z, X).to_dense(), km(X).to_dense()
    jit = vs.jitter_val
    m = Kzz.shape[-1]
    Kj = Kzz + jit * torch.eye(m)
    if torch.linalg.cond(Kj).item() > 1e6:
        return "ill"
    if strat == "ciq":
        Bm = _sym_inv_sqrt(Kj) @ Kzx
        Kss = Kxx + 2 * jit * torch.eye(X.shape[0])      # the CIQ forward adds the jitter twice
        return {"Kss": Kss, "B": Bm, "S": S, "kind": "approx", "cond": torch.linalg.cond(Kj).item()}
    L = torch.linalg.cholesky(Kj)
    Bm = torch.linalg.solve_triangular(L, Kzx, upper=False)
    Kss = Kxx + jit * torch.eye(X.shape[0])
    return {"Kss": Kss, "B": Bm, "S": S, "kind": "exact"}


def run_vstrat(ctx, drv, p, want_driver=True):
    import torch
    import gpytorch
    B = _B()
    fails = []
    strat = p["strategy"]
    X = torch.tensor(p["test_x"])
    try:
        model = _vstrat_model(p)
    except (ImportError, ModuleNotFoundError) as e:
        if ctx is not None:
            ctx.count("vstrat_not_constructible:" + strat)
        return fails
    lik = gpytorch.likelihoods.GaussianLikelihood().eval()
    lik.noise = p["lik_noise"]
    with torch.no_grad(), warnings.catch_warnings():
        warnings.simplefilter("ignore")
        if strat == "nn":
            model.train()
            model(torch.tensor(p["inducing"]))        # NN strategy initialises its parameters in training mode
        model.eval()
        model(X)                                       # initialises the variational parameters
    for state in ("as-constructed", "perturbed"):
        if state == "perturbed":
            _perturb(model, p)
        for mode in (("eval", "train") if strat != "nn" else ("eval",)):
            tag = f"{type(model.variational_strategy).__name__}[{strat}]/{p['vdist']}/{p['kernel']}/{p['flavour']} d={p['d']} M={len(p['inducing'])} " \
                  f"state={state}" + (f" (every parameter moved, amount {p['amount']}, seed {p['perturb_seed']})" if state == "perturbed" else "") + f" mode={mode}"
            label = f"vstrat-{strat}/{p['vdist']}"
            model.train(mode == "train")
            with torch.no_grad(), warnings.catch_warnings():
                warnings.simplefilter("ignore")
                q = model(X)
                qc = q.covariance_matrix.clone()
                fails += dist_consistency(q, f"{tag}: q(f)", label + "-q(f)")
                try:
                    pc = lik(q).covariance_matrix.clone() if not isinstance(q, gpytorch.distributions.MultitaskMultivariateNormal) else None
                except Exception:
                    pc = None
            model.eval()
            if qc.dim() > 2:
                mats = [(f"q(f)[{i}]", qc.reshape(-1, *qc.shape[-2:])[i]) for i in range(qc.reshape(-1, *qc.shape[-2:]).shape[0])]
            else:
                mats = [("q(f)", qc)]
            if pc is not None and pc.dim() == 2:
                mats.append(("predictive", pc))
            with torch.no_grad(), warnings.catch_warnings():
                warnings.simplefilter("ignore")
                kx = model.covar_module(X)
                kx = kx.to_dense() if hasattr(kx, "to_dense") else kx
            # scale of the summands K_xx and B^T S B (the result itself can be much smaller: cancellation near inducing points)
            sscale = max(qc.abs().max().item(), kx.abs().max().item(), 1e-300)
            for name, Mx in mats:
                sm, info = B.float_screen(Mx, None, scale_ref=sscale, sym_tol=VSTRAT_SYM_TOL)
                sm = [x for x in sm if x[0] != "correlation>1"]
                for sym, detail in sm:
                    mag = info.get("asym_rel", 0.0) if sym == "asymmetric" else max(abs(min(info.get("rel_min_eig", 0.0), 0.0)), B.EIG_TOL)
                    fails.append((f"{label}-{name.split('[')[0]}-{sym}", f"{tag}: {name} covariance {detail}", sym, mag,
                                  f"Variational({strat},{p['vdist']},{p['kernel']})/{name}"))
            cf = _closed_form(model, p, X, mode) if qc.dim() == 2 else None
            if cf == "ill":
                ctx is not None and ctx.count("variational_discarded_ill_conditioned")
                cf = None
            if cf is not None:
                Sn = max(cf["S"].abs().max().item(), 1.0)
                ref = cf["Kss"] + cf["B"].T @ (cf["S"] - torch.eye(cf["S"].shape[0])) @ cf["B"]
                diff = (ref - qc).abs().max().item()
                # CIQ: linear_operator's contour-integral quadrature of K^-1/2 is accurate to ~1e-11 for cond(K_zz) <= 6e3, 5e-4 at
                # 9e3 and a few 1e-2 beyond 3e4 (measured); its accuracy is the primitive's contract, not gpytorch's algebra:
                # judged for cond <= 1e3 (tolerance 1e-4), recorded as an ASSUMPTION line otherwise
                tolf = (1e-7 if cf["kind"] == "exact" else 1e-4) * sscale * Sn
                if diff > tolf:
                    if cf["kind"] == "approx" and cf["cond"] > 1e3:
                        if ctx is not None:
                            ctx.count("ciq_closed_form_not_judged_cond>1e3")
                            ctx.assumption(f"C07 CIQ contour quadrature (cond(K_zz) = {cf['cond']:.1e}): q(f) covariance {diff / sscale:.2e} "
                                           f"(relative) from the closed form with the exact symmetric root")
                    else:
                        fails.append((f"{label}-vs-closed-form", f"{tag}: q(f) covariance differs from K_xx + jI + B^T (S - I) B (B = K_zz^-1/2 K_zx "
                                      f"of the covariance branch, CURRENT parameters) by {diff:.3e} (scale {sscale:.3e}"
                                      + (f", cond(K_zz) = {cf['cond']:.1e}" if "cond" in cf else "") + ")"))
                if want_driver and drv is not None and cf["kind"] == "exact":
                    tol = 1e-8 * sscale * Sn * max(1.0, Sn) + 1e-12

                    def cb(rep, qc=qc, tol=tol, tag=tag, label=label):
                        rows, _ = C.parse_mat(rep.split())
                        ex = torch.tensor([[float(v) for v in r] for r in rows])
                        d_ = (ex - qc).abs().max().item()
                        ctx.count("vcov_compared")
                        if d_ > tol:
                            ctx.fail(f"{label}-vs-model", f"{tag}: q(f) covariance differs from the model's variationalCov K_ss - B^T (I - S) B by "
                                     f"{d_:.3e} (tol {tol:.1e})", p)
                    drv.ask(f"vcov {B.rows_tokens(B.rat_rows(cf['Kss']))} {B.rows_tokens(B.rat_rows(cf['B']))} {B.rows_tokens(B.rat_rows(cf['S']))}", cb)
            if mode == "eval":
                fails += _call_forms(ctx, drv, model, p, X, state, q, sscale, want_driver)
            if want_driver and drv is not None and qc.dim() == 2 and qc.shape[-1] <= 12:
                rows = B.sym_rows(B.rat_rows(qc))
                dl = B.fr(B.EIG_TOL * sscale)

                def cb3(rep, rows=rows, tag=tag, label=label):
                    parts = rep.split(";")
                    if len(parts) != 2:
                        return
                    dd = B.parse_decision(parts[1])
                    ctx.count("model_cov_certified")
                    if dd[0] == "neg":
                        ctx.fail(f"{label}-q(f)-indefinite", f"{tag}: (symmetric part of the) q(f) covariance has exact negative curvature "
                                 f"v^T M v = {float(B.quad(rows, dd[2])):.3e} beyond -1e-9*scale", dict(p, witness_v=[C.rat_str(x) for x in dd[2]]))
                drv.ask(f"psd {C.rat_str(dl)} {B.rows_tokens(rows)}", cb3)
    return fails


def _call_forms(ctx, drv, model, p, X, state, q_full, sscale, want_driver):
    """the other documented CALL FORMS of a variational strategy, judged on the whole matrix (symmetry, PSD, exact certificate,
    closed form), not only on the diagonal:
      * `model(x, prior=True)`              == `model.forward(x)` (every strategy class);
      * `model(x, task_indices=t)`          (IndependentMultitask / LMC; >= 2 distinct tasks among the inputs, and a constant
                                            vector) == the sub-block of the full multitask q(f) at the pairs (x_i, t_i):
                                            zero between different tasks for the independent strategy."""
    import torch
    import gpytorch
    B = _B()
    fails = []
    strat = p["strategy"]
    label = f"vstrat-{strat}/{p['vdist']}"
    tag0 = f"{type(model.variational_strategy).__name__}[{strat}]/{p['vdist']}/{p['kernel']} d={p['d']} M={len(p['inducing'])} state={state}"

    def judge(name, Mx, scale, form):
        sm, info = B.float_screen(Mx, None, scale_ref=scale, sym_tol=VSTRAT_SYM_TOL)
        for sym, detail in [x for x in sm if x[0] != "correlation>1"]:
            mag = info.get("asym_rel", 0.0) if sym == "asymmetric" else max(abs(min(info.get("rel_min_eig", 0.0), 0.0)), B.EIG_TOL)
            fails.append((f"{label}-{form}-{sym}", f"{tag0}: {name} covariance {detail}", sym, mag, f"Variational({strat},{p['vdist']})/{form}"))
        if want_driver and drv is not None and Mx.shape[-1] <= 12:
            rows = B.sym_rows(B.rat_rows(Mx))

            def cb(rep, rows=rows, name=name, form=form):
                parts = rep.split(";")
                if len(parts) != 2:
                    return
                dd = B.parse_decision(parts[1])
                ctx.count("model_cov_certified")
                if dd[0] == "neg":
                    ctx.fail(f"{label}-{form}-indefinite", f"{tag0}: (symmetric part of the) {name} covariance has exact negative curvature "
                             f"v^T M v = {float(B.quad(rows, dd[2])):.3e} beyond -1e-9*scale", dict(p, witness_v=[C.rat_str(x) for x in dd[2]]))
            drv.ask(f"psd {C.rat_str(B.fr(B.EIG_TOL * scale))} {B.rows_tokens(rows)}", cb)
    with torch.no_grad(), warnings.catch_warnings():
        warnings.simplefilter("ignore")
        # ---- prior=True
        if strat != "nn":
            try:
                pr = model(X, prior=True)
                fw = model.forward(X)
            except Exception as e:
                # no covariance is handed out (OBSERVATION on the unchanged tree: OrthogonallyDecoupledVariationalStrategy raises
                # TypeError for prior=True — `self.model.forward(x)` is the base strategy's forward, docs/C07.md)
                if ctx is not None:
                    ctx.count(f"vstrat_prior_call_raises:{strat}:{type(e).__name__}")
                pr = None
            if pr is not None:
                pc, fc = pr.covariance_matrix, fw.covariance_matrix
                if pc.shape != fc.shape and pc.numel() == fc.numel():
                    fc = fc.reshape(pc.shape)
                if pc.shape == fc.shape:
                    dd_ = (pc - fc).abs().max().item()
                    if dd_ > 1e-9 * max(fc.abs().max().item(), 1e-300):
                        fails.append((f"{label}-prior-call-vs-forward", f"{tag0}: model(x, prior=True) covariance differs from model.forward(x) by {dd_:.3e}"))
                fails += dist_consistency(pr, f"{tag0}: model(x, prior=True)", label + "-prior-call")
                flat = pc.reshape(-1, *pc.shape[-2:])
                for i in range(flat.shape[0]):
                    judge(f"model(x, prior=True)[{i}]", flat[i], max(flat[i].abs().max().item(), 1e-300), "prior-call")
        # ---- task_indices=
        if strat in ("indep_multitask", "lmc") and isinstance(q_full, gpytorch.distributions.MultitaskMultivariateNormal):
            n, T = q_full.mean.shape[-2:]
            full = q_full.covariance_matrix
            g = torch.Generator().manual_seed(p["perturb_seed"] + 7)
            forms = [("distinct", torch.arange(n) % T), ("random", torch.randint(0, T, (n,), generator=g)), ("constant", torch.full((n,), T - 1))]
            if len(set(forms[1][1].tolist())) < 2:
                forms[1] = ("random", (torch.arange(n) + 1) % T)
            for fname, ti in forms:
                form = f"task_indices[{fname}]"
                try:
                    qt = model(X, task_indices=ti)
                except Exception as e:
                    fails.append((f"{label}-task_indices-raises", f"{tag0}: model(x, task_indices={ti.tolist()}) raises {type(e).__name__}: {e}"[:500]))
                    continue
                tc = qt.covariance_matrix
                idx = torch.arange(n) * T + ti if q_full._interleaved else ti * n + torch.arange(n)
                ref = full[idx][:, idx]
                name = f"model(x, task_indices={ti.tolist()})"
                if tc.shape != ref.shape:
                    fails.append((f"{label}-task_indices-shape", f"{tag0}: {name} covariance has shape {tuple(tc.shape)}, expected {tuple(ref.shape)}"))
                    continue
                dd_ = (tc - ref).abs().max().item()
                if dd_ > 1e-8 * sscale:
                    i, j = divmod(int((tc - ref).abs().argmax()), n)
                    fails.append((f"{label}-task_indices-vs-full", f"{tag0}: {name}: covariance entry ({i},{j}) (tasks {ti[i].item()}, {ti[j].item()}) is "
                                  f"{tc[i, j].item()!r}; the full multitask q(f) has {ref[i, j].item()!r} for that pair of (input, task) "
                                  f"(max difference {dd_:.3e}, scale {sscale:.3e})"))
                dm = (qt.mean - q_full.mean[torch.arange(n), ti]).abs().max().item()
                if dm > 1e-8 * max(q_full.mean.abs().max().item(), 1.0):
                    fails.append((f"{label}-task_indices-mean-vs-full", f"{tag0}: {name}: mean differs from the full multitask mean by {dm:.3e}"))
                fails += dist_consistency(qt, f"{tag0}: {name}", label + "-task_indices")
                judge(name, tc, sscale, "task_indices")
                if ctx is not None:
                    ctx.count("vstrat_task_indices_forms")
    return fails


def vstrat_cases(ctx, drv, tier):
    B = _B()
    rng = ctx.rng("vstrat")
    reps = 2 if tier == "quick" else 24
    per = {}
    for strat, vdists in VSTRATS:
        for vdist in vdists:
            for _ in range(reps):
                p = vstrat_payload(rng, strat, vdist)
                try:
                    fails = run_vstrat(ctx, drv, p)
                except Exception as e:
                    ctx.broke("correspondence", f"vstrat:{strat}/{vdist}", f"{type(e).__name__}: {e}"[:600])
                    continue
                per[strat] = per.get(strat, 0) + 1
                ctx.case(f"vstrat {strat} {vdist} {p['kernel']} {p['flavour']} d={p['d']} M={len(p['inducing'])} seed={p['perturb_seed']}",
                         sample={"kind": "vstrat", "strategy": strat, "vdist": vdist, "amount": p["amount"]})
                B.report_model_fails(ctx, fails, p, lambda p=p: bool(run_vstrat(None, None, p, want_driver=False)))
    ctx.notes["variational_strategy_classes"] = per


# ------------------------------------------------------------------------------------------------ W4 OVC fantasies
# ApproximateGP.get_fantasy_model (online variational conditioning, Maddox et al. 2021): the SVGP is an exact GP over the
# inducing points Z with pseudo-targets y_hat and pseudo-noise D_hat = (S_u^-1 - K_ZZ^-1)^-1; conditioning on (X_f, y_f)
# is exact-GP conditioning on [Z; X_f] with noise blockdiag(D_hat, sigma^2 I).  Judged: every covariance handed out is
# symmetric PSD, prior - posterior PSD, variance = diagonal, AND conditioning never adds uncertainty (fantasy variance <=
# q(f) variance before the fantasy), AND equal to the dense conditional.

OVC_KEY = "ovc-fantasy-pseudo-noise-dropped:fast_pred_var-off"


def ovc_payload(rng, strategy):
    import torch
    g = torch.Generator().manual_seed(rng.torch_seed())
    d = rng.choice([1, 2])
    M = rng.choice([3, 4, 5])
    Q, _ = torch.linalg.qr(torch.randn(M, M, generator=g))
    ev = torch.rand(M, generator=g) * 0.5 + 0.08            # eigenvalues of the whitened S in [0.08, 0.58]: S < I, well conditioned
    S = Q @ torch.diag(ev) @ Q.T
    return {"kind": "ovc", "strategy": strategy, "d": d, "kernel": rng.choice(["rbf", "matern1.5"]), "s": rng.choice([0.5, 1.0, 2.0]),
            "l": rng.choice([0.5, 0.8]), "noise": rng.choice([0.02, 0.1]),
            # inducing points on a jittered grid along the first coordinate (well separated: K_ZZ well conditioned)
            "inducing": torch.cat([((torch.arange(M) + 0.5) / M * 2 + 0.1 * torch.randn(M, generator=g)).unsqueeze(-1),
                                   torch.rand(M, d - 1, generator=g) * 2], -1).tolist(),
            "S_whitened": ((S + S.T) / 2).tolist(), "vmean": (torch.randn(M, generator=g) * 0.5).tolist(),
            "fant_x": (torch.rand(rng.choice([1, 2, 3]), d, generator=g) * 2).tolist(),
            "test_x": (torch.rand(rng.choice([2, 3, 4]), d, generator=g) * 2).tolist(), "fant_seed": rng.getrandbits(20)}


def _ovc_model(p):
    import torch
    import gpytorch
    Z = torch.tensor(p["inducing"])
    M = Z.shape[0]
    cls = gpytorch.variational.VariationalStrategy if p["strategy"] == "whitened" else gpytorch.variational.UnwhitenedVariationalStrategy

    class GP(gpytorch.models.ApproximateGP):
        def __init__(self):
            vd = gpytorch.variational.CholeskyVariationalDistribution(M)
            super().__init__(cls(self, Z, vd, learn_inducing_locations=False))
            self.mean_module = gpytorch.means.ZeroMean()
            b = gpytorch.kernels.RBFKernel() if p["kernel"] == "rbf" else gpytorch.kernels.MaternKernel(nu=1.5)
            self.covar_module = gpytorch.kernels.ScaleKernel(b)
            self.likelihood = gpytorch.likelihoods.GaussianLikelihood()

        def forward(self, x):
            return gpytorch.distributions.MultivariateNormal(self.mean_module(x), self.covar_module(x))
    m = GP()
    m.likelihood.noise = p["noise"]
    m.covar_module.outputscale = p["s"]
    m.covar_module.base_kernel.lengthscale = p["l"]
    m.eval()
    m.likelihood.eval()
    Sw = torch.tensor(p["S_whitened"])
    with torch.no_grad(), warnings.catch_warnings():
        warnings.simplefilter("ignore")
        Kzz = m.covar_module(Z).to_dense()
        L = torch.linalg.cholesky(Kzz)
        S = Sw if p["strategy"] == "whitened" else L @ Sw @ L.T       # unwhitened: S_u = L S L^T  (so S_u < K)
        mv = torch.tensor(p["vmean"]) if p["strategy"] == "whitened" else L @ torch.tensor(p["vmean"])
        m(torch.tensor(p["test_x"]))
        vd = m.variational_strategy._variational_distribution
        vd.chol_variational_covar.copy_(torch.linalg.cholesky((S + S.T) / 2))
        vd.variational_mean.copy_(mv)
        m.train()
        m.eval()
        m.likelihood.eval()
    return m, Kzz, L, Sw


def run_ovc(ctx, drv, p, want_driver=True, judge_known=True):
    import torch
    import gpytorch
    B = _B()
    fails = []
    Z, xf, xs = torch.tensor(p["inducing"]), torch.tensor(p["fant_x"]), torch.tensor(p["test_x"])
    M, nf = Z.shape[0], xf.shape[0]
    g = torch.Generator().manual_seed(p["fant_seed"])
    yf = torch.randn(nf, generator=g)
    name = "VariationalStrategy" if p["strategy"] == "whitened" else "UnwhitenedVariationalStrategy"
    tag0 = f"{name}/Cholesky {p['kernel']} d={p['d']} M={M}: get_fantasy_model with {nf} point(s)"
    out = {}
    for fpv in (False, True):
        m, Kzz, L, Sw = _ovc_model(p)
        with torch.no_grad(), warnings.catch_warnings():
            warnings.simplefilter("ignore")
            q = m(xs)
            qvar, qcov = q.variance.clone(), q.covariance_matrix.clone()
            k = m.covar_module
            with gpytorch.settings.fast_pred_var(fpv):
                fm = m.get_fantasy_model(xf, yf)
                post_d = fm(xs)
                fails += dist_consistency(post_d, f"{tag0}, fast_pred_var({fpv}): fantasy posterior", "ovc-fantasy-posterior")
                fcov = post_d.covariance_matrix.clone()
                fmean = post_d.mean.clone()
                code_targets = fm.train_targets.detach().reshape(-1).clone()     # [pseudo-targets as the code computed them; y_f]
            XA = torch.cat([Z, xf])
            KA, KsA, Kss = k(XA).to_dense(), k(xs, XA).to_dense(), k(xs).to_dense()
        Dw = torch.linalg.inv(torch.linalg.inv(Sw) - torch.eye(M))          # whitened pseudo-noise (S^-1 - I)^-1
        Dhat = L @ Dw @ L.T
        N = torch.zeros(M + nf, M + nf)
        N[:M, :M] = Dhat
        N[M:, M:] = p["noise"] * torch.eye(nf)
        scale = max(torch.linalg.eigvalsh((Kss + Kss.T) / 2).abs().max().item(), 1e-300)
        # the code regularises (R R^T + jitter)^-1 with R = I - S (whitened) / K - S_u (unwhitened): judge only where that
        # regularisation is negligible (jitter / lambda_min(R R^T) <= 1e-3), and the reference solve is well conditioned
        Rm = torch.eye(M) - Sw if p["strategy"] == "whitened" else Kzz - L @ Sw @ L.T
        lam = torch.linalg.eigvalsh(Rm @ Rm.T)[0].item()
        if torch.linalg.cond(KA + N).item() > 1e5 or torch.linalg.cond(Kzz).item() > 1e5 or m.variational_strategy.jitter_val > 1e-3 * lam:
            ctx is not None and ctx.count("ovc_discarded_ill_conditioned")
            return fails
        ref = Kss - KsA @ torch.linalg.solve(KA + N, KsA.T)
        allnoise = Kss - KsA @ torch.linalg.solve(KA + p["noise"] * torch.eye(M + nf), KsA.T)
        # pseudo-targets y_hat = D_hat S_u^-1 m_u = L (I - S)^-1 m (whitened parameters), zero prior mean
        yA = torch.cat([L @ torch.linalg.solve(torch.eye(M) - Sw, torch.tensor(p["vmean"])), yf])
        ref_mean = KsA @ torch.linalg.solve(KA + N, yA)
        allnoise_mean = KsA @ torch.linalg.solve(KA + p["noise"] * torch.eye(M + nf), code_targets)
        msc = max(ref_mean.abs().max().item(), yA.abs().max().item(), 1.0)
        out[fpv] = {"mdev": (fmean - ref_mean).abs().max().item() / msc, "mdev_allnoise": (fmean - allnoise_mean).abs().max().item() / msc,
                    "fcov": fcov, "dev": (fcov - ref).abs().max().item() / scale, "dev_allnoise": (fcov - allnoise).abs().max().item() / scale,
                    "inc": (fcov.diagonal() - qvar).max().item() / scale, "ref_inc": (ref.diagonal() - qvar).max().item() / scale}
        for nm, Mx in (("fantasy posterior", fcov), ("prior-minus-fantasy-posterior", (Kss + Kss.T) / 2 - fcov)):
            sm, info = B.cov_screen(Mx, scale)
            for sym, detail in sm:
                mag = info.get("asym_rel", 0.0) if sym == "asymmetric" else max(abs(min(info.get("rel_min_eig", 0.0), 0.0)), B.EIG_TOL)
                fails.append((f"ovc-fantasy-{nm.replace(' ', '-')}-{sym}:{name}", f"{tag0}, fast_pred_var({fpv}): {nm} covariance {detail}", sym, mag,
                              f"OVC({name})/{nm}"))
        if want_driver and drv is not None:
            rows = B.sym_rows(B.rat_rows(fcov))

            def cb3(rep, rows=rows, fpv=fpv):
                parts = rep.split(";")
                if len(parts) != 2:
                    return
                dd = B.parse_decision(parts[1])
                ctx.count("model_cov_certified")
                if dd[0] == "neg":
                    ctx.fail(f"ovc-fantasy-posterior-indefinite:{name}", f"{tag0}, fast_pred_var({fpv}): exact negative curvature "
                             f"{float(B.quad(rows, dd[2])):.3e}", dict(p, witness_v=[C.rat_str(x) for x in dd[2]]))
            drv.ask(f"psd {C.rat_str(B.fr(B.EIG_TOL * scale))} {B.rows_tokens(rows)}", cb3)
    TOL = 2e-3       # the code's own jitters (pseudo_points: (R R^T + jitter)^-1, Cholesky jitter) move the result by <= ~1e-4
    signature = out[False]["dev_allnoise"] <= 1e-9 and out[True]["dev"] <= TOL and out[False]["dev"] > TOL
    for fpv in (False, True):
        o = out[fpv]
        probs = []
        if o["dev"] > TOL:
            probs.append(f"the fantasy posterior covariance differs from the dense conditional K** - K*A (K_AA + blockdiag(D_hat, sigma^2 I))^-1 KA* "
                         f"by {o['dev']:.3e} of the prior scale")
        if o["inc"] > 1e-3 and o["ref_inc"] <= 1e-6:
            probs.append(f"a posterior variance is {o['inc']:.3e} (of the prior scale) ABOVE the q(f) variance before the fantasy: conditioning on "
                         f"more data added uncertainty (dense conditional: {o['ref_inc']:.1e})")
        if o["mdev"] > 5e-3:
            whatm = (f"{tag0}, fast_pred_var({fpv}): the fantasy posterior MEAN differs from the dense conditional mean "
                     f"K*A (K_AA + blockdiag(D_hat, sigma^2 I))^-1 [y_hat; y_f] by {o['mdev']:.3e} (relative to the target scale)")
            if o["mdev_allnoise"] <= 1e-8:
                fails.append((f"ovc-fantasy-pseudo-noise-dropped:mean-cache/{name}", whatm + f"; signature of the recorded defect: the mean equals the "
                              f"conditional mean with sigma^2 I in place of D_hat to {o['mdev_allnoise']:.1e} — the OVC mean cache is stored under "
                              f"the key ('mean_cache', ()) but read under ('mean_cache', (nan_policy,)), so it is recomputed from likelihood(prior)"))
            else:
                fails.append((f"ovc-fantasy-mean-vs-conditional:fast_pred_var-{'on' if fpv else 'off'}/{name}", whatm))
        if not probs:
            continue
        what = f"{tag0}, fast_pred_var({fpv}): " + "; ".join(probs)
        if signature and not fpv:
            what += (f"; signature of the recorded defect: the covariance equals the posterior with the likelihood noise sigma^2 I in place of the "
                     f"pseudo-noise D_hat on the inducing block to {o['dev_allnoise']:.1e}, and the fast_pred_var(True) result matches the dense "
                     f"conditional ({out[True]['dev']:.1e}) — exact_predictive_covar recomputes likelihood(prior) and drops lik_train_train_covar")
            fails.append((f"{OVC_KEY}/{name}", what))
        else:
            fails.append((f"ovc-fantasy-vs-conditional:fast_pred_var-{'on' if fpv else 'off'}/{name}", what))
    return fails


def ovc_cases(ctx, drv, tier):
    import fnmatch
    B = _B()
    rng = ctx.rng("ovc")
    reps = 3 if tier == "quick" else 30
    registered = any(fnmatch.fnmatch(f"{OVC_KEY}/VariationalStrategy", f.get("match", "")) for f in C.known_findings("C07"))
    obs = {"cases": 0, "with_signature": 0, "max_variance_increase_rel": 0.0, "registered_as_known_finding": registered}
    for strategy in ("whitened", "unwhitened"):
        for _ in range(reps):
            p = ovc_payload(rng, strategy)
            try:
                fails = run_ovc(ctx, drv, p)
            except Exception as e:
                ctx.broke("correspondence", f"ovc:{strategy}", f"{type(e).__name__}: {e}"[:600])
                continue
            ctx.case(f"ovc {strategy} {p['kernel']} d={p['d']} M={len(p['inducing'])} nf={len(p['fant_x'])} seed={p['fant_seed']}",
                     sample={"kind": "ovc", "strategy": strategy})
            obs["cases"] += 1
            for f in fails:
                if f[0].startswith("ovc-fantasy-pseudo-noise-dropped:"):
                    obs["with_signature"] += 1
            B.report_model_fails(ctx, fails, p, lambda p=p: bool(run_ovc(None, None, p, want_driver=False)))
    ctx.notes["ovc_fantasy"] = obs


# ------------------------------------------------------------------------------------------------ W5 set_train_data patterns
# eval -> predict -> set_train_data(<argument pattern>) -> predict, for the exact, SGPR and KISS-GP kinds: whatever the pattern
# (inputs only, targets only, both, strict / non-strict, resized), the posterior handed out afterwards is a valid covariance
# (symmetric, exact PSD certificate, prior - posterior PSD, variance = diagonal) and equals that of a model built from scratch
# on the data the object now holds.

STD_KINDS = ["exact", "sgpr", "kiss"]
STD_PATTERNS = ["inputs", "inputs_nonstrict", "targets", "both", "both_resize_nonstrict"]


def _std_model(p, tx, ty):
    import torch
    import gpytorch
    kind = p["model"]
    lik = gpytorch.likelihoods.GaussianLikelihood()

    class M(gpytorch.models.ExactGP):
        def __init__(self):
            super().__init__(tx, ty, lik)
            self.mean_module = gpytorch.means.ConstantMean()
            base = gpytorch.kernels.ScaleKernel(gpytorch.kernels.RBFKernel() if p["kernel"] == "rbf" else gpytorch.kernels.MaternKernel(nu=1.5))
            if kind == "exact":
                self.covar_module = base
            elif kind == "sgpr":
                self.covar_module = gpytorch.kernels.InducingPointKernel(base, inducing_points=torch.tensor(p["inducing"]), likelihood=lik)
            else:
                self.covar_module = gpytorch.kernels.ScaleKernel(gpytorch.kernels.GridInterpolationKernel(
                    gpytorch.kernels.RBFKernel(), grid_size=p["grid_size"], num_dims=1, grid_bounds=[(-3.5, 3.5)]))

        def forward(self, x):
            return gpytorch.distributions.MultivariateNormal(self.mean_module(x), self.covar_module(x))
    m = M()
    sk = m.covar_module if kind != "sgpr" else m.covar_module.base_kernel
    sk.outputscale = p["s"]
    (sk.base_kernel if kind != "kiss" else sk.base_kernel.base_kernel).lengthscale = p["l"]
    lik.noise = p["s"] * p["noise_rel"]
    m.mean_module.constant.data.fill_(0.4)
    return m.eval(), lik.eval()


def std_payload(rng, kind):
    import torch
    g = torch.Generator().manual_seed(rng.torch_seed())
    d = 1 if kind == "kiss" else rng.choice([1, 2])
    n = rng.choice([4, 5, 6])
    m = rng.choice([2, 3])
    steps = [rng.choice(STD_PATTERNS) for _ in range(rng.choice([1, 2, 2]))]
    if rng.random() < 0.5:
        steps[0] = rng.choice(["inputs", "inputs_nonstrict"])
    p = {"kind": "set_train_data", "model": kind, "d": d, "kernel": rng.choice(["rbf", "matern1.5"]) if kind != "kiss" else "rbf",
         "s": rng.choice([0.5, 1.0, 4.0]), "l": rng.choice([0.4, 0.8, 1.5]), "noise_rel": rng.choice([3e-2, 1e-1, 0.5]),
         "fast_pred_var": rng.random() < 0.3, "steps": steps, "grid_size": rng.choice([10, 14]),
         "train_x": (torch.randn(n, d, generator=g) * 1.2).clamp(-3, 3).tolist(), "train_y": torch.randn(n, generator=g).tolist(),
         "test_x": (torch.randn(m, d, generator=g) * 1.2).clamp(-3, 3).tolist(),
         "inducing": (torch.randn(3, d, generator=g) * 1.2).tolist(),
         "new": [{"x": (torch.randn(n + 1, d, generator=g) * 1.2).clamp(-3, 3).tolist(), "y": torch.randn(n + 1, generator=g).tolist()}
                 for _ in steps]}
    if rng.random() < 0.4:
        p["test_x"][0] = p["new"][0]["x"][0]          # a test point on one of the NEW training inputs
    return p


def run_set_train_data(ctx, drv, p, want_driver=True):
    import torch
    import gpytorch
    B = _B()
    fails = []
    kind = p["model"]
    tx, ty, sx = torch.tensor(p["train_x"]), torch.tensor(p["train_y"]), torch.tensor(p["test_x"])
    model, lik = _std_model(p, tx, ty)
    label = f"set_train_data-{kind}"

    def check(stage, tx, ty):
        out = []
        tag = f"{kind} GP ({p['kernel']}, fast_pred_var={p['fast_pred_var']}) history eval > predict > {p['steps']}: {stage}"
        with torch.no_grad(), warnings.catch_warnings(), gpytorch.settings.fast_pred_var(p["fast_pred_var"]):
            warnings.simplefilter("ignore")
            post_d = model(sx)
            post = post_d.covariance_matrix.clone()
            out += dist_consistency(post_d, f"{tag}: posterior", label + "-posterior")
            if kind == "sgpr":
                # the prior of the GP that SGPR approximates: the base kernel (prior_mode hands out the Nystrom kernel with the
                # diagonal correction, which the Titsias posterior K** - Q** + ... is not bounded by)
                prior = model.covar_module.base_kernel(sx).to_dense().clone()
            else:
                with gpytorch.settings.prior_mode(True):
                    prior = model(sx).covariance_matrix.clone()
            twin, _ = _std_model(p, tx, ty)
            twin.load_state_dict(model.state_dict())
            tw = twin(sx).covariance_matrix.clone()
        prior = (prior + prior.T) / 2
        scale = max(torch.linalg.eigvalsh(prior).abs().max().item(), 1e-300)
        for nm, Mx in (("posterior", post), ("prior-minus-posterior", prior - post)):
            sm, info = B.cov_screen(Mx, scale)
            for sym, detail in sm:
                mag = info.get("asym_rel", 0.0) if sym == "asymmetric" else max(abs(min(info.get("rel_min_eig", 0.0), 0.0)), B.EIG_TOL)
                out.append((f"{label}-{nm}-{sym}", f"{tag}: {nm} covariance {detail}", sym, mag, f"set_train_data({kind})/{nm}"))
        dd = (post - tw).abs().max().item()
        if dd > 1e-6 * scale:
            out.append((f"{label}-vs-fresh-model", f"{tag}: posterior covariance differs from that of a model built from scratch on the "
                        f"data the object now holds (same hyperparameters) by {dd:.3e} (scale {scale:.3e})"))
        if want_driver and drv is not None:
            rows = B.sym_rows(B.rat_rows(post))

            def cb(rep, rows=rows, tag=tag):
                parts = rep.split(";")
                if len(parts) != 2:
                    return
                dcs = B.parse_decision(parts[1])
                ctx.count("model_cov_certified")
                if dcs[0] == "neg":
                    ctx.fail(f"{label}-posterior-indefinite", f"{tag}: posterior covariance has exact negative curvature v^T M v = "
                             f"{float(B.quad(rows, dcs[2])):.3e} beyond -1e-9*||prior||", dict(p, witness_v=[C.rat_str(x) for x in dcs[2]]))
            drv.ask(f"psd {C.rat_str(B.fr(B.EIG_TOL * scale))} {B.rows_tokens(rows)}", cb)
        return out
    fails += check("initial prediction", tx, ty)
    for k, (pat, nw) in enumerate(zip(p["steps"], p["new"]), 1):
        nx, ny = torch.tensor(nw["x"]), torch.tensor(nw["y"])
        n_cur = tx.shape[0]
        if pat == "inputs":
            tx = nx[:n_cur].clone()
            model.set_train_data(inputs=tx)
        elif pat == "inputs_nonstrict":
            tx = nx[:n_cur].clone()
            model.set_train_data(inputs=tx, strict=False)
        elif pat == "targets":
            ty = ny[:n_cur].clone()
            model.set_train_data(targets=ty)
        elif pat == "both":
            tx, ty = nx[:n_cur].clone(), ny[:n_cur].clone()
            model.set_train_data(tx, ty)
        else:
            tx, ty = nx.clone(), ny.clone()
            model.set_train_data(tx, ty, strict=False)
        fails += check(f"after step {k} set_train_data[{pat}]", tx, ty)
    return fails


def set_train_data_cases(ctx, drv, tier):
    B = _B()
    rng = ctx.rng("set_train_data")
    reps = 5 if tier == "quick" else 50
    pats = {}
    for kind in STD_KINDS:
        for _ in range(reps):
            p = std_payload(rng, kind)
            try:
                fails = run_set_train_data(ctx, drv, p)
            except Exception as e:
                ctx.broke("correspondence", f"set_train_data:{kind}", f"{p['steps']}: {type(e).__name__}: {e}"[:600])
                continue
            for s_ in p["steps"]:
                pats[s_] = pats.get(s_, 0) + 1
            ctx.case(f"set_train_data {kind} {p['steps']} {p['kernel']} fpv={p['fast_pred_var']} x0={p['train_x'][0]}",
                     sample={"kind": "set_train_data", "model": kind, "steps": p["steps"]})
            B.report_model_fails(ctx, fails, p, lambda p=p: bool(run_set_train_data(None, None, p, want_driver=False)))
    ctx.notes["set_train_data_patterns"] = pats

"""C09 — structure-exploiting kernels and prediction strategies equal their dense meaning.

Tie: translator G4 (`Gen/Interp.lean`: Keys coefficients + index arithmetic of `Interpolation.interpolate`,
regenerated from the source on every run; the weight / index theorems of `Props/C09.lean` are re-checked
against it) AND correspondence: the real kernels / ExactGP models are run in float64, the base-kernel values
are shipped as exact rationals, `drivers/C09.lean` assembles the dense meaning (Kronecker, Hadamard, LCM,
Toeplitz x Kronecker, Nystrom, W K_uu W^T) and the dense Gaussian conditional exactly over Q, and the two are
compared with tolerances far below the size of any realistic defect.
"""
import math
import os
import sys
import warnings
from fractions import Fraction

from lib import common as C

ID = "C09"
PROP_MODULES = ["GPVerif.Props.C09"]
BUILD_TARGETS = ["GPVerif.Props.C09", "GPVerif.Gen.Interp", "GPVerif.Gen.StructuredAlgebra", "GPVerif.Model.Structured", "GPVerif.Model.LDL",
                 "GPVerif.Model.Proto", "GPVerif.Model.StructuredDriver"]
RULE = ("per family (kron, index/hadamard, lcm, grid, interp, convergence, sgpr, rff, kiss, multitask models; additive-structure "
        "KISS-GP = last_dim_is_batch at kernel level (kisslb) and as ExactGP models (add_kiss); operation histories hist_*; "
        "copy-then-modify histories copy_*; every KISS-GP model case runs a history of 2-3 get_fantasy_model requests on the one "
        "base object + a chained request + the base object again) cases are "
        "drawn from the seeded PRNG: sizes n<=10, n*<=5, t<=4, ranks 0..t, d<=3, unequal grid sizes/spacings/lengthscales, "
        "x1!=x2, boundary/on-node/interior interpolation points; each model case is run under the settings cells "
        "{Cholesky, CG tight, fast_pred_var full rank, fast_pred_samples} x {sgpr_diagonal_correction on/off} x "
        "{use_toeplitz on/off}; distinct = distinct (family, configuration, cell); non-trivial = rectangular / "
        "asymmetric / non-identity task covariance / at least one snapped and one interior point")
TRUSTED = ["translator harness/translate/g4_interp_constants.py (Python ast -> Gen/Interp.lean)",
           "translator harness/translate/g7_structured_algebra.py (Python ast -> Gen/StructuredAlgebra.lean; linear_operator "
           "wrappers read by their meaning, in-place tensor methods `add_`/`sub_`/`+=` as mutation of every alias)",
           "modelled not verified: torch tensor ops (unsqueeze/repeat/view, floor, min), linear_operator "
           "(KroneckerProduct/Toeplitz/Interpolated/LowRankRootAddedDiag operators, Cholesky, CG, root decompositions)",
           "base kernels (RBF/Matern values) are inputs here; their formulas are C05's"]
ASSUMPTIONS = ["R R^T = Kzz^-1 for the cached `_inducing_inv_root` (residual recorded per case)",
               "Cholesky / CG / root_decomposition of linear_operator meet their contracts (jittered Cholesky of the "
               "singular WISKI inner product and of the fast_pred_samples root: compared at 1e-5)",
               "linear_operator's CG under max_cholesky_size(0): a WISKI fantasy prediction of the cg cell that leaves the 5e-4 band is "
               "re-evaluated (same request, same base object) with Cholesky solves; agreement to 1e-5 there is recorded as an "
               "ASSUMPTION line (counter cg_fantasy_inaccuracy), disagreement is a failure",
               "float64 only"]
EXHAUSTIVE = False

GEN = os.path.join(C.LEAN_DIR, "GPVerif", "Gen", "Interp.lean")
GEN7 = os.path.join(C.LEAN_DIR, "GPVerif", "Gen", "StructuredAlgebra.lean")
KNOWN_SGPR_KEY = "InducingPointKernel/sgpr_diagonal_correction/mean"
_state = {}


def generate(ctx):
    sys.path.insert(0, os.path.join(C.VERIF, "harness"))
    from translate import g4_interp_constants as g4
    info, changed = g4.generate(C.REPO, GEN)
    from translate import g7_structured_algebra as g7
    ctx.notes["gen_structured_algebra_changed"] = g7.generate(C.REPO, GEN7)
    _state["gen"] = info
    ctx.notes["gen_changed"] = changed
    ctx.notes["keys_coefficients"] = [[str(c) for c in p] for p in info["coeffs"]]
    ctx.notes["interp_points"] = info["interp_points"]


# --------------------------------------------------------------------------------- helpers

def _t():
    import torch
    torch.set_num_threads(2)
    torch.set_default_dtype(torch.float64)
    return torch


def M(x):
    """tensor (1-D -> column, 2-D) -> protocol tokens"""
    if x.dim() == 1:
        x = x.unsqueeze(-1)
    return C.mat_tokens(x.detach())


def S(v):
    return "1 1 " + C.rat_str(v)


def parse_reply(rep):
    """reply -> list of items; matrices as lists of Fraction rows, scalars as Fraction"""
    if rep in ("fail", "bad-matrices", "empty"):
        raise RuntimeError(f"driver reply `{rep}`")
    out = []
    for part in rep.split(" | "):
        toks = part.split()
        if len(toks) == 1:
            out.append(Fraction(toks[0]))
        else:
            rows, _ = C.parse_mat(toks)
            out.append(rows)
    return out


def fl(rows):
    torch = _t()
    if not rows:
        return torch.zeros(0, 0)
    return torch.tensor([[float(v) for v in r] for r in rows], dtype=torch.float64)


def maxdiff(got, want_rows):
    """(max abs difference, scale)"""
    w = fl(want_rows)
    g = got.detach().reshape(w.shape)
    if w.numel() == 0:
        return 0.0, 1.0
    return (g - w).abs().max().item(), max(1.0, w.abs().max().item())


class Case:
    """one explored case: driver request lines + a checker called with the parsed replies"""

    def __init__(self, family, idx, desc, lines, check, nontrivial=True, sample=None):
        self.family, self.idx, self.desc, self.lines, self.check = family, idx, desc, lines, check
        self.nontrivial, self.sample = nontrivial, sample


class Rep:
    """failure reporter bound to one case (collects instead of calling ctx directly so replay can reuse it)"""

    def __init__(self, ctx, family, idx, tier):
        self.ctx, self.family, self.idx, self.tier = ctx, family, idx, tier
        self.failed = []

    def payload(self, extra=None):
        p = {"family": self.family, "index": self.idx, "tier": self.tier, "seed": C.seed()}
        p.update(extra or {})
        return p

    def fail(self, key, what, extra=None):
        self.failed.append(key)
        self.ctx.fail(key, what, self.payload(extra))

    def close(self, key, what, got, want_rows, rtol=1e-8, atol=1e-9, extra=None):
        d, sc = maxdiff(got, want_rows)
        if not (d <= atol + rtol * sc):
            self.fail(key, f"{what}: max |impl - exact| = {d:.3e} (tolerance {atol + rtol * sc:.1e})", extra)
            return False
        return True


def tie(ctx, name, gen_rows, model_rows, desc=""):
    """the REGENERATED definition and the hand-written model must agree exactly (both are exact rationals)"""
    if gen_rows != model_rows:
        ctx.count("generated_model_disagreements")
        if ctx.counters["generated_model_disagreements"] <= 6:
            ctx.broke("correspondence", f"generated!=model:{name}", f"{desc}: Gen.StructuredAlgebra.{name} evaluates differently from the "
                      "Structured.* model on this input")
        return False
    return True


def quiet():
    warnings.simplefilter("ignore")


# --------------------------------------------------------------------------------- kernels: kron / index / lcm

def _rand_kernel(rng, torch, d):
    import gpytorch
    kind = rng.choice(["rbf", "matern15", "matern25", "rbf_ard"])
    if kind == "rbf":
        k = gpytorch.kernels.RBFKernel()
        k.lengthscale = 0.3 + rng.random()
    elif kind == "rbf_ard":
        k = gpytorch.kernels.RBFKernel(ard_num_dims=d)
        k.lengthscale = torch.tensor([[0.3 + rng.random() for _ in range(d)]])
    else:
        k = gpytorch.kernels.MaternKernel(nu=1.5 if kind == "matern15" else 2.5)
        k.lengthscale = 0.3 + rng.random()
    return k, kind


def _set_index_kernel(task, rng, torch):
    t, r = task.covar_factor.shape[-2], task.covar_factor.shape[-1]
    with torch.no_grad():
        if r > 0:
            task.covar_factor.copy_(torch.tensor([[rng.uniform(-1, 1) for _ in range(r)] for _ in range(t)]))
        task.raw_var.copy_(torch.tensor([rng.uniform(-1, 1) for _ in range(t)]))


def case_kron(ctx, idx, tier):
    import gpytorch
    torch = _t()
    rng = ctx.rng(f"kron:{idx}")
    torch.manual_seed(rng.torch_seed())
    d = rng.randint(1, 3)
    n, m, t = rng.randint(2, 5), rng.randint(1, 5), rng.randint(2, 4)
    rank = rng.randint(0, t)
    base, kind = _rand_kernel(rng, torch, d)
    k = gpytorch.kernels.MultitaskKernel(base, num_tasks=t, rank=rank)
    _set_index_kernel(k.task_covar_module, rng, torch)
    x1, x2 = torch.rand(n, d), torch.rand(m, d)
    same = rng.random() < 0.3
    if same:
        x2, m = x1, n
    with torch.no_grad():
        Kx = k.data_covar_module(x1, x2).to_dense()
        Kt = k.task_covar_module.covar_matrix.to_dense()
        F, v = k.task_covar_module.covar_factor.detach(), k.task_covar_module.var.detach()
        got = k(x1, x2).to_dense()
        gdiag = k(x1, x1, diag=True) if True else None
        Kxd = k.data_covar_module(x1, x1).to_dense()
    ar = torch.arange(t, dtype=torch.float64)
    lines = [f"kron {M(Kx)} {M(Kt)}", f"index {M(F) if rank > 0 else f'{t} 0'} {M(v)} {M(ar)} {M(ar)}",
             f"kron {M(Kxd)} {M(Kt)}"]
    desc = f"kron d={d} n={n} m={m} t={t} rank={rank} base={kind} same={same}"

    def check(rep, R):
        gen, dense = parse_reply(R[0])
        tie(ctx, "multitaskForward", gen, dense, desc)
        rep.close("MultitaskKernel/to_dense", f"{desc}: kernel(x1,x2).to_dense() vs Kx (x) Kt interleaved", got, dense,
                  rtol=1e-12, atol=1e-13)
        B = parse_reply(R[1])[2]
        rep.close("IndexKernel/covar_matrix", f"{desc}: covar_matrix vs F F^T + diag(var)", Kt, B, rtol=1e-12, atol=1e-13)
        dd = parse_reply(R[2])[1]
        want_diag = [[dd[i][i]] for i in range(len(dd))]
        rep.close("MultitaskKernel/diag", f"{desc}: kernel(x,x,diag=True) vs diagonal of the dense Kronecker", gdiag,
                  want_diag, rtol=1e-12, atol=1e-13)
    return Case("kron", idx, desc, lines, check, nontrivial=(n != m or t > 1), sample={"family": "kron", "desc": desc})


def case_index(ctx, idx, tier):
    import gpytorch
    torch = _t()
    rng = ctx.rng(f"index:{idx}")
    torch.manual_seed(rng.torch_seed())
    t = rng.randint(2, 5)
    rank = rng.randint(1, t)
    n, m = rng.randint(2, 7), rng.randint(1, 6)
    task = gpytorch.kernels.IndexKernel(num_tasks=t, rank=rank)
    _set_index_kernel(task, rng, torch)
    i1 = torch.tensor([[rng.randrange(t)] for _ in range(n)])
    i2 = torch.tensor([[rng.randrange(t)] for _ in range(m)])
    d = rng.randint(1, 2)
    base, kind = _rand_kernel(rng, torch, d)
    x1, x2 = torch.rand(n, d), torch.rand(m, d)
    with torch.no_grad():
        F, v = task.covar_factor.detach(), task.var.detach()
        got_idx = task(i1, i2).to_dense()
        Kx = base(x1, x2).to_dense()
        got_had = base(x1, x2).mul(task(i1, i2)).to_dense()
    lines = [f"index {M(F)} {M(v)} {M(i1.double())} {M(i2.double())}",
             f"index {M(F)} {M(v)} {M(i1.double())} {M(i2.double())} {M(Kx)}"]
    desc = f"index t={t} rank={rank} n={n} m={m} base={kind}"

    def check(rep, R):
        _, gen_g, model_g = parse_reply(R[0])
        tie(ctx, "indexForward", gen_g, model_g, desc)
        rep.close("IndexKernel/to_dense", f"{desc}: IndexKernel(i1,i2) vs B[i1,i2]", got_idx, model_g,
                  rtol=1e-12, atol=1e-13)
        rep.close("IndexKernel/hadamard", f"{desc}: covar_x.mul(covar_i) vs B[i1,i2]*K", got_had, parse_reply(R[1])[1],
                  rtol=1e-12, atol=1e-13)
    return Case("index", idx, desc, lines, check, sample={"family": "index", "desc": desc})


def case_lcm(ctx, idx, tier):
    import gpytorch
    torch = _t()
    rng = ctx.rng(f"lcm:{idx}")
    torch.manual_seed(rng.torch_seed())
    d = rng.randint(1, 2)
    q = rng.randint(1, 3)
    t = rng.randint(2, 3)
    n, m = rng.randint(2, 4), rng.randint(1, 4)
    bases = [_rand_kernel(rng, torch, d)[0] for _ in range(q)]
    ranks = [rng.randint(0, t) for _ in range(q)]
    k = gpytorch.kernels.LCMKernel(bases, num_tasks=t, rank=ranks)
    for mk in k.covar_module_list:
        _set_index_kernel(mk.task_covar_module, rng, torch)
    x1, x2 = torch.rand(n, d), torch.rand(m, d)
    with torch.no_grad():
        parts = []
        for mk in k.covar_module_list:
            parts += [M(mk.data_covar_module(x1, x2).to_dense()), M(mk.task_covar_module.covar_matrix.to_dense())]
        got = k(x1, x2).to_dense()
    lines = ["lcm " + " ".join(parts)]
    desc = f"lcm q={q} t={t} ranks={ranks} n={n} m={m}"

    def check(rep, R):
        gen, model = parse_reply(R[0])
        tie(ctx, "lcmForward", gen, model, desc)
        rep.close("LCMKernel/to_dense", f"{desc}: kernel(x1,x2).to_dense() vs sum of Kroneckers", got, model,
                  rtol=1e-12, atol=1e-13)
    return Case("lcm", idx, desc, lines, check, nontrivial=q > 1, sample={"family": "lcm", "desc": desc})


# --------------------------------------------------------------------------------- grid kernel

def _grid_setup(rng, torch, d, sizes=None, dyadic=False):
    """equally spaced grids with different sizes / origins / spacings per dimension + ARD lengthscales"""
    sizes = sizes or [rng.randint(4, 6) for _ in range(d)]
    grids = []
    for k in range(d):
        if dyadic:
            g0 = rng.choice([-0.5, -0.25, 0.0, 0.125])
            dl = rng.choice([0.125, 0.25, 0.5])
        else:
            g0 = rng.uniform(-1, 0.5)
            dl = rng.uniform(0.15, 0.6)
        grids.append(g0 + dl * torch.arange(sizes[k], dtype=torch.float64))
    ls = [0.4 + rng.random() for _ in range(d)]
    return sizes, grids, ls


def _dim_kernels(torch, grids, ls):
    """per-dimension dense 1-D RBF matrices through a fresh (unstructured) RBFKernel"""
    import gpytorch
    out = []
    for g, l in zip(grids, ls):
        k1 = gpytorch.kernels.RBFKernel()
        k1.lengthscale = l
        with torch.no_grad():
            out.append(k1(g.unsqueeze(-1), g.unsqueeze(-1)).to_dense())
    return out


def case_grid(ctx, idx, tier):
    import gpytorch
    torch = _t()
    rng = ctx.rng(f"grid:{idx}")
    d = 1 + idx % 3
    sizes, grids, ls = _grid_setup(rng, torch, d)
    Ks = _dim_kernels(torch, grids, ls)
    results = {}
    for tz in (True, False):
        base = gpytorch.kernels.RBFKernel(ard_num_dims=d)
        base.lengthscale = torch.tensor([ls])
        with gpytorch.settings.use_toeplitz(tz), torch.no_grad(), warnings.catch_warnings():
            quiet()
            gk = gpytorch.kernels.GridKernel(base, [g.clone() for g in grids])
            fg = gk.full_grid
            results[tz] = gk(fg, fg).to_dense()
            dense = base(fg, fg).to_dense()
            fgc = fg.clone()
    lines = ["gridT " + " ".join(M(K[0]) for K in Ks), "gridD " + " ".join(M(K) for K in Ks)]
    desc = f"grid d={d} sizes={sizes}"

    def check(rep, R):
        gT, T = parse_reply(R[0])
        gD, D = parse_reply(R[1])
        tie(ctx, "gridForward[toeplitz]", gT, T, desc)
        tie(ctx, "gridForward[dense]", gD, D, desc)
        rep.close("GridKernel/use_toeplitz=on", f"{desc}: GridKernel(full_grid).to_dense() vs Toeplitz x Kronecker", results[True], T,
                  rtol=1e-12, atol=1e-13)
        rep.close("GridKernel/use_toeplitz=off", f"{desc}: GridKernel(full_grid).to_dense() vs Kronecker of dense factors",
                  results[False], D, rtol=1e-12, atol=1e-13)
        rep.close("GridKernel/base_kernel", f"{desc}: base_kernel(full_grid,full_grid) vs prod_k K_k in create_data_from_grid order",
                  dense, D, rtol=1e-12, atol=1e-13)
        # create_data_from_grid order: first dimension fastest
        N = fgc.shape[0]
        for p in rng.sample(range(N), min(N, 8)):
            q, want = p, []
            for k in range(d):
                want.append(grids[k][q % sizes[k]].item())
                q //= sizes[k]
            if [float(v) for v in fgc[p]] != want:
                rep.fail("create_data_from_grid/order", f"{desc}: full_grid[{p}] = {fgc[p].tolist()} but digits give {want}")
    return Case("grid", idx, desc, lines, check, nontrivial=d > 1 or True, sample={"family": "grid", "desc": desc})


# --------------------------------------------------------------------------------- interpolation indices / weights

def _interp_points(rng, torch, grids, sizes, npts):
    """random interior points, boundary-cell points, points exactly on nodes, end points"""
    d = len(grids)
    pts, kinds = [], []
    for j in range(npts):
        kind = ["interior", "node", "left", "right", "any", "edge"][j % 6]
        x = []
        for k in range(d):
            g, G = grids[k], sizes[k]
            dl = (g[1] - g[0]).item()
            if kind == "interior":
                c = rng.randint(1, G - 3)
                x.append(g[c].item() + rng.random() * dl)
            elif kind == "node":
                x.append(g[rng.randrange(G)].item())
            elif kind == "left":
                x.append(g[0].item() + rng.random() * dl)
            elif kind == "right":
                x.append(g[G - 2].item() + rng.random() * dl)
            elif kind == "edge":
                x.append(g[0].item() if rng.random() < 0.5 else g[G - 1].item())
            else:
                x.append(g[0].item() + rng.random() * (g[G - 1] - g[0]).item())
        pts.append(x)
        kinds.append(kind)
    return torch.tensor(pts, dtype=torch.float64), kinds


def _interp_line(grids, X):
    return f"interp {S(0)} {S(len(grids))} " + " ".join(M(g) for g in grids) + " " + M(X)


def case_interp(ctx, idx, tier):
    from gpytorch.utils.interpolation import Interpolation
    torch = _t()
    rng = ctx.rng(f"interp:{idx}")
    d = 1 + idx % 3
    dyadic = (idx // 3) % 2 == 0
    sizes = [rng.randint(5, 9) for _ in range(d)]
    sizes, grids, _ = _grid_setup(rng, torch, d, sizes=sizes, dyadic=dyadic)
    npts = 12 if d < 3 else 6
    X, kinds = _interp_points(rng, torch, grids, sizes, npts)
    with warnings.catch_warnings():
        quiet()
        ii, vv = Interpolation().interpolate([g.clone() for g in grids], X.clone())
    lines = [_interp_line(grids, X)]
    desc = f"interp d={d} sizes={sizes} dyadic={dyadic} npts={npts}"
    # random tensor-product quadratic
    coef = [[rng.uniform(-1, 1) for _ in range(3)] for _ in range(d)]

    def f(pt):
        return math.prod(c[0] + c[1] * x + c[2] * x * x for c, x in zip(coef, pt))

    def check(rep, R):
        idx_rows, val_rows = parse_reply(R[0])
        N = math.prod(sizes)
        want_idx = [[int(v) for v in r] for r in idx_rows]
        got_idx = ii.tolist()
        strides = [math.prod(sizes[k + 1:]) for k in range(d)]
        for p in range(X.shape[0]):
            extra = {"point": [C.rat_str(v) for v in X[p].tolist()], "grids": [[C.rat_str(v) for v in g.tolist()] for g in grids]}
            # dense rows (robust against floor ties), then exact indices
            dg, dw = [0.0] * N, [Fraction(0)] * N
            okr = True
            for j, u in enumerate(got_idx[p]):
                if not 0 <= u < N:
                    rep.fail("Interpolation/index-range", f"{desc}: point {p} ({kinds[p]}) index {u} outside the grid of {N} points", extra)
                    okr = False
                else:
                    dg[u] += vv[p, j].item()
            if not okr:
                continue
            for j, u in enumerate(want_idx[p]):
                dw[u] += val_rows[p][j]
            derr = max(abs(a - float(b)) for a, b in zip(dg, dw))
            if derr > 1e-12:
                rep.fail("Interpolation/weights", f"{desc}: point {p} ({kinds[p]}) dense interpolation row differs from the "
                         f"generated model by {derr:.3e}", extra)
                continue
            if got_idx[p] != want_idx[p]:
                if dyadic:
                    rep.fail("Interpolation/indices", f"{desc}: point {p} ({kinds[p]}) indices {got_idx[p][:8]}.. vs model "
                             f"{want_idx[p][:8]}..", extra)
                else:
                    ctx.count("interp_floor_rounding_ties")
            s = vv[p].sum().item()
            if abs(s - 1) > 1e-12:
                rep.fail("Interpolation/sum-to-one", f"{desc}: point {p} ({kinds[p]}) weights sum to {s!r}", extra)
            # property oracle on the implementation: nodes exact, quadratics reproduced in the interior
            gridpt = lambda u: [grids[k][(u // strides[k]) % sizes[k]].item() for k in range(d)]
            if kinds[p] == "node":
                # weight 1 at the node itself
                best = max(range(N), key=lambda u: dg[u])
                if abs(dg[best] - 1) > 1e-12 or gridpt(best) != X[p].tolist():
                    rep.fail("Interpolation/exact-at-nodes", f"{desc}: node point {p}: largest weight {dg[best]!r} at {gridpt(best)}", extra)
            if kinds[p] == "interior":
                got_f = sum(dg[u] * f(gridpt(u)) for u in range(N) if dg[u] != 0.0)
                want_f = f(X[p].tolist())
                if abs(got_f - want_f) > 1e-10 * (1 + abs(want_f)):
                    rep.fail("Interpolation/quadratic-reproduction", f"{desc}: interior point {p}: sum w f(u) = {got_f!r}, f(x) = {want_f!r}", extra)
    return Case("interp", idx, desc, lines, check, sample={"family": "interp", "desc": desc, "kinds": kinds[:6]})


# --------------------------------------------------------------------------------- KISS-GP kernel (dense meaning + convergence)

def _kiss_config(rng, torch, d, symmetric):
    gs = [rng.randint(7, 9) for _ in range(d)]
    if symmetric:
        gs = [gs[0]] * d
        bounds = [(0.0, 1.0)] * d
        ls = [0.5 + 0.5 * rng.random()] * d
    else:
        bounds = [(0.0, 1.0 + (k % 2) * rng.uniform(0.5, 1.0)) for k in range(d)]
        ls = [0.4 + 0.3 * k + 0.3 * rng.random() for k in range(d)]
    return gs, bounds, ls


def _kiss_kernel(base, gs, d, bounds):
    """GridInterpolationKernel on an equally spaced float64 grid.  (The constructor builds its grid with
    `create_grid(...)` in float32 whatever the dtype; viewed in float64 that grid is equally spaced only to 1e-8 and the
    Toeplitz K_uu then differs from k(u_a,u_b) by ~6e-8 — recorded as an observation, not a failure.)"""
    import gpytorch
    torch = _t()
    from gpytorch.utils.grid import create_grid
    gk = gpytorch.kernels.GridInterpolationKernel(base, grid_size=gs, num_dims=d, grid_bounds=bounds).double()
    gk.update_grid(create_grid(gs, bounds, dtype=torch.float64))
    gk.train()
    return gk


def case_kisskernel(ctx, idx, tier):
    import gpytorch
    torch = _t()
    rng = ctx.rng(f"kisskernel:{idx}")
    torch.manual_seed(rng.torch_seed())
    d = 1 + idx % 2
    symmetric = (idx // 2) % 2 == 1
    gs, bounds, ls = _kiss_config(rng, torch, d, symmetric)
    n, m = rng.randint(3, 6), rng.randint(2, 5)
    lo = torch.tensor([b[0] for b in bounds])
    hi = torch.tensor([b[1] for b in bounds])
    x1 = lo + (hi - lo) * torch.rand(n, d)
    x2 = lo + (hi - lo) * torch.rand(m, d)
    base = gpytorch.kernels.RBFKernel(ard_num_dims=d)
    base.lengthscale = torch.tensor([ls])
    out = {}
    for tz in (True, False):
        with gpytorch.settings.use_toeplitz(tz), torch.no_grad(), warnings.catch_warnings():
            quiet()
            gk = _kiss_kernel(base, gs, d, bounds)
            out[tz] = gk(x1, x2).to_dense()
            grids = [g.clone() for g in gk.grid]
    Ks = _dim_kernels(torch, grids, ls)
    lines = ["gridrmD " + " ".join(M(K) for K in Ks), _interp_line(grids, x1), _interp_line(grids, x2)]
    desc = f"kisskernel d={d} grid_size={gs} bounds={[tuple(round(v, 3) for v in b) for b in bounds]} symmetric={symmetric} n={n} m={m}"

    def check(rep, R):
        gKuu, Kuu = parse_reply(R[0])
        tie(ctx, "gridForward[interpolation_mode]", gKuu, Kuu, desc)
        g = len(Kuu)

        def wrows(rp):
            idx_rows, val_rows = parse_reply(rp)
            W = []
            for ir, vr in zip(idx_rows, val_rows):
                row = [Fraction(0)] * g
                for u, v in zip(ir, vr):
                    row[int(u)] += v
                W.append(row)
            return W
        W1, W2 = wrows(R[1]), wrows(R[2])
        # exact W1 Kuu W2^T (sparse rows)
        KW2 = [[sum(Kuu[a][b] * w for b, w in enumerate(r2) if w != 0) for r2 in W2] for a in range(g)]
        want = [[sum(w * KW2[a][j] for a, w in enumerate(r1) if w != 0) for j in range(len(W2))] for r1 in W1]
        for tz in (True, False):
            key = "GridInterpolationKernel/grid-order/to_dense" if d > 1 else "GridInterpolationKernel/to_dense"
            rep.close(key, f"{desc} use_toeplitz={tz}: kernel(x1,x2).to_dense() vs W1 K_uu W2^T with K_uu[a,b] = k(u_a,u_b), "
                      "u enumerated as interp_indices does", out[tz], want, rtol=1e-11, atol=1e-12, extra={"use_toeplitz": tz})
    return Case("kisskernel", idx, desc, lines, check, nontrivial=not symmetric or d == 1,
                sample={"family": "kisskernel", "desc": desc})


def case_convergence(ctx, idx, tier):
    """no driver lines: the interpolated kernel must approach the base kernel as the grid is refined"""
    import gpytorch
    torch = _t()
    rng = ctx.rng(f"convergence:{idx}")
    torch.manual_seed(rng.torch_seed())
    d = 1 + idx % 2
    symmetric = idx < 2
    _, bounds, ls = _kiss_config(rng, torch, d, symmetric)
    ls = [l + 0.3 for l in ls]
    lo = torch.tensor([b[0] for b in bounds])
    hi = torch.tensor([b[1] for b in bounds])
    x = lo + (hi - lo) * torch.rand(12, d)
    base = gpytorch.kernels.RBFKernel(ard_num_dims=d)
    base.lengthscale = torch.tensor([ls])
    errs = []
    sizes = [8, 16, 32, 64]
    for gsz in sizes:
        gs = [gsz + (0 if symmetric else 2 * k) for k in range(d)]
        with torch.no_grad(), warnings.catch_warnings():
            quiet()
            gk = _kiss_kernel(base, gs, d, bounds)
            errs.append((gk(x, x).to_dense() - base(x, x).to_dense()).abs().max().item())
    desc = f"convergence d={d} symmetric={symmetric} bounds={[tuple(round(v, 3) for v in b) for b in bounds]} errors={['%.2e' % e for e in errs]}"

    def check(rep, R):
        ctx.notes.setdefault("convergence_errors", []).append({"d": d, "symmetric": symmetric, "grid": sizes, "err": errs})
        mono = all(errs[i + 1] < errs[i] for i in range(3))
        if not (mono and errs[-1] < 1e-3 * max(errs[0], 1e-2)):
            key = "GridInterpolationKernel/grid-order/convergence" if d > 1 else "GridInterpolationKernel/convergence"
            rep.fail(key, f"{desc}: max |W K_uu W^T - K| over grid sizes {sizes} is not decreasing towards 0")
    return Case("convergence", idx, desc, [], check, nontrivial=True, sample={"family": "convergence", "desc": desc})


# --------------------------------------------------------------------------------- model families

CELLS = ["chol", "cg", "fpv", "fps"]


def _cell_ctx(cell):
    import gpytorch
    from contextlib import ExitStack
    st = ExitStack()
    S_ = gpytorch.settings
    if cell == "cg":
        st.enter_context(S_.max_cholesky_size(0))
        st.enter_context(S_.eval_cg_tolerance(1e-13))
        st.enter_context(S_.cg_tolerance(1e-13))
        st.enter_context(S_.max_cg_iterations(300))
        st.enter_context(S_.max_preconditioner_size(0))
    elif cell == "fpv":
        st.enter_context(S_.fast_pred_var(True))
    elif cell == "fps":
        st.enter_context(S_.fast_pred_samples(True))
    elif cell == "fpv+fps":
        st.enter_context(S_.fast_pred_var(True))
        st.enter_context(S_.fast_pred_samples(True))
    return st


CELL_TOL = {"chol": (1e-8, 1e-9), "cg": (5e-4, 5e-4), "fpv": (1e-6, 1e-6), "fps": (1e-5, 1e-5), "fpv+fps": (1e-5, 1e-5)}


HIST = ["setters", "optim", "load_state_dict", "set_train_data"]
# copy-then-modify-then-evaluate: the model is deep-copied (eval caches filled), the COPY is moved to the final state through
# one of the invalidation points and everything is evaluated on the copy; the original must be left as it was
HIST_COPY = ["deepcopy>setters", "deepcopy>optim", "deepcopy>load_state_dict"]


def _grad_pass(idx, kinds):
    """is the validation prediction that fills the eval caches made with autograd enabled (else under torch.no_grad())"""
    return (idx // len(kinds)) % 2 == 1


def _pass_ctx(torch, grad):
    from contextlib import nullcontext
    return nullcontext() if grad else torch.no_grad()


def _train_objective(mdl, lik, torch):
    """TRAINING-mode observations of the model as it stands: kernel(X, X) and ExactMarginalLogLikelihood (default settings)"""
    import gpytorch
    X, y = mdl.train_inputs[0], mdl.train_targets
    with torch.no_grad(), warnings.catch_warnings():
        quiet()
        kxx = mdl.covar_module(X, X).to_dense().clone()
        obj = gpytorch.mlls.ExactMarginalLogLikelihood(lik, mdl)(mdl(X), y).item()
    return {"kxx": kxx, "objective": obj}


def _apply_history(kind, mdl, lik, set_params, p1, build, new_data, torch):
    """`mdl` holds the INITIAL parameters and has just predicted in eval mode (all eval caches are filled).
    Move it to its final state through one of the documented invalidation points:
      setters          train() -> assign hyper-parameters -> eval()
      optim            train() -> three Adam steps on the exact MLL -> eval()
      load_state_dict  load the state of a fresh model built with the final parameters (stays in eval mode)
      set_train_data   replace the training data (stays in eval mode; parameters unchanged)
      deepcopy>K       copy.deepcopy(model) first, then K on the COPY (its own `.likelihood`)
    `setters` / `optim` are an eval -> train -> eval round trip: BEFORE returning to eval mode the kernel matrix and the training
    objective are observed in training mode (they must be those of the parameters just assigned, not of evaluation time).
    Returns (model, likelihood) to evaluate — the copy for the `deepcopy>` kinds —, the untouched original (or None) and the
    training-mode observations (or None)."""
    import gpytorch
    orig = None
    tobs = None
    if kind.startswith("deepcopy>"):
        import copy
        orig = (mdl, lik)
        mdl = copy.deepcopy(mdl)
        lik = mdl.likelihood
        kind = kind.split(">", 1)[1]
    if kind == "setters":
        mdl.train(); lik.train()
        set_params(mdl, lik, p1)
        tobs = _train_objective(mdl, lik, torch)
        mdl.eval(); lik.eval()
    elif kind == "optim":
        mdl.train(); lik.train()
        opt = torch.optim.Adam(mdl.parameters(), lr=0.05)
        mll = gpytorch.mlls.ExactMarginalLogLikelihood(lik, mdl)
        with warnings.catch_warnings():
            quiet()
            for _ in range(3):
                opt.zero_grad()
                loss = -mll(mdl(*mdl.train_inputs), mdl.train_targets)
                loss.backward()
                opt.step()
        opt.zero_grad()
        tobs = _train_objective(mdl, lik, torch)
        mdl.eval(); lik.eval()
    elif kind == "load_state_dict":
        m2, _ = build(p1)
        mdl.load_state_dict(m2.state_dict())
    elif kind == "set_train_data":
        mdl.set_train_data(new_data[0], new_data[1], strict=False)
    else:
        raise ValueError(kind)
    return mdl, lik, orig, tobs


def _logdet(det):
    return math.log(det.numerator) - math.log(det.denominator)


def _train_check(rep, pre, name, desc, tobs, K_rows, quad, det, n, added=0.0):
    """training mode after a parameter change that followed an eval-mode prediction: kernel(X, X) and the objective must be
    those of the CURRENT parameters"""
    if tobs is None:
        return
    rep.close(pre + name + "/train-mode/to_dense", f"{desc}: TRAINING-mode kernel(X,X) right after the parameter change (eval caches had been "
              "filled before) vs the dense formula of the current parameters", tobs["kxx"], K_rows, rtol=1e-9, atol=1e-10)
    bound = (-0.5 * float(quad) - 0.5 * _logdet(det) - 0.5 * n * math.log(2 * math.pi) + float(added)) / n
    if abs(tobs["objective"] - bound) > 1e-8 * (1 + abs(bound)):
        rep.fail(pre + name + "/train-mode/objective", f"{desc}: TRAINING-mode ExactMarginalLogLikelihood right after the parameter change = "
                 f"{tobs['objective']!r}, dense value for the current parameters = {bound!r}")


def _orig_check(rep, pre, desc, orig_obs):
    """copy-then-modify histories: the ORIGINAL object must predict what it predicted before it was copied"""
    if orig_obs is None:
        return
    (m0, c0), (m1, c1) = orig_obs
    dv = max((m0 - m1).abs().max().item(), (c0 - c1).abs().max().item())
    if not dv <= 1e-10:
        rep.fail(pre + "original-changed", f"{desc}: after the copy was modified the ORIGINAL model's prediction moved by {dv:.3e}")


def case_sgpr(ctx, idx, tier, hist=None):
    import gpytorch
    torch = _t()
    rng = ctx.rng(f"{('copy_' if hist in HIST_COPY else 'hist_') if hist else ''}sgpr:{idx}")
    torch.manual_seed(rng.torch_seed())
    d = rng.randint(1, 2)
    n, m, ns = rng.randint(5, 9), rng.randint(2, 4), rng.randint(2, 4)
    X0, Xs = torch.rand(n, d), torch.rand(ns, d)

    def draw_z():
        # well separated inducing points (keeps Kzz well conditioned: cond <= ~1e5)
        if d == 1:
            return torch.tensor([[(k + 0.5 + rng.uniform(-0.3, 0.3)) / m] for k in range(m)])
        while True:
            Z = torch.rand(m, d) * 0.9 + 0.05
            if torch.cdist(Z, Z).add(torch.eye(m) * 9).min().item() > 0.25:
                return Z
    y0 = torch.sin(3 * X0[:, 0]) + 0.2 * torch.randn(n)

    def draw_params():
        return dict(noise=0.05 + 0.2 * rng.random(), cmean=rng.uniform(-0.5, 0.5), oscale=0.8 + rng.random(),
                    ls=0.25 + 0.3 * rng.random(), Z=draw_z())
    p1 = draw_params()
    p0 = draw_params()
    n2 = rng.randint(5, 9)
    X2 = torch.rand(n2, d)
    y2 = torch.cos(2 * X2[:, 0]) + 0.2 * torch.randn(n2)
    cell = ["chol", "cg", "fpv"][(idx // (len(HIST_COPY) if hist in HIST_COPY else len(HIST)) if hist else idx) % 3]

    class SGPR(gpytorch.models.ExactGP):
        def __init__(s, lik, Z):
            super().__init__(X0, y0, lik)
            s.mean_module = gpytorch.means.ConstantMean()
            s.base = gpytorch.kernels.ScaleKernel(gpytorch.kernels.RBFKernel())
            s.covar_module = gpytorch.kernels.InducingPointKernel(s.base, inducing_points=Z.clone(), likelihood=lik)

        def forward(s, x):
            return gpytorch.distributions.MultivariateNormal(s.mean_module(x), s.covar_module(x))

    def set_params(mdl, lik, p):
        lik.noise = p["noise"]
        mdl.mean_module.constant.data.fill_(p["cmean"])
        mdl.base.outputscale = p["oscale"]
        mdl.base.base_kernel.lengthscale = p["ls"]
        mdl.covar_module.inducing_points.data.copy_(p["Z"])

    def build(p):
        lik = gpytorch.likelihoods.GaussianLikelihood()
        mdl = SGPR(lik, p["Z"])
        set_params(mdl, lik, p)
        return mdl, lik

    obs = {}
    lines = []
    kinds_ = HIST_COPY if hist in HIST_COPY else HIST
    gpass = hist is not None and _grad_pass(idx, kinds_)
    for corr in (True, False):
        tobs = None
        with warnings.catch_warnings(), gpytorch.settings.sgpr_diagonal_correction(corr):
            quiet()
            if hist is None:
                mdl, lik = build(p1)
            else:
                mdl, lik = build(p0)
                mdl.eval(); lik.eval()
                with _pass_ctx(torch, gpass), _cell_ctx(cell):
                    pr0 = mdl(Xs)                      # fills prediction_strategy + the kernel's eval caches
                    before = (pr0.mean.detach().clone(), pr0.covariance_matrix.detach().clone())
                    mdl.covar_module(X0, X0).to_dense()
                mdl, lik, orig, tobs = _apply_history(hist, mdl, lik, set_params, p1, build, (X2, y2), torch)
            X, y = mdl.train_inputs[0], mdl.train_targets
            nn_ = X.shape[0]
            with torch.no_grad():
                mdl.eval(); lik.eval()
                with _cell_ctx(cell):
                    pred = mdl(Xs)
                    pm, pc = pred.mean.clone(), pred.covariance_matrix.clone()
                    cache = mdl.prediction_strategy.covar_cache.clone()
                Z = mdl.covar_module.inducing_points.detach().clone()
                noise_v, cm_v = lik.noise.item(), mdl.mean_module.constant.item()
                Rroot = mdl.covar_module._inducing_inv_root.clone()
                from linear_operator.utils.cholesky import psd_safe_cholesky
                Rfresh = torch.linalg.solve_triangular(psd_safe_cholesky(mdl.base(Z, Z).to_dense(), upper=True), torch.eye(m), upper=True)
                root_dev = (Rroot - Rfresh).abs().max().item() / max(1.0, Rfresh.abs().max().item())
                kern_xx = mdl.covar_module(X, X).to_dense()
                kern_sx = mdl.covar_module(Xs, X).to_dense()
                Kd = mdl.base(X, X, diag=True)
                Kxz, Kzz = mdl.base(X, Z).to_dense(), mdl.base(Z, Z).to_dense()
                Kzz = torch.triu(Kzz) + torch.triu(Kzz, 1).T   # bit-exact symmetry (the float matrix can be 1 ulp off)
                Ksz, Kss = mdl.base(Xs, Z).to_dense(), mdl.base(Xs, Xs).to_dense()
                # the Cholesky primitive of `covar_cache` on the code's own inputs (oracle value for the generated algebra)
                Rx_f = Kxz @ Rroot
                d_f = torch.full((nn_,), noise_v)
                if corr:
                    d_f = d_f + (Kd - (Rx_f * Rx_f).sum(-1)).clamp(0, math.inf)
                Lc = torch.linalg.cholesky(torch.eye(m) + Rx_f.T @ (Rx_f / d_f.unsqueeze(-1)))
                Linv = torch.linalg.solve_triangular(Lc, torch.eye(m), upper=False)
                # training objective (last: train() itself is an invalidation point)
                mdl.train(); lik.train()
                mll = gpytorch.mlls.ExactMarginalLogLikelihood(lik, mdl)
                objective = mll(mdl(X), y).item()
                shared = mdl.covar_module.likelihood is mdl.likelihood
                orig_obs = None
                if hist is not None and orig is not None:
                    with _cell_ctx(cell):
                        pr1 = orig[0](Xs)
                    orig_obs = (before, (pr1.mean.clone(), pr1.covariance_matrix.clone()))
        obs[corr] = dict(objective=objective, pm=pm, pc=pc, cache=cache, kern_xx=kern_xx, kern_sx=kern_sx, cm=cm_v, n=nn_,
                         root_dev=root_dev, shared=shared, orig_obs=orig_obs, tobs=tobs)
        r = y - cm_v
        lines.append(f"sgpr {S(1 if corr else 0)} {M(Kd)} {M(Kxz)} {M(Kzz)} {M(Ksz)} {M(Kss)} {M(r)} "
                     f"{M(torch.full((nn_,), noise_v))} {M(Rroot)} {M(Linv)}")
    desc = (f"{'hist[' + hist + '] ' if hist else ''}sgpr d={d} n={n} m={m} n*={ns} cell={cell} noise={p1['noise']:.3f}"
            + (" validation-pass-with-grad" if gpass else ""))
    pre = f"history:{hist}/" if hist else ""

    def check(rep, R):
        rt, at = CELL_TOL[cell]
        for corr, line in zip((True, False), R):
            P = parse_reply(line)
            (Q, Qs, Keval, cross, cacheR, meanR, covR, mt, ct, mc, cc, resid, quad, det, added, condA,
             gKeval, gCross, gCache, gMean, gCov, gAdded) = P
            o = obs[corr]
            cmean, n = o["cm"], o["n"]
            tag = f"{desc} sgpr_diagonal_correction={corr}"
            ex = {"corr": corr}
            if float(condA) > 1e6:
                ctx.count("discarded_ill_conditioned")
                continue
            stale = o["root_dev"] > 1e-9
            if stale:
                rep.fail(pre + "InducingPointKernel/inducing_inv_root", f"{tag}: the kernel's K_zz^(-1/2) differs from the inverse Cholesky "
                         f"root of the current K_zz by {o['root_dev']:.3e} (relative): stale or wrong cache", ex)
            else:
                ctx.notes["sgpr_max_root_residual"] = max(ctx.notes.get("sgpr_max_root_residual", 0.0), float(resid))
            if not stale and float(resid) > 1e-9:
                ctx.count("sgpr_root_residual_discards")
                if ctx.counters["sgpr_root_residual_discards"] <= 4:
                    ctx.assumption(f"{tag}: ||R R^T - Kzz^-1|| / ||Kzz^-1|| = {float(resid):.2e} (Cholesky of Kzz inaccurate / jittered)")
                continue
            mt_full = [[v[0] + Fraction(*float(cmean).as_integer_ratio())] for v in mt]
            mc_full = [[v[0] + Fraction(*float(cmean).as_integer_ratio())] for v in mc]
            mR_full = [[v[0] + Fraction(*float(cmean).as_integer_ratio())] for v in meanR]
            # (a) the kernel: Nystrom matrix (train-train block carries the correction in eval mode when the switch is on)
            rep.close(pre + "InducingPointKernel/cross", f"{tag}: kernel(X*,X).to_dense() vs K*z Kzz^-1 Kzx", o["kern_sx"], Qs, extra=ex)
            if not corr:
                rep.close(pre + "InducingPointKernel/to_dense", f"{tag}: kernel(X,X).to_dense() vs Kxz Kzz^-1 Kzx", o["kern_xx"], Q, extra=ex)
            rep.close(pre + "InducingPointKernel/eval-matrix", f"{tag}: kernel(X,X).to_dense() vs model (Q + [corr] diag(K-Q)) through the code's root",
                      o["kern_xx"], Keval, extra=ex)
            # (b) the code's algebra given its root R: caches and predictions, no conditioning slack beyond the solve
            rep.close(pre + "SGPRPredictionStrategy/covar_cache", f"{tag}: covar_cache vs Rx^T (Rx Rx^T + D)^-1 Rx", o["cache"], cacheR, extra=ex)
            rep.close(pre + "SGPRPredictionStrategy/mean-given-root", f"{tag}: mean vs model through the code's root", o["pm"], mR_full, rt, at, extra=ex)
            rep.close(pre + "SGPRPredictionStrategy/covar-given-root", f"{tag}: covariance vs model through the code's root", o["pc"], covR, rt, at, extra=ex)
            # (b') the REGENERATED algebra: exact ties to the model, and the implementation given its own Cholesky primitive
            tie(ctx, "getCovarianceSame", gKeval, Keval, tag)
            tie(ctx, "getCovarianceCross", gCross, cross, tag)
            tie(ctx, "defaultMeanCache/defaultPredictiveMean", gMean, meanR, tag)
            tie(ctx, "addedLoss", [[gAdded]], [[added]], tag)
            dgc, sgc = maxdiff(fl(gCache), cacheR)
            if dgc > 1e-9 * sgc:
                ctx.broke("correspondence", "generated!=model:sgprCovarCache", f"{tag}: generated covar_cache (float Cholesky oracle) "
                          f"differs from the exact Woodbury model by {dgc:.3e}")
            rep.close(pre + "SGPRPredictionStrategy/covar_cache-generated", f"{tag}: covar_cache vs the regenerated expression", o["cache"], gCache, extra=ex)
            rep.close(pre + "SGPRPredictionStrategy/covar-generated", f"{tag}: covariance vs the regenerated expression", o["pc"], gCov, rt, at, extra=ex)
            # (c) dense conditional of the matrix the code represents (FITC-like when the switch is on)
            ok_m = rep.close(pre + "SGPRPredictionStrategy/mean-vs-represented-matrix", f"{tag}: mean vs dense conditional of Q + [corr]diag(K-Q) + s2 I",
                             o["pm"], mc_full, rt, at, extra=ex)
            ok_c = rep.close(pre + "SGPRPredictionStrategy/covar-vs-represented-matrix", f"{tag}: covariance vs dense conditional of Q + [corr]diag(K-Q) + s2 I",
                             o["pc"], cc, rt, at, extra=ex)
            # (d) THE PROPERTY: the SGPR predictive equations
            dm, sc = maxdiff(o["pm"], mt_full)
            dc, scc = maxdiff(o["pc"], ct)
            if corr:
                ctx.count("sgpr_corr_on_cases")
                ctx.notes["sgpr_corr_on_mean_shift_max"] = max(ctx.notes.get("sgpr_corr_on_mean_shift_max", 0.0), dm)
                ctx.notes["sgpr_corr_on_cov_shift_max"] = max(ctx.notes.get("sgpr_corr_on_cov_shift_max", 0.0), dc)
                if ok_m and ok_c:
                    ctx.count("sgpr_corr_on_equals_fitc_conditional")
                if dm > at + rt * sc:
                    rep.fail(KNOWN_SGPR_KEY, f"{tag}: posterior mean differs from the SGPR predictive mean Q*(Q+s2 I)^-1 r by {dm:.3e} "
                             f"(equals the dense conditional of Q + diag(K-Q) + s2 I: {ok_m})", ex)
            else:
                ctx.count("sgpr_corr_off_cases")
                a = rep.close(pre + "SGPRPredictionStrategy/titsias-mean", f"{tag}: mean vs SGPR predictive mean", o["pm"], mt_full, rt, at, extra=ex)
                b = rep.close(pre + "SGPRPredictionStrategy/titsias-covar", f"{tag}: covariance vs SGPR predictive covariance", o["pc"], ct, rt, at, extra=ex)
                if a and b:
                    ctx.count("sgpr_corr_off_matches_titsias")
            # (e) objective = Titsias collapsed bound (training mode ignores the switch)
            _train_check(rep, pre, "InducingPointKernel", tag, o["tobs"], Q, quad, det, n, added)
            logdet = math.log(det.numerator) - math.log(det.denominator)
            bound = (-0.5 * float(quad) - 0.5 * logdet - 0.5 * n * math.log(2 * math.pi) + float(added)) / n
            if abs(o["objective"] - bound) > 1e-9 * (1 + abs(bound)):
                rep.fail(pre + "InducingPointKernel/objective", f"{tag}: ExactMarginalLogLikelihood = {o['objective']!r}, Titsias bound / n = {bound!r}"
                         + ("" if o["shared"] else " (covar_module.likelihood is NOT model.likelihood: the added loss term reads another noise)"), ex)
            # sharing structure (internal observable; `gen_deepcopy_threads_memo` + `deepcopy_memo_preserves_sharing` predict it)
            if not o["shared"] and _state.get("deepcopy_likelihood_mode", 0) == 0:
                ctx.broke("correspondence", "deepcopy-sharing", f"{tag}: covar_module.likelihood is not model.likelihood although the "
                          "generated __deepcopy__ table threads the memo through the likelihood")
            _orig_check(rep, pre, tag, o["orig_obs"])
    fam = ("copy_sgpr" if hist in HIST_COPY else "hist_sgpr") if hist else "sgpr"
    return Case(fam, idx, desc, lines, check, sample={"family": fam, "desc": desc})


def case_rff(ctx, idx, tier, hist=None):
    import gpytorch
    torch = _t()
    rng = ctx.rng(f"{('copy_' if hist in HIST_COPY else 'hist_') if hist else ''}rff:{idx}")
    torch.manual_seed(rng.torch_seed())
    d = rng.randint(1, 3)
    n, ns = rng.randint(4, 9), rng.randint(2, 4)
    D = rng.randint(1, 5)     # 2D features: both D < n/2 (low-rank root) and >= occur
    scaled = idx % 2 == 0
    cell = ["chol", "cg"][(idx // 2) % 2] if hist is None else \
        ["chol", "cg", "fpv"][(idx // (len(HIST_COPY) if hist in HIST_COPY else len(HIST))) % 3]
    X0, Xs, y0 = torch.rand(n, d), torch.rand(ns, d), torch.randn(n)
    n2 = rng.randint(4, 9)
    X2, y2 = torch.rand(n2, d), torch.randn(n2)

    def draw_params():
        return dict(noise=0.05 + 0.2 * rng.random(), cmean=rng.uniform(-0.5, 0.5), oscale=0.7 + rng.random(), ls=0.5 + rng.random())
    p1, p0 = draw_params(), draw_params()

    class RF(gpytorch.models.ExactGP):
        def __init__(s, lik):
            super().__init__(X0, y0, lik)
            s.mean_module = gpytorch.means.ConstantMean()
            rk = gpytorch.kernels.RFFKernel(num_samples=D, num_dims=d)
            s.rk = rk
            s.covar_module = gpytorch.kernels.ScaleKernel(rk) if scaled else rk

        def forward(s, x):
            return gpytorch.distributions.MultivariateNormal(s.mean_module(x), s.covar_module(x))

    def set_params(mdl, lik, p):
        lik.noise = p["noise"]
        mdl.mean_module.constant.data.fill_(p["cmean"])
        mdl.rk.lengthscale = p["ls"]
        if scaled:
            mdl.covar_module.outputscale = p["oscale"]

    def build(p):
        lik = gpytorch.likelihoods.GaussianLikelihood()
        mdl = RF(lik)          # draws fresh random features: load_state_dict also replaces `randn_weights`
        set_params(mdl, lik, p)
        return mdl, lik

    tobs = None
    gpass = hist is not None and _grad_pass(idx, HIST_COPY if hist in HIST_COPY else HIST)
    with warnings.catch_warnings():
        quiet()
        if hist is None:
            mdl, lik = build(p1)
        else:
            mdl, lik = build(p0)
            mdl.eval(); lik.eval()
            with _pass_ctx(torch, gpass), _cell_ctx(cell):
                pr0 = mdl(Xs)
                before = (pr0.mean.detach().clone(), pr0.covariance_matrix.detach().clone())
            mdl, lik, orig, tobs = _apply_history(hist, mdl, lik, set_params, p1, build, (X2, y2), torch)
    X, y = mdl.train_inputs[0], mdl.train_targets
    n = X.shape[0]
    mdl.eval(); lik.eval()
    orig_obs = None
    with torch.no_grad(), warnings.catch_warnings(), _cell_ctx(cell):
        quiet()
        pred = mdl(Xs)
        pm, pc = pred.mean.clone(), pred.covariance_matrix.clone()
        strat = type(mdl.prediction_strategy).__name__
        chol = mdl.prediction_strategy.covar_cache.clone()
        if hist is not None and orig is not None:
            pr1 = orig[0](Xs)
            orig_obs = (before, (pr1.mean.clone(), pr1.covariance_matrix.clone()))
    with torch.no_grad():
        noise, cmean, ls = lik.noise.item(), mdl.mean_module.constant.item(), mdl.rk.lengthscale.item()
        W = mdl.rk.randn_weights.clone()
        Kxx = mdl.covar_module(X, X).to_dense()
        Ksx = mdl.covar_module(Xs, X).to_dense()
        Kss = mdl.covar_module(Xs, Xs).to_dense()
        F = mdl.rk(X, X).evaluate_kernel().root.to_dense()
        Fs = mdl.rk(Xs, Xs).evaluate_kernel().root.to_dense()
        c_exact = mdl.covar_module.outputscale.item() if scaled else 1.0
    lines = [f"rff {S(c_exact)} {M(F)} {M(Fs)} {M(torch.full((n,), noise))} {M(y - cmean)} {S(math.sqrt(c_exact))} {M(chol)}"]
    desc = f"{'hist[' + hist + '] ' if hist else ''}rff d={d} n={n} n*={ns} num_samples={D} scaled={scaled} cell={cell}"
    pre = f"history:{hist}/" if hist else ""

    def check(rep, R):
        rt, at = CELL_TOL[cell]
        K, Ksx_w, Kss_w, mu, cov, inner, covR, cond, gInner, gCov, quad, det = parse_reply(R[0])
        tie(ctx, "rffInnerTerm", gInner, inner, desc)
        if strat != "RFFPredictionStrategy":
            ctx.broke("correspondence", "rff-strategy", f"{desc}: strategy is {strat}")
        if float(cond) > 1e6:
            ctx.count("discarded_ill_conditioned")
            return
        # feature map (closed form, independent float evaluation)
        worst = 0.0
        for i in range(n):
            for j in range(D):
                a = sum(X[i, k].item() * W[k, j].item() / ls for k in range(d))
                worst = max(worst, abs(F[i, j].item() - math.cos(a) / math.sqrt(D)), abs(F[i, D + j].item() - math.sin(a) / math.sqrt(D)))
        if worst > 1e-12:
            rep.fail(pre + "RFFKernel/feature-map", f"{desc}: root differs from [cos(xW/l), sin(xW/l)]/sqrt(D) by {worst:.3e}")
        rep.close(pre + "RFFKernel/to_dense", f"{desc}: kernel(X,X).to_dense() vs c F F^T", Kxx, K, rtol=1e-12, atol=1e-13)
        rep.close(pre + "RFFKernel/cross", f"{desc}: kernel(X*,X).to_dense() vs c F* F^T", Ksx, Ksx_w, rtol=1e-12, atol=1e-13)
        rep.close(pre + "RFFKernel/test", f"{desc}: kernel(X*,X*).to_dense() vs c F* F*^T", Kss, Kss_w, rtol=1e-12, atol=1e-13)
        mu_full = [[v[0] + C.frac(cmean)] for v in mu]
        rep.close(pre + "RFFPredictionStrategy/mean", f"{desc}: mean vs dense conditional", pm, mu_full, rt, at)
        rep.close(pre + "RFFPredictionStrategy/covar", f"{desc}: covariance vs dense conditional", pc, cov, rt, at)
        rep.close(pre + "RFFPredictionStrategy/covar_cache", f"{desc}: covar_cache covar_cache^T vs I - c F^T A^-1 F", chol @ chol.T, inner, rt, at)
        rep.close(pre + "RFFPredictionStrategy/model", f"{desc}: covariance vs c F* inner F*^T", pc, covR, rt, at)
        rep.close(pre + "RFFPredictionStrategy/covar-generated", f"{desc}: covariance vs the regenerated expression on the code's own "
                  "covar_cache", pc, gCov, 1e-9, 1e-10)
        _orig_check(rep, pre, desc, orig_obs)
        _train_check(rep, pre, "RFFKernel", desc, tobs, K, quad, det, n)
    fam = ("copy_rff" if hist in HIST_COPY else "hist_rff") if hist else "rff"
    return Case(fam, idx, desc, lines, check, sample={"family": fam, "desc": desc})


def case_kiss(ctx, idx, tier, hist=None, additive=False):
    """KISS-GP ExactGP model.  `additive`: additive-structure KISS-GP (`AdditiveStructureKernel` over a one-dimensional
    `GridInterpolationKernel`, i.e. the `last_dim_is_batch=True` path): the covariance is sum_i W_i K_uu W_i^T = W K W^T with
    W = [W_1 | … | W_d] and K = blockdiag(K_uu, …, K_uu), so the same driver algebra applies.
    Every case also runs a HISTORY of `get_fantasy_model` calls on the one base object: 2–3 requests with different data,
    one chained request (fantasy of the first fantasy model), and the base object is examined again afterwards."""
    import gpytorch
    from gpytorch.utils.grid import create_grid
    torch = _t()
    label = ("add_" if additive else "") + (("copy_" if hist in HIST_COPY else "hist_") if hist else "")
    rng = ctx.rng(f"{label}kiss:{idx}")
    torch.manual_seed(rng.torch_seed())
    d = (2 + ((idx // 2) % 2 if hist else idx % 2)) if additive else (1 + idx % 2)
    if hist is None:
        cell = ["chol", "fpv", "fps", "fpv+fps", "cg"][(idx // 2) % 5]
    else:
        cell = ["chol", "fpv", "fps", "cg"][(idx // (len(HIST_COPY) if hist in HIST_COPY else len(HIST))) % 4]
    tz = (idx // 2) % 2 == 0
    if additive:
        gs = [rng.randint(8, 11)]
    else:
        gs = [rng.randint(6, 7)] * d if d == 2 else [rng.randint(8, 12)]
    gd = len(gs)
    bounds = [(0.0, 1.0)] * gd
    n, ns, nf = rng.randint(5, 8), rng.randint(2, 4), rng.randint(1, 3)
    X0, Xs, Xf = torch.rand(n, d), torch.rand(ns, d), torch.rand(nf, d)
    y0, yf = torch.randn(n), torch.randn(nf)
    n2 = rng.randint(5, 8)
    X2, y2 = torch.rand(n2, d), torch.randn(n2)

    def draw_params():
        return dict(noise=0.05 + 0.2 * rng.random(), cmean=rng.uniform(-0.5, 0.5), oscale=0.7 + rng.random(), ls=0.4 + 0.5 * rng.random())
    p1, p0 = draw_params(), draw_params()
    # further fantasy requests against the SAME base object (request 0 is (Xf, yf))
    nreq = 2 + idx % 2
    reqs = [(Xf, yf)]
    for _ in range(nreq - 1):
        nfk = rng.randint(1, 3)
        reqs.append((torch.rand(nfk, d), torch.randn(nfk)))

    class KS(gpytorch.models.ExactGP):
        def __init__(s, lik):
            super().__init__(X0, y0, lik)
            s.mean_module = gpytorch.means.ConstantMean()
            s.gk = gpytorch.kernels.GridInterpolationKernel(gpytorch.kernels.RBFKernel(), grid_size=gs, num_dims=gd, grid_bounds=bounds)
            s.sk = gpytorch.kernels.ScaleKernel(s.gk)
            s.covar_module = gpytorch.kernels.AdditiveStructureKernel(s.sk, num_dims=d) if additive else s.sk

        def forward(s, x):
            return gpytorch.distributions.MultivariateNormal(s.mean_module(x), s.covar_module(x))

    def set_params(mdl, lik, p):
        lik.noise = p["noise"]
        mdl.mean_module.constant.data.fill_(p["cmean"])
        mdl.sk.outputscale = p["oscale"]
        mdl.gk.base_kernel.lengthscale = p["ls"]

    def build(p):
        lik = gpytorch.likelihoods.GaussianLikelihood()
        mdl = KS(lik).double()
        # the constructor's grid is float32 (equally spaced only to 1e-8 in float64): install a float64 grid
        mdl.gk.update_grid(create_grid(gs, bounds, dtype=torch.float64))
        set_params(mdl, lik, p)
        return mdl, lik

    orig = None
    tobs = None
    gpass = hist is not None and _grad_pass(idx, HIST_COPY if hist in HIST_COPY else HIST)
    with warnings.catch_warnings(), gpytorch.settings.use_toeplitz(tz):
        quiet()
        if hist is None:
            mdl, lik = build(p1)
        else:
            mdl, lik = build(p0)
            mdl.eval(); lik.eval()
            with _pass_ctx(torch, gpass), _cell_ctx(cell):
                pr0 = mdl(Xs)                          # fills prediction_strategy and GridKernel._cached_kernel_mat
                before = (pr0.mean.detach().clone(), pr0.covariance_matrix.detach().clone())
                mdl.covar_module(X0, X0).to_dense()
            mdl, lik, orig, tobs = _apply_history(hist, mdl, lik, set_params, p1, build, (X2, y2), torch)
    X, y = mdl.train_inputs[0], mdl.train_targets
    n = X.shape[0]
    mdl.eval(); lik.eval()
    fant = {}
    fhist = []          # one record per request of the fantasy history
    base_after = {}
    orig_obs = None
    with torch.no_grad(), warnings.catch_warnings(), gpytorch.settings.use_toeplitz(tz), _cell_ctx(cell):
        quiet()
        pred = mdl(Xs)
        pm, pc = pred.mean.clone(), pred.covariance_matrix.clone()
        strat = type(mdl.prediction_strategy).__name__
        fm_first = None
        for k, (Xk, yk) in enumerate(reqs):
            try:
                fm = mdl.get_fantasy_model(Xk, yk)
                fp = fm(Xs)
                rec = {"mean": fp.mean.clone(), "cov": fp.covariance_matrix.clone(), "wiski": bool(fm.prediction_strategy.uses_wiski),
                       "resp": fm.prediction_strategy.interp_response_cache.clone().reshape(-1)}
                if k == 0:
                    fm_first = fm
            except Exception as e:  # noqa: BLE001
                rec = {"error": f"{type(e).__name__}: {str(e)[:200]}"}
            fhist.append(rec)
            if k == 0:
                fant = rec
            if "error" in rec:
                break
        # chained request: a fantasy model of the FIRST fantasy model with the data of request 1
        chain = None
        if fm_first is not None and len(fhist) == len(reqs) and "error" not in fhist[-1]:
            try:
                fc = fm_first.get_fantasy_model(reqs[1][0], reqs[1][1])
                fcp = fc(Xs)
                chain = {"mean": fcp.mean.clone(), "cov": fcp.covariance_matrix.clone(),
                         "resp": fc.prediction_strategy.interp_response_cache.clone().reshape(-1)}
            except Exception as e:  # noqa: BLE001
                chain = {"error": f"{type(e).__name__}: {str(e)[:200]}"}
            # the base object after the history
            pa = mdl(Xs)
            base_after = {"mean": pa.mean.clone(), "cov": pa.covariance_matrix.clone(),
                          "resp": mdl.prediction_strategy.interp_response_cache.clone().reshape(-1)}
        if hist is not None and orig is not None:
            pr1 = orig[0](Xs)
            orig_obs = (before, (pr1.mean.clone(), pr1.covariance_matrix.clone()))
    if cell == "cg" and chain is not None:
        # the same requests once more with Cholesky solves (default settings): separates linear_operator's CG accuracy (an assumed
        # contract of the primitive) from gpytorch's algebra, which is the same in both cells
        with torch.no_grad(), warnings.catch_warnings(), gpytorch.settings.use_toeplitz(tz):
            quiet()
            try:
                f0 = None
                for k, (Xk, yk) in enumerate(reqs):
                    fmc_ = mdl.get_fantasy_model(Xk, yk)
                    fpc_ = fmc_(Xs)
                    fhist[k]["alt"] = (fpc_.mean.clone(), fpc_.covariance_matrix.clone())
                    f0 = f0 or fmc_
                fcc_ = f0.get_fantasy_model(reqs[1][0], reqs[1][1])(Xs)
                if "error" not in chain:
                    chain["alt"] = (fcc_.mean.clone(), fcc_.covariance_matrix.clone())
            except Exception:  # noqa: BLE001  (the cg-cell observation stands as it is)
                pass
    with torch.no_grad(), warnings.catch_warnings(), gpytorch.settings.use_toeplitz(tz):
        quiet()
        noise, cmean = lik.noise.item(), mdl.mean_module.constant.item()
        grids = [g.clone() for g in mdl.gk.grid]
        # K_uu of the CURRENT parameters, evaluated densely (no grid structure, no cache) at the grid points in the
        # order in which the interpolation indices number them (first dimension slowest)
        U = torch.stack(torch.meshgrid(*grids, indexing="ij"), dim=-1).reshape(-1, gd)
        Kuu1 = mdl.gk.base_kernel(U, U).to_dense() * mdl.sk.outputscale
        Kuu1 = torch.triu(Kuu1) + torch.triu(Kuu1, 1).T    # bit-exact symmetry (the float matrix can be 1 ulp off; LDL^T wants it)
        g1 = Kuu1.shape[0]
        if additive:
            Kuu = torch.block_diag(*[Kuu1] * d)
            Kc = mdl.gk._inducing_forward(last_dim_is_batch=True).to_dense() * mdl.sk.outputscale
            Kuu_code = torch.block_diag(*[Kc.reshape(-1, g1, g1)[i if Kc.reshape(-1, g1, g1).shape[0] > 1 else 0] for i in range(d)])
        else:
            Kuu = Kuu1
            Kuu_code = mdl.gk._inducing_forward(last_dim_is_batch=False).to_dense() * mdl.sk.outputscale
        g = Kuu.shape[0]

        def dense_w(x):
            Wm = torch.zeros(x.shape[0], g)
            if additive:
                ii, vv = mdl.gk._compute_grid(x, True)          # d x n x 4
                for i in range(d):
                    for a in range(x.shape[0]):
                        for j in range(ii.shape[-1]):
                            Wm[a, i * g1 + ii[i, a, j]] += vv[i, a, j]
                return Wm
            ii, vv = mdl.gk._compute_grid(x)
            for a in range(x.shape[0]):
                for j in range(ii.shape[1]):
                    Wm[a, ii[a, j]] += vv[a, j]
            return Wm
        W, Ws = dense_w(X), dense_w(Xs)
        Wfs = [dense_w(Xk) for Xk, _ in reqs]
        kxx = mdl.covar_module(X, X).to_dense()
        ksx = mdl.covar_module(Xs, X).to_dense()
    # the fantasy history: requests 0..nreq-1 against the base object, then the chained one (= one request with the data of
    # request 0 followed by the data of request 1: theorem wiski_chain_eq_recompute)
    hreqs = [(Wfs[k], reqs[k][1]) for k in range(len(reqs))] + [(torch.cat([Wfs[0], Wfs[1]]), torch.cat([reqs[0][1], reqs[1][1]]))]
    sq = math.sqrt(noise)
    lines = [f"kissh {M(W)} {M(Ws)} {M(Kuu)} {M(torch.full((n,), noise))} {M(y - cmean)} " + " ".join(
        f"{M(Wk)} {M(torch.full((Wk.shape[0],), noise))} {M(yk - cmean)} {M(torch.full((Wk.shape[0],), sq))}" for Wk, yk in hreqs),
             # additive: the d columns are interpolated one after the other on the shared 1-D grid (point i*n + a = X[a, i])
             _interp_line(grids, X.T.reshape(-1, 1) if additive else X)]
    desc = (f"{'hist[' + hist + '] ' if hist else ''}kiss{'-additive' if additive else ''} d={d} grid_size={gs} n={n} n*={ns} nf={nf} "
            f"cell={cell} use_toeplitz={tz}")
    pre = f"history:{hist}/" if hist else ""
    KP = "AdditiveGridInterpolationKernel" if additive else "GridInterpolationKernel"

    def check(rep, R):
        rt, at = CELL_TOL[cell]
        H = parse_reply(R[0])
        Kxx, Ksx, Kss, mean, cov, cond, gmean = H[:7]
        H = H[6:]           # H[0] is unused below; per-request items start at H[1]
        dmean, dcov, fmean = H[1], H[2], H[6]
        tie(ctx, "interpMeanCache/interpPredictiveMean", gmean, mean, desc)
        if strat != "InterpolatedPredictionStrategy":
            ctx.broke("correspondence", "kiss-strategy", f"{desc}: strategy is {strat}")
        if float(cond) > 1e6:
            ctx.count("discarded_ill_conditioned")
            return
        kd = (Kuu_code - Kuu).abs().max().item()
        if kd > 1e-11 * max(1.0, Kuu.abs().max().item()):
            rep.fail(pre + KP + "/K_uu", f"{desc}: the kernel's inducing matrix differs from k(u_a,u_b) of the current "
                     f"parameters (grid points numbered as the interpolation indices do) by {kd:.3e}")
        # W as used by the kernel == generated model of Interpolation.interpolate
        idx_rows, val_rows = parse_reply(R[1])
        Wm = [[Fraction(0)] * len(Kuu) for _ in range(n)]
        for a in range(n):
            for i in range(d if additive else 1):
                row = i * n + a
                for u, v in zip(idx_rows[row], val_rows[row]):
                    Wm[a][i * g1 + int(u)] += v
        rep.close(pre + KP + "/W", f"{desc}: interpolation matrix vs generated model"
                  + (" (column i of the inputs on the shared 1-D grid for batch element i)" if additive else ""), W, Wm, rtol=1e-12, atol=1e-12)
        rep.close(pre + KP + "/train-matrix", f"{desc}: kernel(X,X).to_dense() vs W K_uu W^T", kxx, Kxx, rtol=1e-11, atol=1e-12)
        rep.close(pre + KP + "/cross-matrix", f"{desc}: kernel(X*,X).to_dense() vs W* K_uu W^T", ksx, Ksx, rtol=1e-11, atol=1e-12)
        cm = C.frac(cmean)
        rep.close(pre + "InterpolatedPredictionStrategy/mean", f"{desc}: mean vs dense conditional of W K_uu W^T", pm, [[v[0] + cm] for v in mean], rt, at)
        rep.close(pre + "InterpolatedPredictionStrategy/covar", f"{desc}: covariance vs dense conditional of W K_uu W^T", pc, cov, rt, at)
        _orig_check(rep, pre, desc, orig_obs)
        if "error" in fant:
            ctx.count("kiss_fantasy_raised")
            rep.fail(pre + "InterpolatedPredictionStrategy/fantasy/raises:" + cell, f"{desc}: get_fantasy_model(...)(x*) raises {fant['error']}")
            return
        ctx.count("kiss_fantasy_cases")
        frt, fat = max(rt, 1e-5), max(at, 1e-5)

        def fclose(key, what, got, want, alt, extra=None):
            """fantasy prediction vs specification; in the CG cell a deviation that disappears when the SAME request is solved by
            Cholesky (1e-5) is linear_operator's CG accuracy: recorded as an assumption, not a failure"""
            dv, sc = maxdiff(got, want)
            if dv <= fat + frt * sc:
                return True
            if alt is not None:
                d2, _ = maxdiff(alt, want)
                if d2 <= 1e-5 + 1e-5 * sc:
                    ctx.count("cg_fantasy_inaccuracy")
                    if ctx.counters["cg_fantasy_inaccuracy"] <= 4:
                        ctx.assumption(f"{what}: {dv:.2e} off under max_cholesky_size(0) (CG), {d2:.2e} with Cholesky solves — linear_operator CG accuracy")
                    return True
            rep.fail(key, f"{what}: max |impl - exact| = {dv:.3e} (tolerance {fat + frt * sc:.1e})", extra)
            return False
        alt0 = fant.get("alt", (None, None))
        fclose(pre + "InterpolatedPredictionStrategy/fantasy-mean", f"{desc}: fantasy mean vs dense conditional on train ++ fantasy data",
               fant["mean"], [[v[0] + cm] for v in dmean], alt0[0])
        fclose(pre + "InterpolatedPredictionStrategy/fantasy-covar", f"{desc}: fantasy covariance vs dense conditional on train ++ fantasy data",
               fant["cov"], dcov, alt0[1])
        # model of the WISKI caches (exact) == dense conditional mean: checked exactly
        if g <= 14:
            ctx.count("wiski_exact_cache_checks")
        if g <= 14 and any(abs(a[0] - b[0]) > Fraction(1, 10 ** 30) for a, b in zip(fmean, dmean)):
            ctx.broke("correspondence", "wiski-model", f"{desc}: exact WISKI cache mean differs from the exact dense conditional")
        # ---- the fantasy HISTORY: every request against the same base object, then the chained request, then the base again
        per = [H[1 + 6 * k: 7 + 6 * k] for k in range(len(hreqs))]
        base_resp, gbase_resp, dPbase, quad, det = H[1 + 6 * len(hreqs):]
        _train_check(rep, pre, KP, desc, tobs, Kxx, quad, det, n)
        hp = pre + "InterpolatedPredictionStrategy/fantasy-history/"
        recs = fhist + [chain]
        for k, (rec, (dm_k, dc_k, resp_k, gresp_k, dP_k, fmean_k)) in enumerate(zip(recs, per)):
            what = f"request #{k} on the same base model" if k < len(reqs) else "chained request (fantasy model of fantasy model #0 with the data of request #1)"
            ex = {"request": k, "requests": len(reqs), "chained": k >= len(reqs)}
            # generated transition threaded through the history == model (response exact; inner product up to the float sqrt oracle)
            if tie(ctx, "wiskiFantasyStep[response]", gresp_k, resp_k, f"{desc} {what}") and float(dP_k) > 1e-10 * (1 + n / noise):
                ctx.broke("correspondence", "generated!=model:wiskiFantasyStep[inner_prod]", f"{desc} {what}: generated interp_inner_prod differs by {float(dP_k):.3e}")
            if g <= 14 and any(abs(a[0] - b[0]) > Fraction(1, 10 ** 30) for a, b in zip(fmean_k, dm_k)):
                ctx.broke("correspondence", "wiski-model", f"{desc} {what}: exact WISKI cache mean differs from the exact dense conditional")
            if rec is None:
                continue
            if "error" in rec:
                rep.fail(hp + "raises:" + cell, f"{desc} {what}: get_fantasy_model(...)(x*) raises {rec['error']}", ex)
                continue
            ctx.count("kiss_fantasy_history_requests")
            tag = "chained-" if k >= len(reqs) else ("repeat-" if k > 0 else "")
            rep.close(hp + tag + "response-cache", f"{desc} {what}: interp_response_cache of the new strategy vs W^T D^-1 r on train ++ its own fantasy data",
                      rec["resp"], resp_k, 1e-9, 1e-10, extra=ex)
            altk = rec.get("alt", (None, None))
            fclose(hp + tag + "mean", f"{desc} {what}: fantasy mean vs dense conditional on train ++ its own fantasy data",
                   rec["mean"], [[v[0] + cm] for v in dm_k], altk[0], ex)
            fclose(hp + tag + "covar", f"{desc} {what}: fantasy covariance vs dense conditional on train ++ its own fantasy data",
                   rec["cov"], dc_k, altk[1], ex)
        if tie(ctx, "wiskiFantasyStep[self.response after the history]", gbase_resp, base_resp, desc) and float(dPbase) != 0:
            ctx.broke("correspondence", "generated!=model:wiskiFantasyStep[self.inner_prod after the history]", f"{desc}: {float(dPbase):.3e}")
        if base_after:
            rep.close(hp + "source-response-cache", f"{desc}: interp_response_cache of the BASE strategy after {len(reqs)} fantasy models were derived "
                      "from it vs W^T D^-1 r of the training data (the update must not modify the object it is called on)",
                      base_after["resp"], base_resp, 1e-9, 1e-10)
            rep.close(hp + "source-mean", f"{desc}: mean of the base model after the fantasy history vs dense conditional", base_after["mean"],
                      [[v[0] + cm] for v in mean], rt, at)
            rep.close(hp + "source-covar", f"{desc}: covariance of the base model after the fantasy history vs dense conditional", base_after["cov"],
                      cov, rt, at)
    fam = ("add_" if additive else "") + (("copy_kiss" if hist in HIST_COPY else "hist_kiss") if hist else "kiss")
    return Case(fam, idx, desc, lines, check, sample={"family": fam, "desc": desc})


def case_mtmodel(ctx, idx, tier):
    import gpytorch
    torch = _t()
    rng = ctx.rng(f"mtmodel:{idx}")
    torch.manual_seed(rng.torch_seed())
    kind = ["multitask", "lcm", "hadamard"][idx % 3]
    cell = ["chol", "cg", "fpv"][(idx // 3) % 3]
    d = rng.randint(1, 2)
    t = rng.randint(2, 3)
    n, ns = rng.randint(3, 5), rng.randint(2, 3)
    MVN, MT = gpytorch.distributions.MultivariateNormal, gpytorch.distributions.MultitaskMultivariateNormal
    if kind in ("multitask", "lcm"):
        X, Xs, Y = torch.rand(n, d), torch.rand(ns, d), torch.randn(n, t)

        class MTM(gpytorch.models.ExactGP):
            def __init__(s, lik):
                super().__init__(X, Y, lik)
                s.mean_module = gpytorch.means.MultitaskMean(gpytorch.means.ConstantMean(), num_tasks=t)
                if kind == "multitask":
                    s.covar_module = gpytorch.kernels.MultitaskKernel(_rand_kernel(rng, torch, d)[0], num_tasks=t, rank=rng.randint(0, t))
                    mods = [s.covar_module]
                else:
                    s.covar_module = gpytorch.kernels.LCMKernel([_rand_kernel(rng, torch, d)[0] for _ in range(2)], num_tasks=t, rank=1)
                    mods = list(s.covar_module.covar_module_list)
                for mk in mods:
                    _set_index_kernel(mk.task_covar_module, rng, torch)

            def forward(s, x):
                return MT(s.mean_module(x), s.covar_module(x))
        lik = gpytorch.likelihoods.MultitaskGaussianLikelihood(num_tasks=t, rank=0)
        mdl = MTM(lik)
        with torch.no_grad():
            lik.noise = 0.05 + 0.1 * rng.random()
            lik.task_noises = torch.tensor([0.05 + 0.2 * rng.random() for _ in range(t)])
            for mm in mdl.mean_module.base_means:
                mm.constant.data.fill_(rng.uniform(-0.5, 0.5))
        mdl.eval(); lik.eval()
        with torch.no_grad(), warnings.catch_warnings(), _cell_ctx(cell):
            quiet()
            pred = mdl(Xs)
            pm, pc = pred.mean.reshape(-1).clone(), pred.covariance_matrix.clone()
        with torch.no_grad(), warnings.catch_warnings():
            quiet()
            full = torch.cat([X, Xs])
            Kf = mdl.covar_module(full, full).to_dense()
            N = n * t
            K, Ksx, Kss = Kf[:N, :N], Kf[N:, :N], Kf[N:, N:]
            Nz = lik(MT(torch.zeros(n, t), mdl.covar_module(X))).covariance_matrix - K
            mu, mus = mdl.mean_module(X).reshape(-1), mdl.mean_module(Xs).reshape(-1)
            r = Y.reshape(-1) - mu
    else:
        X, Xs, Y = torch.rand(n + 2, d), torch.rand(ns, d), torch.randn(n + 2)
        i_tr = torch.tensor([[rng.randrange(t)] for _ in range(n + 2)])
        i_te = torch.tensor([[rng.randrange(t)] for _ in range(ns)])

        class HD(gpytorch.models.ExactGP):
            def __init__(s, lik):
                super().__init__((X, i_tr), Y, lik)
                s.mean_module = gpytorch.means.ConstantMean()
                s.covar_module = _rand_kernel(rng, torch, d)[0]
                s.task = gpytorch.kernels.IndexKernel(num_tasks=t, rank=rng.randint(1, t))
                _set_index_kernel(s.task, rng, torch)

            def forward(s, x, i):
                return MVN(s.mean_module(x), s.covar_module(x).mul(s.task(i)))
        lik = gpytorch.likelihoods.GaussianLikelihood()
        mdl = HD(lik)
        lik.noise = 0.05 + 0.2 * rng.random()
        cm = rng.uniform(-0.5, 0.5)
        mdl.mean_module.constant.data.fill_(cm)
        mdl.eval(); lik.eval()
        with torch.no_grad(), warnings.catch_warnings(), _cell_ctx(cell):
            quiet()
            pred = mdl(Xs, i_te)
            pm, pc = pred.mean.clone(), pred.covariance_matrix.clone()
        with torch.no_grad():
            full, fi = torch.cat([X, Xs]), torch.cat([i_tr, i_te])
            Kf = mdl.covar_module(full).mul(mdl.task(fi)).to_dense()
            N = n + 2
            K, Ksx, Kss = Kf[:N, :N], Kf[N:, :N], Kf[N:, N:]
            Nz = lik.noise.item() * torch.eye(N)
            mus = torch.full((ns,), cm)
            r = Y - cm
    lines = [f"cond {M(K)} {M(Nz)} {M(Ksx)} {M(Kss)} {M(r)}"]
    desc = f"mtmodel kind={kind} d={d} t={t} n={n} n*={ns} cell={cell}"

    def check(rep, R):
        rt, at = CELL_TOL[cell]
        mu_w, cov_w, cond = parse_reply(R[0])
        if float(cond) > 1e6:
            ctx.count("discarded_ill_conditioned")
            return
        mu_full = [[v[0] + C.frac(mus[i].item())] for i, v in enumerate(mu_w)]
        rep.close(f"{kind}-model/mean", f"{desc}: model(x*).mean vs dense conditional", pm, mu_full, rt, at)
        rep.close(f"{kind}-model/covar", f"{desc}: model(x*).covariance vs dense conditional", pc, cov_w, rt, at)
    return Case("mtmodel", idx, desc, lines, check, sample={"family": "mtmodel", "desc": desc})


def case_kisslb(ctx, idx, tier):
    """kernel level, `last_dim_is_batch=True` (additive structure): GridInterpolationKernel over a ONE-dimensional grid applied
    to n x d inputs returns d kernels, batch element i being W(x1[:, i]) K_uu W(x2[:, i])^T; `_compute_grid(x, True)` returns
    the interpolation of column i in batch element i; GridKernel.forward(last_dim_is_batch=True) returns the per-dimension
    factor(s) without a Kronecker product.  d = 1..3, with and without a leading batch dimension, x2 = x1 / x2 != x1,
    use_toeplitz on / off."""
    import gpytorch
    torch = _t()
    rng = ctx.rng(f"kisslb:{idx}")
    torch.manual_seed(rng.torch_seed())
    d = 1 + idx % 3
    tz = (idx // 3) % 2 == 0
    same = (idx // 6) % 2 == 1
    nb = 2 if idx % 4 == 3 else 0               # leading batch dimension of the inputs
    gsz = rng.randint(8, 12)
    hi = 1.0 + rng.choice([0.0, 0.5, 1.0])
    bounds = [(0.0, hi)]
    ls = 0.3 + 0.5 * rng.random()
    n, m = rng.randint(3, 6), rng.randint(2, 5)
    bshape = (nb,) if nb else ()
    x1 = hi * torch.rand(*bshape, n, d)
    x2 = x1 if same else hi * torch.rand(*bshape, m, d)
    if same:
        m = n
    base = gpytorch.kernels.RBFKernel()
    base.lengthscale = ls
    raised = None
    with gpytorch.settings.use_toeplitz(tz), torch.no_grad(), warnings.catch_warnings():
        quiet()
        gk = _kiss_kernel(base, [gsz], 1, bounds)
        grids = [g.clone() for g in gk.grid]
        try:
            got = gk(x1, x2, last_dim_is_batch=True).to_dense()        # (*b, d, n, m)
            ii1, vv1 = gk._compute_grid(x1, True)                      # (*b, d, n, 4)
            Kf = gk._inducing_forward(last_dim_is_batch=True).to_dense().reshape(-1, gsz, gsz)
            # the two structure wrappers that use this path: sum / product over the d per-dimension kernels
            addk = gpytorch.kernels.AdditiveStructureKernel(gk, num_dims=d)
            prodk = gpytorch.kernels.ProductStructureKernel(gk, num_dims=d)
            wrap = {"add12": addk(x1, x2).to_dense(), "add_diag": addk(x1, x1, diag=True),
                    "prod11": prodk(x1, x1).to_dense(), "prod_diag": prodk(x1, x1, diag=True)}
            ev = gk.eval()
            got_eval = ev(x1, x2, last_dim_is_batch=True).to_dense()    # eval mode: through GridKernel._cached_kernel_mat
            got_eval2 = ev(x1, x2, last_dim_is_batch=True).to_dense()
            if got.shape != torch.Size([*bshape, d, n, m]) or ii1.shape[:-1] != torch.Size([*bshape, d, n]):
                raised = f"shapes {tuple(got.shape)} / {tuple(ii1.shape)} instead of {(*bshape, d, n, m)} / {(*bshape, d, n, 4)}"
        except Exception as e:  # noqa: BLE001  a legal additive-structure call the real code rejects
            raised = f"{type(e).__name__}: {str(e)[:200]}"
    Ks = _dim_kernels(torch, grids, [ls])
    # all coordinates as one list of 1-D points: batch-major, then dimension, then data index
    def pts(x):
        return x.transpose(-1, -2).reshape(-1, 1)
    lines = [f"gridB {S(1 if tz else 0)} {M(Ks[0])}", _interp_line(grids, pts(x1)), _interp_line(grids, pts(x2))]
    desc = (f"kisslb d={d} grid_size={gsz} bound={hi} n={n} m={m} batch={list(bshape)} x2_is_x1={same} use_toeplitz={tz}")

    def check(rep, R):
        fac = parse_reply(R[0])
        gK, K = fac[0], fac[1]
        tie(ctx, "gridForwardLastDimBatch", gK, K, desc)
        if raised is not None:
            rep.fail("GridInterpolationKernel/last_dim_is_batch/raises", f"{desc}: kernel(x1, x2, last_dim_is_batch=True) on {n} x {d} inputs: {raised}")
            return
        for b in range(Kf.shape[0]):
            rep.close("GridKernel/last_dim_is_batch/factor", f"{desc}: GridKernel.forward(last_dim_is_batch=True)[{b}] vs the 1-D kernel matrix k(u_a,u_b)",
                      Kf[b], K, rtol=1e-11, atol=1e-12)

        def wrows(rp):
            idx_rows, val_rows = parse_reply(rp)
            Wl = []
            for ir, vr in zip(idx_rows, val_rows):
                row = [Fraction(0)] * gsz
                for u, v in zip(ir, vr):
                    row[int(u)] += v
                Wl.append(row)
            return Wl, idx_rows, val_rows
        W1, I1, V1 = wrows(R[1])
        W2, _, _ = wrows(R[2])
        B = nb if nb else 1
        G1 = got.reshape(B, d, n, m)
        GE, GE2 = got_eval.reshape(B, d, n, m), got_eval2.reshape(B, d, n, m)
        II, VV = ii1.reshape(B, d, n, -1), vv1.reshape(B, d, n, -1)
        def wkw(ra, rb):
            KWb = [[sum(K[u][v] * w for v, w in enumerate(rr) if w != 0) for rr in rb] for u in range(gsz)]
            return [[sum(w * KWb[u][c] for u, w in enumerate(rr) if w != 0) for c in range(len(rb))] for rr in ra]
        for b in range(B):
            sum12 = [[Fraction(0)] * m for _ in range(n)]
            sum11 = [[Fraction(0)] * n for _ in range(n)]
            prod11 = [[Fraction(1)] * n for _ in range(n)]
            for i in range(d):
                r1 = [W1[(b * d + i) * n + a] for a in range(n)]
                r2 = [W2[(b * d + i) * m + c] for c in range(m)]
                want = wkw(r1, r2)
                w11 = want if same else wkw(r1, r1)
                sum12 = [[x + y for x, y in zip(ra, rb)] for ra, rb in zip(sum12, want)]
                sum11 = [[x + y for x, y in zip(ra, rb)] for ra, rb in zip(sum11, w11)]
                prod11 = [[x * y for x, y in zip(ra, rb)] for ra, rb in zip(prod11, w11)]
                ex = {"batch": b, "dim": i}
                what = f"{desc}: batch element (b={b}, input dimension i={i})"
                rep.close("GridInterpolationKernel/last_dim_is_batch/to_dense", f"{what} of kernel(x1,x2,last_dim_is_batch=True) vs "
                          "W(x1[:,i]) K_uu W(x2[:,i])^T", G1[b, i], want, rtol=1e-11, atol=1e-12, extra=ex)
                rep.close("GridInterpolationKernel/last_dim_is_batch/eval-cache", f"{what}: first eval-mode call vs W(x1[:,i]) K_uu W(x2[:,i])^T",
                          GE[b, i], want, rtol=1e-11, atol=1e-12, extra=ex)
                rep.close("GridInterpolationKernel/last_dim_is_batch/eval-cache", f"{what}: second eval-mode call (cached K_uu) vs W(x1[:,i]) K_uu W(x2[:,i])^T",
                          GE2[b, i], want, rtol=1e-11, atol=1e-12, extra=ex)
                # _compute_grid: dense rows of batch element i = interpolation of column i
                for a in range(n):
                    dg = [0.0] * gsz
                    okr = True
                    for j, u in enumerate(II[b, i, a].tolist()):
                        if not 0 <= u < gsz:
                            okr = False
                        else:
                            dg[u] += VV[b, i, a, j].item()
                    derr = max(abs(x - float(w)) for x, w in zip(dg, r1[a])) if okr else float("inf")
                    if derr > 1e-12:
                        rep.fail("GridInterpolationKernel/last_dim_is_batch/compute_grid", f"{what}: _compute_grid(x1, True)[{i}, {a}] is not the "
                                 f"interpolation row of x1[{a}, {i}] = {x1.reshape(B, n, d)[b, a, i].item()!r} (differs by {derr:.3e})", ex)
                        break
            # the structure wrappers over the d per-dimension kernels of this batch element
            exb = {"batch": b}
            rep.close("AdditiveStructureKernel/to_dense", f"{desc} b={b}: AdditiveStructureKernel(kiss)(x1,x2) vs sum_i W(x1[:,i]) K_uu W(x2[:,i])^T",
                      wrap["add12"].reshape(B, n, m)[b], sum12, rtol=1e-11, atol=1e-12, extra=exb)
            rep.close("AdditiveStructureKernel/diag", f"{desc} b={b}: AdditiveStructureKernel(kiss)(x1,x1,diag=True) vs the diagonal of the sum",
                      wrap["add_diag"].reshape(B, n)[b], [[sum11[a][a]] for a in range(n)], rtol=1e-11, atol=1e-12, extra=exb)
            # (linear_operator multiplies the batch through root decompositions: jittered Cholesky, 1e-8 on a near-singular block)
            rep.close("ProductStructureKernel/to_dense", f"{desc} b={b}: ProductStructureKernel(kiss)(x1,x1) vs prod_i W(x1[:,i]) K_uu W(x1[:,i])^T",
                      wrap["prod11"].reshape(B, n, n)[b], prod11, rtol=1e-6, atol=1e-6, extra=exb)
            rep.close("ProductStructureKernel/diag", f"{desc} b={b}: ProductStructureKernel(kiss)(x1,x1,diag=True) vs the diagonal of the product",
                      wrap["prod_diag"].reshape(B, n)[b], [[prod11[a][a]] for a in range(n)], rtol=1e-11, atol=1e-12, extra=exb)
    return Case("kisslb", idx, desc, lines, check, nontrivial=d > 1, sample={"family": "kisslb", "desc": desc})


def case_gentab(ctx, idx, tier):
    """ties of the small generated tables: `_compute_grid`'s source map / shapes and the copy modes of
    `InducingPointKernel.__deepcopy__` (generated vs model), and the implementation's `_compute_grid` against the source map."""
    import gpytorch
    torch = _t()
    rng = ctx.rng(f"gentab:{idx}")
    n, d = rng.randint(2, 5), rng.randint(2, 4)
    lines = [f"gentab {S(n)} {S(d)}"]
    desc = f"gentab n={n} d={d}"

    def check(rep, R):
        gsrc, msrc, gshape, mshape, gmodes, mmodes = parse_reply(R[0])
        tie(ctx, "computeGridSource", gsrc, msrc, desc)
        tie(ctx, "computeGridPointDim/computeGridResultShape", gshape, mshape, desc)
        tie(ctx, "inducingDeepcopyArgs", gmodes, mmodes, desc)
        _state["deepcopy_likelihood_mode"] = int(gmodes[0][2])
    return Case("gentab", idx, desc, lines, check, nontrivial=True, sample={"family": "gentab", "desc": desc})


def case_add_kiss(ctx, idx, tier):
    return case_kiss(ctx, idx, tier, additive=True)


def case_copy_sgpr(ctx, idx, tier):
    return case_sgpr(ctx, idx, tier, hist=HIST_COPY[idx % len(HIST_COPY)])


def case_copy_rff(ctx, idx, tier):
    return case_rff(ctx, idx, tier, hist=HIST_COPY[idx % len(HIST_COPY)])


def case_copy_kiss(ctx, idx, tier):
    return case_kiss(ctx, idx, tier, hist=HIST_COPY[idx % len(HIST_COPY)], additive=idx % 2 == 1)


def case_hist_kisskernel(ctx, idx, tier):
    """KISS-GP kernel whose GRID changes in EVAL mode after a cached evaluation: (a) explicit `update_grid(new grid)`, (b)
    data-driven re-gridding of a kernel built WITHOUT `grid_bounds` (called on data of one range, then on data of another range).
    The kernel is then judged against W K_uu W^T for the grid it holds NOW (K_uu[a,b] = k(u_a,u_b) on the current grid points,
    W = generated interpolation model on the current grid), twice (second call: whatever was cached by the first)."""
    import gpytorch
    torch = _t()
    from gpytorch.utils.grid import create_grid
    rng = ctx.rng(f"hist_kisskernel:{idx}")
    torch.manual_seed(rng.torch_seed())
    mech = ["update_grid", "regrid-by-data"][idx % 2]
    d = 1 + (idx // 2) % 2
    tz = (idx // 4) % 2 == 0
    gs = [rng.randint(7, 9) for _ in range(d)]
    ls = [0.4 + 0.3 * k + 0.3 * rng.random() for k in range(d)]
    n, m = rng.randint(3, 5), rng.randint(2, 4)
    base = gpytorch.kernels.RBFKernel(ard_num_dims=d)
    base.lengthscale = torch.tensor([ls])
    raised = None
    with gpytorch.settings.use_toeplitz(tz), torch.no_grad(), warnings.catch_warnings():
        quiet()
        try:
            if mech == "update_grid":
                b0 = [(0.0, 1.0)] * d
                b1 = [(-0.25 - 0.5 * rng.random(), 1.25 + rng.random()) for _ in range(d)]
                gk = _kiss_kernel(base, gs, d, b0)
                x1, x2 = torch.rand(n, d), torch.rand(m, d)
                gk.eval()
                gk(x1, x2).to_dense()                                   # caches K_uu of the first grid
                gk.update_grid(create_grid(gs, b1, dtype=torch.float64))
            else:
                gk = gpytorch.kernels.GridInterpolationKernel(base, grid_size=gs, num_dims=d).double()
                gk.eval()
                xa = torch.rand(n, d)
                gk(xa, xa).to_dense()                                   # grid fitted to [0,1]^d, K_uu cached
                lo, hi = -1.0 - rng.random(), 2.0 + rng.random()
                x1, x2 = lo + (hi - lo) * torch.rand(n, d), lo + (hi - lo) * torch.rand(m, d)
                x1[0], x2[0] = lo, hi                                   # the new range is certainly outside the old grid
            got = gk(x1, x2).to_dense()
            got2 = gk(x1, x2).to_dense()
            grids = [g.clone() for g in gk.grid]
        except Exception as e:  # noqa: BLE001
            raised = f"{type(e).__name__}: {str(e)[:200]}"
            grids = [torch.linspace(0, 1, g_, dtype=torch.float64) for g_ in gs]
    Ks = _dim_kernels(torch, grids, ls)
    lines = ["gridrmD " + " ".join(M(K) for K in Ks), _interp_line(grids, x1), _interp_line(grids, x2)]
    desc = f"hist[{mech}] kisskernel d={d} grid_size={gs} n={n} m={m} use_toeplitz={tz}"

    def check(rep, R):
        gKuu, Kuu = parse_reply(R[0])
        tie(ctx, "gridForward[interpolation_mode]", gKuu, Kuu, desc)
        if raised is not None:
            rep.fail(f"history:{mech}/GridInterpolationKernel/raises", f"{desc}: {raised}")
            return
        g = len(Kuu)

        def wrows(rp):
            idx_rows, val_rows = parse_reply(rp)
            W = []
            for ir, vr in zip(idx_rows, val_rows):
                row = [Fraction(0)] * g
                for u, v in zip(ir, vr):
                    row[int(u)] += v
                W.append(row)
            return W
        W1, W2 = wrows(R[1]), wrows(R[2])
        KW2 = [[sum(Kuu[a][b] * w for b, w in enumerate(r2) if w != 0) for r2 in W2] for a in range(g)]
        want = [[sum(w * KW2[a][j] for a, w in enumerate(r1) if w != 0) for j in range(len(W2))] for r1 in W1]
        for which, val in (("first", got), ("second", got2)):
            rep.close(f"history:{mech}/GridInterpolationKernel/to_dense", f"{desc}: {which} eval-mode kernel(x1,x2) after the grid change vs "
                      "W1 K_uu W2^T on the grid the kernel holds now", val, want, rtol=1e-10, atol=1e-11, extra={"call": which})
    return Case("hist_kisskernel", idx, desc, lines, check, sample={"family": "hist_kisskernel", "desc": desc})


def case_hist_sgpr(ctx, idx, tier):
    return case_sgpr(ctx, idx, tier, hist=HIST[idx % len(HIST)])


def case_hist_rff(ctx, idx, tier):
    return case_rff(ctx, idx, tier, hist=HIST[idx % len(HIST)])


def case_hist_kiss(ctx, idx, tier):
    return case_kiss(ctx, idx, tier, hist=HIST[idx % len(HIST)])


def case_hist_grid(ctx, idx, tier):
    """GridKernel eval-mode cache: evaluate -> invalidation point -> evaluate again, compared with the dense formula of
    the CURRENT parameters / grid."""
    import gpytorch
    torch = _t()
    rng = ctx.rng(f"hist_grid:{idx}")
    kind = ["setters", "load_state_dict", "update_grid"][idx % 3]
    tz = (idx // 3) % 2 == 0
    d = 1 + idx % 2
    sizes, grids0, ls0 = _grid_setup(rng, torch, d)
    _, grids1, ls1 = _grid_setup(rng, torch, d, sizes=sizes)

    def mk(grids, ls):
        base = gpytorch.kernels.RBFKernel(ard_num_dims=d)
        base.lengthscale = torch.tensor([ls])
        return gpytorch.kernels.GridKernel(base, [g.clone() for g in grids])
    with gpytorch.settings.use_toeplitz(tz), torch.no_grad(), warnings.catch_warnings():
        quiet()
        gk = mk(grids0, ls0)
        gk.eval()
        gk(gk.full_grid, gk.full_grid).to_dense()          # fills _cached_kernel_mat
        got_train = None
        if kind == "setters":
            gk.train()
            gk.base_kernel.lengthscale = torch.tensor([ls1])
            got_train = gk(gk.full_grid, gk.full_grid).to_dense()     # training mode: must not read the eval cache
            gk.eval()
            grids_now, ls_now = grids0, ls1
        elif kind == "load_state_dict":
            gk.load_state_dict(mk(grids1, ls1).state_dict())
            grids_now, ls_now = grids1, ls1
        else:
            gk.update_grid([g.clone() for g in grids1])
            grids_now, ls_now = grids1, ls0
        fg = gk.full_grid
        got = gk(fg, fg).to_dense()
    Ks = _dim_kernels(torch, grids_now, ls_now)
    lines = ["gridT " + " ".join(M(K[0]) for K in Ks) if tz else "gridD " + " ".join(M(K) for K in Ks)]
    desc = f"hist[{kind}] grid d={d} sizes={sizes} use_toeplitz={tz}"

    def check(rep, R):
        rep.close(f"history:{kind}/GridKernel/to_dense", f"{desc}: GridKernel(full_grid).to_dense() after the history vs the dense formula of "
                  "the current parameters", got, parse_reply(R[0])[1], rtol=1e-12, atol=1e-13)
        if got_train is not None:
            rep.close(f"history:{kind}/GridKernel/train-mode/to_dense", f"{desc}: TRAINING-mode GridKernel(full_grid).to_dense() right after the "
                      "parameter change vs the dense formula of the current parameters", got_train, parse_reply(R[0])[1], rtol=1e-12, atol=1e-13)
    return Case("hist_grid", idx, desc, lines, check, sample={"family": "hist_grid", "desc": desc})


FAMILIES = {   # family: (case builder, #cases quick, #cases thorough)
    "gentab": (case_gentab, 2, 6),          # first: records the generated __deepcopy__ mode used by the copy histories
    "kron": (case_kron, 12, 300), "index": (case_index, 8, 200), "lcm": (case_lcm, 6, 150), "grid": (case_grid, 9, 90),
    "interp": (case_interp, 18, 300), "kisskernel": (case_kisskernel, 12, 100), "convergence": (case_convergence, 4, 4),
    "sgpr": (case_sgpr, 12, 240), "rff": (case_rff, 12, 200), "kiss": (case_kiss, 20, 200), "mtmodel": (case_mtmodel, 18, 252),
    # operation histories through the documented invalidation points (train(), load_state_dict, set_train_data, update_grid)
    "hist_sgpr": (case_hist_sgpr, 12, 96), "hist_rff": (case_hist_rff, 8, 72), "hist_kiss": (case_hist_kiss, 16, 64),
    "hist_grid": (case_hist_grid, 6, 36), "hist_kisskernel": (case_hist_kisskernel, 8, 48),   # grid changes in eval mode
    # additive-structure KISS-GP (`last_dim_is_batch=True`): kernel level and ExactGP models (incl. fantasy histories)
    "kisslb": (case_kisslb, 12, 48), "add_kiss": (case_add_kiss, 8, 30),
    # copy-then-modify-then-evaluate histories (deepcopy, then setters / optimiser steps / load_state_dict on the COPY)
    "copy_sgpr": (case_copy_sgpr, 6, 36), "copy_rff": (case_copy_rff, 3, 18), "copy_kiss": (case_copy_kiss, 8, 16),
}


def build_cases(ctx, tier, only=None):
    cases = []
    for fam, (fn, nq, nt) in FAMILIES.items():
        if only is not None and fam != only[0]:
            continue
        for idx in range(nq if tier == "quick" else nt):
            if only is not None and idx != only[1]:
                continue
            try:
                cases.append(fn(ctx, idx, tier))
            except Exception as e:  # the real code rejected / crashed on a generated configuration
                import traceback
                ctx.count("generator_errors")
                ctx.broke("correspondence", f"{fam}:{idx}", traceback.format_exc())
    return cases


def run_cases(ctx, cases, tier, register=True):
    lines = [l for c in cases for l in c.lines]
    replies = []
    if lines:
        try:
            replies = C.run_driver("C09", lines)
        except RuntimeError as e:
            # the driver with the REGENERATED algebra does not build / run: broken tie.  The specification side does not
            # depend on it: fall back to the model-only driver so that the implementation is still judged.
            ctx.broke("correspondence", "driver-with-generated-algebra", str(e)[-1500:])
            replies = C.run_driver("C09spec", lines)
    pos = 0
    reps = []
    fam_counts = {}
    for c in cases:
        R = replies[pos:pos + len(c.lines)]
        pos += len(c.lines)
        rep = Rep(ctx, c.family, c.idx, tier)
        try:
            c.check(rep, R)
        except RuntimeError as e:
            ctx.broke("correspondence", f"driver:{c.family}:{c.idx}", f"{c.desc}: {e}")
        reps.append(rep)
        if register:
            ctx.case(c.desc, nontrivial=c.nontrivial, sample=c.sample if fam_counts.get(c.family, 0) == 0 else None)
        fam_counts[c.family] = fam_counts.get(c.family, 0) + 1
    if register:
        ctx.notes["cases_per_family"] = fam_counts
        ctx.count("driver_lines", len(lines))
    return reps


def correspondence(ctx):
    _t()
    cases = build_cases(ctx, ctx.tier)
    run_cases(ctx, cases, ctx.tier)
    ctx.notes["settings_cells"] = {"models": CELLS + ["fpv+fps"], "sgpr_diagonal_correction": [True, False], "use_toeplitz": [True, False]}


def search(ctx, broken):
    """A proof / the translator / the driver broke.  The property's own oracles that do not depend on the generated
    model (sum to one, exactness at nodes, quadratic reproduction, convergence to the base kernel, dense conditionals)
    are evaluated directly on the implementation."""
    from gpytorch.utils.interpolation import Interpolation
    torch = _t()
    rng = ctx.rng("search")
    for trial in range(60):
        d = 1 + trial % 3
        sizes, grids, _ = _grid_setup(rng, torch, d, sizes=[rng.randint(6, 9) for _ in range(d)], dyadic=True)
        X, kinds = _interp_points(rng, torch, grids, sizes, 6)
        try:
            with warnings.catch_warnings():
                quiet()
                ii, vv = Interpolation().interpolate([g.clone() for g in grids], X.clone())
        except Exception as e:  # noqa: BLE001
            ctx.fail("Interpolation/raises", f"interpolate raised {type(e).__name__}: {e}", {"family": "search", "trial": trial})
            return
        ctx.case(f"search interp trial={trial} d={d}")
        N = math.prod(sizes)
        strides = [math.prod(sizes[k + 1:]) for k in range(d)]
        coef = [[rng.uniform(-1, 1) for _ in range(3)] for _ in range(d)]
        f = lambda pt: math.prod(c[0] + c[1] * x + c[2] * x * x for c, x in zip(coef, pt))
        for p in range(X.shape[0]):
            payload = {"family": "search", "trial": trial, "point": [C.rat_str(v) for v in X[p].tolist()],
                       "grids": [[C.rat_str(v) for v in g.tolist()] for g in grids], "kind": kinds[p]}
            if abs(vv[p].sum().item() - 1) > 1e-12:
                ctx.fail("Interpolation/sum-to-one", f"weights of point {X[p].tolist()} sum to {vv[p].sum().item()!r}", payload)
                return
            if ii[p].min().item() < 0 or ii[p].max().item() >= N:
                ctx.fail("Interpolation/index-range", f"indices of point {X[p].tolist()} leave the grid", payload)
                return
            gridpt = lambda u: [grids[k][(u // strides[k]) % sizes[k]].item() for k in range(d)]
            if kinds[p] == "interior":
                got = sum(vv[p, j].item() * f(gridpt(ii[p, j].item())) for j in range(ii.shape[1]))
                if abs(got - f(X[p].tolist())) > 1e-10 * (1 + abs(got)):
                    ctx.fail("Interpolation/quadratic-reproduction", f"interior point {X[p].tolist()}: sum w f(u) = {got!r} but f(x) = "
                             f"{f(X[p].tolist())!r}", payload)
                    return
            if kinds[p] == "node":
                j = int(vv[p].argmax())
                if abs(vv[p, j].item() - 1) > 1e-12 or gridpt(ii[p, j].item()) != X[p].tolist():
                    ctx.fail("Interpolation/exact-at-nodes", f"node point {X[p].tolist()}: weight {vv[p, j].item()!r} at {gridpt(ii[p, j].item())}", payload)
                    return
    # model-free oracles of the other families
    for fam in ("convergence",):
        for c in build_cases(ctx, "quick", None):
            if c.family == fam:
                rep = Rep(ctx, c.family, c.idx, "quick")
                c.check(rep, [])
                if rep.failed:
                    return


def replay(ctx, payload):
    """Re-run one recorded case; True when it no longer fails."""
    case = payload.get("case", payload)
    fam, idx, tier = case.get("family"), case.get("index"), case.get("tier", "quick")
    _t()
    if fam == "search":
        search(ctx, [])
        return not ctx.failures
    try:
        generate(ctx)
    except Exception:
        pass
    cases = build_cases(ctx, tier, only=(fam, idx))
    reps = run_cases(ctx, cases, tier, register=False)
    key = payload.get("key")
    failed = [k for r in reps for k in r.failed]
    return (key not in failed) if key else (not failed)

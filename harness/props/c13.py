"""C13 — non-Gaussian likelihoods: exact Gauss–Hermite rule, analytic Bernoulli marginal, log_normal_cdf.

Tie: translator G4 (`Gen/Quadrature.lean` from quadrature.py, _log_normal_cdf.py and the likelihood files; the
theorems of `Props/C13.lean` are about those definitions at ℝ) AND correspondence:
  (1) `GaussHermiteQuadrature1D(N)(poly, N(m,v))` vs the exact Gaussian moments computed by the Lean driver in ℚ
      (`gaussMoment`, `polyExpect` — the objects of `C13.gauss_moments`, `C13.gh_exact_poly`) for every degree
      <= 2N-1, N in {5,10,20,33} and the `settings.num_gauss_hermite_locs` default; tolerance derived from the
      measured storage error of the nodes (float32 when the default dtype is float32);
  (2) the generated rule expression run at Lean `Float` on the module's own nodes vs the module's output;
  (3) expected_log_prob / log_marginal of Bernoulli, Laplace, Student-t, Beta vs the N-point rule applied in
      30-digit arithmetic to the documented conditional density, and the rule's truncation error vs the
      30-digit integral for growing N;
  (4) BernoulliLikelihood marginal vs Phi(m / sqrt(1+v)) (mpmath) and vs the 30-digit integral of Phi;
  (5) conditional distribution parameters of Laplace / Student-t / Beta / Softmax vs the documented ones;
  (3b) construction histories: sequences of constructions of the four likelihoods / bare rules under different
      `settings.num_gauss_hermite_locs` values (several orders, nested blocks, same class twice, objects used later under
      yet another setting): each object is exact up to degree 2N-1 of ITS construction-time N, misses exactly v^N·N! at
      degree 2N, and its expected_log_prob / log_marginal equal the N-point rule on the documented density;
  (3c) op-then-use histories on ONE distribution object (covariance held as Diag / Dense LinearOperator, a GP posterior,
      dense tensor, torch Normal): random sequences of marginal / log_marginal / expected_log_prob of the four likelihoods —
      no call changes its input (mean / variance / covariance bit-identical), every call gives the value for the caller's N(m,v);
      Bernoulli log_marginal swept over signed links in [-6, 6] (dense below -1: label against a confident prediction, v -> 0);
  (6) log_normal_cdf value and gradient vs mpmath on a dense sweep of [-40, 10] incl. the branch boundaries,
      and the generated branch formulas run at Lean `Float`;
  (7) the 2N moment equations of the node tables the objects really store (float64 and float32 default dtype): residual
      bounds certified exactly in ℚ by the driver (`momentResidualBound`; theorems `moment_residual_certified`,
      `gh_certified_error`), compared with a stated numeric bound;
  (8) histories (props/_c13hist.py): ONE autograd graph through log_normal_cdf / Bernoulli expected_log_prob back-propagated
      several times (every pass = g·phi/Phi; generated `lncdfBackwardNth k` vs the k-th real pass); ONE rule / likelihood
      object used in sequence under float16 / bfloat16 / float32 / float64 distributions, several distribution kinds,
      observation batches and both Bernoulli label encodings (every float64 call judged; object state unchanged by calls).
"""
import math
import os
import re
import struct
import sys
import warnings

from lib import common as C

ID = "C13"
PROP_MODULES = ["GPVerif.Props.C13"]
BUILD_TARGETS = ["GPVerif.Props.C13", "GPVerif.Gen.Quadrature", "GPVerif.Model.Quadrature"]
RULE = ("(a) N in {5,10,20,33,default} x random (m, v incl. v=0 and tiny) x batch shapes x every monomial degree <= 2N-1 "
        "and random polynomials, node storage float64 and float32; distinct = (N, dtype, degree, shape); (b) 4 likelihoods "
        "x {expected_log_prob, log_marginal} x random parameters x N in {5,10,20,40,80}; (c) Bernoulli marginal on random "
        "(m, v); (d) conditional parameters on random inputs; (e) dense z sweep; non-trivial = degree >= 1 / non-degenerate "
        "variance / z outside the exactly representable points; (f) moment equations k < 2N of the stored tables, "
        "N in {5,10,20,33,40(,80)} x {float64, float32}; (g) backward histories: graph kind x 2..8 passes x upstream "
        "patterns x branch mix; (h) object histories: object kind x construction dtype x op sequence over "
        "{poly, elp, log_marginal, marginal, double} x call dtype x distribution kind x label encoding; distinct = the sequence")
EXHAUSTIVE = False
TRUSTED = ["translator harness/translate/g4_quadrature.py (Python ast -> Gen/Quadrature.lean)",
           "modelled not verified: torch.distributions Normal.cdf / Laplace / StudentT / Beta / Bernoulli / Categorical "
           "log_prob, torch autograd; numpy.polynomial.hermite.hermgauss is NOT trusted for the values of the table any more "
           "(the stored table's moment equations are certified in ℚ on every run), only as the reference for measuring the "
           "float32 storage error",
           "mpmath (30 digits): ncdf, npdf, loggamma, quad — reference integrals and reference log Phi",
           "Lean Float = IEEE double with C libm"]
ASSUMPTIONS = ["stated numeric bound (replaces 'numpy's hermgauss is right'): the float64 table stored by GaussHermiteQuadrature1D(N) "
               "satisfies the 2N moment equations with certified residual <= 1e-12·(1/sqrt(pi))·Σ|w||t|^k (float32-stored tables: "
               "(k+2)·2^-22) — computed exactly in ℚ by the driver for N in {5,10,20,33,40(,80)} on every run (observed <= 3.4e-15 / "
               "7.8e-7); for other N it is an assumption; gh_residual_bound turns the residuals into an error bound for every "
               "polynomial of degree < 2N and every N(m,v)",
               "E_{N(m,v)} Phi(f) = Phi(m/sqrt(1+v)) (probit identity): checked numerically at 30 digits",
               "|log_normal_cdf - log Phi| <= 2e-3: checked on a dense sweep, not proved",
               "float64 inputs; nodes are stored in the default dtype at construction (float32 by default)"]

GEN = os.path.join(C.LEAN_DIR, "GPVerif", "Gen", "Quadrature.lean")
EPS = 2.0 ** -52
_state = {}


def generate(ctx):
    sys.path.insert(0, os.path.join(C.VERIF, "harness"))
    from translate import g4_quadrature
    info, changed = g4_quadrature.generate(C.REPO, GEN)
    _state["info"] = info
    ctx.notes["gen_changed"] = changed
    ctx.notes["translated"] = info


def bits(x):
    return str(struct.unpack("<Q", struct.pack("<d", float(x)))[0])


def unbits(s):
    return struct.unpack("<d", struct.pack("<Q", int(s)))[0]


# ------------------------------------------------------------------ (1)+(2) polynomial exactness

def poly_cases(ctx):
    """Returns (lean request lines, records).  Each record carries what the implementation returned."""
    import numpy as np
    import torch
    import gpytorch
    from gpytorch.utils.quadrature import GaussHermiteQuadrature1D
    rng = ctx.rng("poly")
    lines, recs = [], []
    Ns = [5, 10, 20, 33, None]
    reps = 2 if ctx.quick else 10
    storage = {}
    for dtype_name in ("float64", "float32"):
        torch.set_default_dtype(torch.float64 if dtype_name == "float64" else torch.float32)
        try:
            for N in Ns:
                q = GaussHermiteQuadrature1D(N) if N is not None else GaussHermiteQuadrature1D()
                n = q.num_locs
                if N is None and n != gpytorch.settings.num_gauss_hermite_locs.value():
                    ctx.fail("ghq:default-num-locs", f"GaussHermiteQuadrature1D() has {n} nodes, settings.num_gauss_hermite_locs is "
                             f"{gpytorch.settings.num_gauss_hermite_locs.value()}", {"kind": "default-num-locs"})
                t_np, w_np = np.polynomial.hermite.hermgauss(n)
                t_impl = q.locations.double().numpy()
                w_impl = q.weights.double().numpy()
                # measured storage error of the node table (a-posteriori; 0 for float64, <= 2^-24 for float32)
                ut = float(np.max(np.abs(t_impl - t_np) / np.maximum(np.abs(t_np), 1e-300) * (np.abs(t_np) > 1e-12)))
                uw = float(np.max(np.abs(w_impl - w_np) / np.abs(w_np)))
                storage[f"{dtype_name}:N={n}"] = {"dtype": str(q.locations.dtype), "rel_err_nodes": ut, "rel_err_weights": uw}
                if ut > 2.0 ** -23 or uw > 2.0 ** -23:
                    ctx.fail("ghq:nodes", f"N={n}: stored nodes/weights differ from numpy hermgauss by {ut:.2e}/{uw:.2e} relative",
                             {"kind": "nodes", "N": n, "dtype": dtype_name})
                for rep in range(reps):
                    # 0-dim inputs only with float64 nodes: a 0-dim float64 tensor does not promote float32 nodes, the whole
                    # rule would then run in float32 (outside the float64 scope of the check)
                    shape = rng.choice([(), (3,), (2, 2)] if dtype_name == "float64" else [(1,), (3,), (2, 2)])
                    cnt = 1
                    for s in shape:
                        cnt *= s
                    ms = [rng.uniform(-3, 3) for _ in range(cnt)]
                    vs = [rng.choice([0.0, 1e-12, 10 ** rng.uniform(-3, 0.6), rng.uniform(0.1, 2.0)]) for _ in range(cnt)]
                    m_t = torch.tensor(ms, dtype=torch.float64).reshape(shape)
                    v_t = torch.tensor(vs, dtype=torch.float64).reshape(shape)
                    dist = torch.distributions.Normal(m_t, v_t.sqrt(), validate_args=False)
                    vs_eff = dist.variance.reshape(-1).tolist()       # what the module reads (sqrt then square)
                    degs = list(range(2 * n)) if (ctx.quick is False or n <= 10 or rep == 0) else sorted(rng.sample(range(2 * n), 12))
                    for k in degs:
                        with torch.no_grad():
                            out = q(lambda x, k=k: x ** k, dist).reshape(-1).tolist()
                        for j in range(cnt):
                            recs.append({"kind": "monomial", "N": n, "dtype": dtype_name, "k": k, "m": ms[j], "v": vs_eff[j],
                                         "got": out[j], "ut": ut, "uw": uw, "t": t_impl, "w": w_impl, "shape": list(shape)})
                            lines.append(None)     # filled below (moments are requested once per (m, v))
                    # a random polynomial of full degree
                    cs = [rng.uniform(-1, 1) / math.factorial(min(i, 12)) for i in range(2 * n)]
                    with torch.no_grad():
                        out = q(lambda x: sum(c * x ** i for i, c in enumerate(cs)), dist).reshape(-1).tolist()
                    for j in range(cnt):
                        recs.append({"kind": "poly", "N": n, "dtype": dtype_name, "cs": cs, "m": ms[j], "v": vs_eff[j], "got": out[j],
                                     "ut": ut, "uw": uw, "t": t_impl, "w": w_impl, "shape": list(shape)})
                        lines.append(None)
        finally:
            torch.set_default_dtype(torch.float32)
    ctx.notes["node_storage"] = storage
    return recs


def check_poly(ctx, recs, want_driver=True):
    import numpy as np
    # one driver request per distinct (m, v, K) for the moments; per polynomial for E
    req, index = [], {}
    for r in recs:
        if r["kind"] == "monomial":
            key = ("M", r["m"], r["v"], 2 * r["N"] - 1)
            if key not in index:
                index[key] = len(req)
                req.append(f"M {C.rat_str(r['m'])} {C.rat_str(r['v'])} {2 * r['N'] - 1}")
        else:
            key = ("E", r["m"], r["v"], tuple(r["cs"]))
            if key not in index:
                index[key] = len(req)
                req.append(f"E {C.rat_str(r['m'])} {C.rat_str(r['v'])} " + " ".join(C.rat_str(c) for c in r["cs"]))
    # (2) a sample of Float evaluations of the generated rule on the module's own nodes
    frng = ctx.rng("float-rule")
    fl_idx = [i for i in range(len(recs)) if frng.random() < (0.04 if ctx.quick else 0.1)]
    base = len(req)
    for i in fl_idx:
        r = recs[i]
        cs = r["cs"] if r["kind"] == "poly" else [0.0] * r["k"] + [1.0]
        req.append(f"G {r['N']} " + " ".join(f"{bits(a)} {bits(b)}" for a, b in zip(r["t"], r["w"])) +
                   f" {bits(r['m'])} {bits(r['v'])} " + " ".join(bits(c) for c in cs))
    replies = C.run_driver("C13", req) if want_driver else None
    if replies is None:
        replies = _python_exact(req)
    worst, ratio = {}, {}
    for i, r in enumerate(recs):
        n, m, v = r["N"], r["m"], r["v"]
        c = math.sqrt(2 * v)
        x = c * r["t"] + m
        wt = r["w"] / math.sqrt(math.pi)
        if r["kind"] == "monomial":
            k = r["k"]
            want = float(C.parse_rat(replies[index[("M", m, v, 2 * n - 1)]].split()[k]))
            A = float(np.sum(wt * np.abs(x) ** k))
            B = float(np.sum(wt * np.abs(x) ** max(k - 1, 0) * np.abs(c * r["t"]))) * k
            desc = f"x^{k}"
            key = f"ghq:monomial"
        else:
            want = float(C.parse_rat(replies[index[("E", m, v, tuple(r["cs"]))]]))
            ks = np.arange(len(r["cs"]))
            absc = np.abs(np.array(r["cs"]))
            A = float(sum(absc[k] * np.sum(wt * np.abs(x) ** k) for k in ks))
            B = float(sum(absc[k] * k * np.sum(wt * np.abs(x) ** max(k - 1, 0) * np.abs(c * r["t"])) for k in ks))
            desc = f"random polynomial of degree {len(r['cs']) - 1}"
            key = "ghq:polynomial"
        # derived tolerance: first-order effect of the measured relative storage errors of nodes (ut) and weights (uw)
        # on  Σ w̃_i x_i^k  (|dR| <= uw·A + ut·B), doubled for second-order terms, plus float64 evaluation rounding.
        tol = 2.0 * (r["uw"] * A + r["ut"] * B) + 64 * (n + len(r.get("cs", [0]))) * EPS * (A + B) + 1e-300
        err = abs(r["got"] - want)
        ctx.case(f"G:N{n}:{r['dtype']}:{r['kind']}:{r.get('k', 'p')}:{len(r['shape'])}", nontrivial=(r.get("k", 1) >= 1 and v > 0),
                 sample={"N": n, "dtype": r["dtype"], "integrand": desc, "m": m, "v": v, "got": r["got"], "exact": want})
        rel = err / max(A, 1e-300)
        wk = (r["dtype"], n)
        worst[wk] = max(worst.get(wk, 0.0), rel)
        ratio[wk] = max(ratio.get(wk, 0.0), err / tol)
        if not err <= tol:
            ctx.fail(key, f"GaussHermiteQuadrature1D({n}) [{r['dtype']} nodes] of {desc} against N({m!r}, {v!r}) = {r['got']!r}, "
                     f"exact {want!r} (|err| {err:.3e} > tol {tol:.1e})",
                     {"kind": "ghq", "N": n, "dtype": r["dtype"], "m": C.rat_str(m), "v": C.rat_str(v), "k": r.get("k"),
                      "cs": [C.rat_str(c_) for c_ in r.get("cs", [])]})
    ctx.notes["ghq_observed_relative_error"] = {f"{d}:N={n}": w for (d, n), w in sorted(worst.items())}
    ctx.notes["ghq_worst_error_over_tolerance"] = {f"{d}:N={n}": w for (d, n), w in sorted(ratio.items())}
    if want_driver:
        bad = 0
        for j, i in enumerate(fl_idx):
            r = recs[i]
            got = unbits(replies[base + j])
            x = math.sqrt(2 * r["v"]) * r["t"] + r["m"]
            wt = r["w"] / math.sqrt(math.pi)
            if r["kind"] == "monomial":
                A = float(np.sum(wt * np.abs(x) ** r["k"]))
            else:
                A = float(sum(abs(cf) * np.sum(wt * np.abs(x) ** k) for k, cf in enumerate(r["cs"])))
            ctx.count("lean_float_rule_comparisons")
            if not abs(got - r["got"]) <= 1e-12 * A * (1 + len(r.get("cs", [])) / 8) + 1e-300:
                bad += 1
                if bad <= 3:
                    ctx.fail("model:ghApply", f"N={r['N']}: the generated rule expression evaluates to {got!r}, the module returned "
                             f"{r['got']!r} ({r['kind']}, m={r['m']}, v={r['v']})",
                             {"kind": "ghq-float", "N": r["N"], "m": r["m"], "v": r["v"], "k": r.get("k")})
        ctx.count("lean_float_rule_mismatches", bad)


def _python_exact(req):
    """Fallback for the failing-input search when the driver does not build: the same exact recursion in Fractions."""
    from fractions import Fraction
    out = []
    for line in req:
        tk = line.split()
        if tk[0] in ("M", "E"):
            m, v = Fraction(tk[1]), Fraction(tk[2])
            K = int(tk[3]) if tk[0] == "M" else len(tk) - 4
            M = [Fraction(1), m]
            for k in range(K):
                M.append(m * M[k + 1] + (k + 1) * v * M[k])
            if tk[0] == "M":
                out.append(" ".join(C.rat_str(x) for x in M[:K + 1]))
            else:
                out.append(C.rat_str(sum(Fraction(c) * M[i] for i, c in enumerate(tk[3:]))))
        else:
            out.append("0")
    return out


def check_settings(ctx):
    import gpytorch
    from gpytorch.utils.quadrature import GaussHermiteQuadrature1D
    ctx.case("settings:num_gauss_hermite_locs")
    with gpytorch.settings.num_gauss_hermite_locs(7):
        q = GaussHermiteQuadrature1D()
        lik = gpytorch.likelihoods.LaplaceLikelihood()
    if q.num_locs != 7 or q.locations.numel() != 7 or lik.quadrature.locations.numel() != 7:
        ctx.fail("ghq:settings", f"inside num_gauss_hermite_locs(7): quadrature has {q.locations.numel()} nodes, likelihood's has "
                 f"{lik.quadrature.locations.numel()}", {"kind": "settings"})
    d = gpytorch.settings.num_gauss_hermite_locs.value()
    if GaussHermiteQuadrature1D().locations.numel() != d:
        ctx.fail("ghq:settings", "default number of nodes is not settings.num_gauss_hermite_locs.value()", {"kind": "settings"})


# ------------------------------------------------------------------ (3) likelihood integrals

def documented_beta_parameters():
    """alpha/beta as documented in the BetaLikelihood docstring, as functions of (m = sigmoid(f), s).
    Vocabulary:  `\\alpha = ms[ + 1]`, `\\beta = (1-m)s[ + 1]`."""
    import gpytorch
    doc = gpytorch.likelihoods.BetaLikelihood.__doc__ or ""
    m = re.search(r"\\alpha\s*=\s*(.+?),\s*\\quad\s*\\beta\s*=\s*(.+?)\s*$", doc, flags=re.M)
    if not m:
        raise RuntimeError("BetaLikelihood docstring: parameter formula not found")
    a, b = m.group(1).replace(" ", ""), m.group(2).replace(" ", "")
    fa = {"ms": lambda mm, s: mm * s, "ms+1": lambda mm, s: mm * s + 1}.get(a)
    fb = {"(1-m)s": lambda mm, s: (1 - mm) * s, "(1-m)s+1": lambda mm, s: (1 - mm) * s + 1}.get(b)
    if fa is None or fb is None:
        raise RuntimeError(f"BetaLikelihood docstring: `alpha = {a}`, `beta = {b}` outside the vocabulary")
    return (a, b), fa, fb


def _mp_logp(name, par, y, f, beta_fns):
    import mpmath as mp
    if name == "Bernoulli":
        return mp.log(mp.ncdf((2 * y - 1) * f))
    if name == "Laplace":
        b = mp.sqrt(par["noise"])
        return -mp.log(2 * b) - abs(y - f) / b
    if name == "StudentT":
        nu, s = mp.mpf(par["df"]), mp.sqrt(par["noise"])
        z = (y - f) / s
        return (mp.loggamma((nu + 1) / 2) - mp.loggamma(nu / 2) - mp.log(nu * mp.pi) / 2 - mp.log(s)
                - (nu + 1) / 2 * mp.log(1 + z * z / nu))
    mm = 1 / (1 + mp.exp(-f))
    s = mp.mpf(par["scale"])
    a, b = beta_fns[0](mm, s), beta_fns[1](mm, s)
    return (a - 1) * mp.log(y) + (b - 1) * mp.log(1 - y) - (mp.loggamma(a) + mp.loggamma(b) - mp.loggamma(a + b))


def check_likelihood_integrals(ctx):
    import mpmath as mp
    import numpy as np
    import torch
    import gpytorch
    from gpytorch.utils.quadrature import GaussHermiteQuadrature1D
    mp.mp.dps = 30
    rng = ctx.rng("likelihoods")
    L = gpytorch.likelihoods
    torch.set_default_dtype(torch.float64)
    trunc_table = {}
    try:
        (doc_a, doc_b), fa, fb = documented_beta_parameters()
        code_fns = (lambda mm, s: mm * s + 1, lambda mm, s: (1 - mm) * s + 1)
        reps = 2 if ctx.quick else 8
        Ns = (5, 10, 20, 40) if ctx.quick else (5, 10, 20, 40, 80)
        for name in ("Bernoulli", "Laplace", "StudentT", "Beta"):
            for rep in range(reps):
                m = rng.uniform(-2, 2)
                v = 10 ** rng.uniform(-2, 0.4)
                par = {"noise": 10 ** rng.uniform(-1.0, 0.5), "df": rng.uniform(2.5, 10), "scale": 10 ** rng.uniform(-0.5, 1.2)}
                y = {"Bernoulli": float(rng.choice([0, 1])), "Laplace": m + rng.gauss(0, 1), "StudentT": m + rng.gauss(0, 1),
                     "Beta": rng.uniform(0.05, 0.95)}[name]
                with warnings.catch_warnings():
                    warnings.simplefilter("ignore")
                    lik = {"Bernoulli": L.BernoulliLikelihood, "Laplace": L.LaplaceLikelihood, "StudentT": L.StudentTLikelihood,
                           "Beta": L.BetaLikelihood}[name]()
                    if name in ("Laplace", "StudentT"):
                        lik.noise = par["noise"]
                    if name == "StudentT":
                        lik.deg_free = par["df"]
                    if name == "Beta":
                        lik.scale = par["scale"]
                # the documented conditional density (Beta: as parsed from the docstring; when the docstring and the
                # code disagree that is reported once by check_conditionals, and the integrals are checked against
                # the parameters the code uses)
                beta_fns = (fa, fb) if abs(fa(0.3, 2.0) - code_fns[0](0.3, 2.0)) < 1e-12 and \
                    abs(fb(0.3, 2.0) - code_fns[1](0.3, 2.0)) < 1e-12 else code_fns
                g = lambda f: _mp_logp(name, par, mp.mpf(y), f, beta_fns)
                sd = mp.sqrt(v)
                pts = sorted({m - 14 * sd, m, m + 14 * sd} | ({mp.mpf(y)} if name == "Laplace" and m - 14 * sd < y < m + 14 * sd else set()))
                pdf = lambda f: mp.npdf(f, m, sd)
                I_elp = mp.quad(lambda f: g(f) * pdf(f), pts)
                I_lm = mp.log(mp.quad(lambda f: mp.exp(g(f)) * pdf(f), pts))
                dist = gpytorch.distributions.MultivariateNormal(torch.tensor([m]), torch.tensor([[v]]))
                tr_e, tr_m = [], []
                for N in Ns:
                    lik.quadrature = GaussHermiteQuadrature1D(N)
                    with torch.no_grad(), warnings.catch_warnings():
                        warnings.simplefilter("ignore")
                        elp = lik.expected_log_prob(torch.tensor([y]), dist).item()
                        lmg = lik.log_marginal(torch.tensor([y]), dist).item()
                    t_np, w_np = np.polynomial.hermite.hermgauss(N)
                    xs = [mp.sqrt(2 * mp.mpf(v)) * mp.mpf(float(t)) + m for t in t_np]
                    ws = [mp.mpf(float(w)) / mp.sqrt(mp.pi) for w in w_np]
                    gx = [g(x) for x in xs]
                    Q_elp = sum(w * a for w, a in zip(ws, gx))
                    Q_lm = mp.log(sum(w * mp.exp(a) for w, a in zip(ws, gx)))
                    scale_e = float(sum(w * abs(a) for w, a in zip(ws, gx)))
                    # float64 nodes here: agreement to rounding; Bernoulli goes through log_normal_cdf (documented 2e-3)
                    tol_e = 1e-10 * (1 + scale_e) + (2e-3 if name == "Bernoulli" else 0.0)
                    tol_m = 1e-10 * (1 + abs(float(Q_lm)))
                    rp = {"kind": "likelihood", "likelihood": name, "m": m, "v": v, "y": y, "par": par, "N": N}
                    ctx.case(f"L:{name}:elp:N{N}:{rep}", sample=dict(rp, elp=elp, rule_30digits=float(Q_elp), integral=float(I_elp)))
                    if not abs(elp - float(Q_elp)) <= tol_e:
                        ctx.fail(f"elp:{name}Likelihood", f"{name}Likelihood.expected_log_prob(y={y!r}, N({m!r},{v!r})) with {N} nodes = "
                                 f"{elp!r}; the {N}-point rule applied to the documented log density gives {float(Q_elp)!r} "
                                 f"(30-digit integral {float(I_elp)!r})", rp)
                    if name != "Bernoulli":
                        ctx.case(f"L:{name}:log_marginal:N{N}:{rep}")
                        if not abs(lmg - float(Q_lm)) <= tol_m:
                            ctx.fail(f"log_marginal:{name}Likelihood", f"{name}Likelihood.log_marginal(y={y!r}, N({m!r},{v!r})) with {N} "
                                     f"nodes = {lmg!r}; the {N}-point rule on the documented density gives {float(Q_lm)!r} "
                                     f"(30-digit integral {float(I_lm)!r})", rp)
                    else:
                        ctx.case(f"L:{name}:log_marginal:N{N}:{rep}")
                        if not abs(lmg - float(I_lm)) <= 1e-9 * (1 + abs(float(I_lm))):
                            ctx.fail("log_marginal:BernoulliLikelihood", f"BernoulliLikelihood.log_marginal(y={y!r}, N({m!r},{v!r})) = "
                                     f"{lmg!r}, 30-digit integral {float(I_lm)!r}", rp)
                    tr_e.append(float(abs(Q_elp - I_elp)))
                    tr_m.append(float(abs(Q_lm - I_lm)))
                trunc_table[f"{name}:{rep}"] = {"N": list(Ns), "elp": tr_e, "log_marginal": tr_m}
                # truncation error of the exact rule on the documented density shrinks as nodes are added
                for what, tr in (("elp", tr_e), ("log_marginal", tr_m)):
                    if not (tr[-1] <= max(tr[0], 1e-13) and min(tr[2:]) <= max(min(tr[:2]), 1e-13)):
                        ctx.assumption(f"ASSUMPTION rule truncation error not shrinking for {name} {what}: {tr} (N={list(Ns)})")
        ctx.notes["rule_truncation_error"] = trunc_table
        ctx.notes["beta_documented"] = {"alpha": doc_a, "beta": doc_b}
    finally:
        torch.set_default_dtype(torch.float32)



# ------------------------------------------------------------------ (3b) construction histories

HIST_KINDS = ["GHQ", "Bernoulli", "Laplace", "StudentT", "Beta"]


def _hist_build(kind):
    import gpytorch
    from gpytorch.utils.quadrature import GaussHermiteQuadrature1D
    L = gpytorch.likelihoods
    with warnings.catch_warnings():
        warnings.simplefilter("ignore")
        return {"GHQ": GaussHermiteQuadrature1D, "Bernoulli": L.BernoulliLikelihood, "Laplace": L.LaplaceLikelihood,
                "StudentT": L.StudentTLikelihood, "Beta": L.BetaLikelihood}[kind]()


def _hist_exec(prog, stack, out):
    """prog: list of ('build', kind) | ('with', N, [prog]).  Appends (kind, expected N, object, where)."""
    import gpytorch
    for st in prog:
        if st[0] == "build":
            n_exp = stack[-1] if stack else gpytorch.settings.num_gauss_hermite_locs.value()
            out.append((st[1], n_exp, _hist_build(st[1]), "/".join(str(x) for x in stack) or "default"))
        else:
            with gpytorch.settings.num_gauss_hermite_locs(st[1]):
                _hist_exec(st[2], stack + [st[1]], out)


def _hist_flat(prog, cur, default):
    """Flattened BuildOp tokens (`S n` on entering / leaving a block, `B` per construction)."""
    out = []
    for st in prog:
        if st[0] == "build":
            out.append("B")
        else:
            out += ["S", str(st[1])] + _hist_flat(st[2], st[1], default) + ["S", str(cur)]
    return out


def _hist_show(prog):
    return "; ".join(f"build {st[1]}" if st[0] == "build" else f"with num_gauss_hermite_locs({st[1]}): [{_hist_show(st[2])}]"
                     for st in prog)


def history_programs(rng, quick):
    """Sequences of constructions under different node-count settings: every order of 3 / default / 32 / 5 style
    sequences (sampled), nested blocks, and builds after a block was left."""
    progs = []
    base = [3, None, 32, 5]
    orders = [list(base), list(reversed(base))]
    for _ in range(2 if quick else 10):
        o = list(base) + [rng.choice([2, 4, 7, 11, 16, 25])]
        rng.shuffle(o)
        orders.append(o)
    for o in orders:
        kinds = [rng.choice(HIST_KINDS) for _ in o]
        # every likelihood class and the bare rule appear early in some sequence
        prog = []
        for n, k in zip(o, kinds):
            prog.append(("build", k) if n is None else ("with", n, [("build", k)]))
        progs.append(prog)
    # same class twice in a row under different settings (the first-built object must not leak into the second)
    for k in HIST_KINDS:
        a, b = rng.sample([3, 5, 9, 32], 2)
        progs.append([("with", a, [("build", k)]), ("with", b, [("build", k)]), ("build", k)])
    # nested blocks
    for _ in range(2 if quick else 8):
        a, b, c = rng.sample([3, 4, 6, 12, 32], 3)
        k = [rng.choice(HIST_KINDS) for _ in range(5)]
        progs.append([("with", a, [("build", k[0]), ("with", b, [("build", k[1]), ("with", c, [("build", k[2])]), ("build", k[3])]),
                                   ("build", k[4])]), ("build", rng.choice(HIST_KINDS))])
    return progs


def check_construction_histories(ctx, want_driver=True, only=None):
    """Each object must behave as the N-point rule of ITS construction-time setting: exact up to degree 2N-1, the
    known deficiency v^N·N! at degree 2N, expected_log_prob / log_marginal equal to the N-point rule on the documented
    density — whatever was constructed before it and whatever setting is active when it is used."""
    import mpmath as mp
    import numpy as np
    import torch
    import gpytorch
    mp.mp.dps = 30
    rng = ctx.rng("histories")
    torch.set_default_dtype(torch.float64)
    try:
        progs = history_programs(rng, ctx.quick)
        if only is not None:
            progs = [p for p in progs if _hist_show(p) == only] or progs
        jobs, req = [], []
        dflt = gpytorch.settings.num_gauss_hermite_locs.value()
        model_lines, model_want = [], []
        for prog in progs:
            objs = []
            _hist_exec(prog, [], objs)
            text = _hist_show(prog)
            model_lines.append(f"N {dflt} " + " ".join(_hist_flat(prog, dflt, dflt)))
            model_want.append((text, [int((o if k_ == "GHQ" else o.quadrature).locations.numel()) for k_, _, o, _ in objs]))
            # use the objects in a different order than they were built, and under yet another active setting
            order = list(range(len(objs)))
            rng.shuffle(order)
            for idx in order:
                kind, n_exp, obj, where = objs[idx]
                q = obj if kind == "GHQ" else obj.quadrature
                m, v = rng.uniform(-1.5, 1.5), rng.uniform(0.3, 1.6)
                dist = torch.distributions.Normal(torch.tensor([m]), torch.tensor([v]).sqrt(), validate_args=False)
                v_eff = dist.variance.item()
                use_n = rng.choice([None, 7, 13])
                degs = sorted({0, 1, 2 * n_exp - 2, 2 * n_exp - 1, 2 * n_exp, rng.randrange(2 * n_exp)})
                cm = gpytorch.settings.num_gauss_hermite_locs(use_n) if use_n else None
                if cm:
                    cm.__enter__()
                try:
                    with torch.no_grad():
                        got = {k: q(lambda x, k=k: x ** k, dist).item() for k in degs}
                        extra = None
                        if kind != "GHQ":
                            par = {"noise": 10 ** rng.uniform(-0.5, 0.3), "df": rng.uniform(3, 9), "scale": 10 ** rng.uniform(0, 1)}
                            y = {"Bernoulli": float(rng.choice([0, 1])), "Laplace": m + rng.gauss(0, 1), "StudentT": m + rng.gauss(0, 1),
                                 "Beta": rng.uniform(0.1, 0.9)}[kind]
                            with warnings.catch_warnings():
                                warnings.simplefilter("ignore")
                                if kind in ("Laplace", "StudentT"):
                                    obj.noise = par["noise"]
                                if kind == "StudentT":
                                    obj.deg_free = par["df"]
                                if kind == "Beta":
                                    obj.scale = par["scale"]
                                mvn = gpytorch.distributions.MultivariateNormal(torch.tensor([m]), torch.tensor([[v_eff]]))
                                elp = obj.expected_log_prob(torch.tensor([y]), mvn).item()
                                lmg = obj.log_marginal(torch.tensor([y]), mvn).item()
                            extra = (par, y, elp, lmg)
                finally:
                    if cm:
                        cm.__exit__(None, None, None)
                jobs.append({"prog": text, "idx": idx, "kind": kind, "N": n_exp, "where": where, "m": m, "v": v_eff, "got": got,
                             "extra": extra, "stored": int(q.locations.numel()), "num_locs": q.num_locs, "used_under": use_n})
                req.append(f"M {C.rat_str(m)} {C.rat_str(v_eff)} {2 * n_exp}")
        replies = C.run_driver("C13", req + model_lines) if want_driver else _python_exact(req)
        if want_driver:
            for (text, counts), rep in zip(model_want, replies[len(req):]):
                ctx.count("lean_history_models")
                if rep.split() != [str(c_) for c_ in counts]:
                    ctx.broke("correspondence", "construction-history-model",
                              f"`{text}`: objects carry {counts} nodes, the model (builtCounts) says {rep}")
            replies = replies[:len(req)]
        code_fns = (lambda mm, s_: mm * s_ + 1, lambda mm, s_: (1 - mm) * s_ + 1)
        for job, rep in zip(jobs, replies):
            N, m, v, kind = job["N"], job["m"], job["v"], job["kind"]
            M = [C.parse_rat(t) for t in rep.split()]
            t_np, w_np = np.polynomial.hermite.hermgauss(N)
            x = math.sqrt(2 * v) * t_np + m
            wt = w_np / math.sqrt(math.pi)
            rp = {"kind": "history", "program": job["prog"], "object": job["idx"], "class": kind, "N_at_construction": N,
                  "m": C.rat_str(m), "v": C.rat_str(v)}
            desc = (f"object #{job['idx']} ({kind}, built under num_gauss_hermite_locs = {job['where']}, used under "
                    f"{job['used_under'] or 'default'}) of `{job['prog']}`")
            ctx.case(f"H:{kind}:N{N}:{job['prog']}:{job['idx']}", sample={"program": job["prog"], "object": job["idx"], "class": kind, "N": N})
            if job["stored"] != N or job["num_locs"] != N:
                ctx.fail(f"history:node-count:{kind}", f"{desc} carries {job['stored']} nodes (num_locs={job['num_locs']}), "
                         f"its construction-time setting was {N}", rp)
            for k, g in job["got"].items():
                A = float(np.sum(wt * np.abs(x) ** k))
                tol = 256 * (N + k) * EPS * A + 1e-300
                if k < 2 * N:
                    want = float(M[k])
                    if not abs(g - want) <= tol:
                        ctx.fail(f"history:exactness:{kind}", f"{desc}: x^{k} (degree <= 2N-1 = {2 * N - 1}) against N({m!r},{v!r}) "
                                 f"gives {g!r}, exact {want!r}", dict(rp, k=k))
                else:
                    # the N-point rule misses exactly v^N·N! at degree 2N
                    defic = float(C.frac(v) ** N * math.factorial(N))
                    want = float(M[k] - C.frac(v) ** N * math.factorial(N))
                    if not abs(g - want) <= tol or not abs(g - float(M[k])) > min(tol, 0.5 * defic):
                        ctx.fail(f"history:degree-2N:{kind}", f"{desc}: x^{k} (degree 2N) gives {g!r}; the {N}-point rule gives "
                                 f"{want!r} (exact moment {float(M[k])!r}, known deficiency v^N·N! = {defic!r})", dict(rp, k=k))
            if job["extra"] is not None:
                par, y, elp, lmg = job["extra"]
                name = kind
                gfun = lambda f: _mp_logp(name, par, mp.mpf(y), f, code_fns)
                xs = [mp.sqrt(2 * mp.mpf(v)) * mp.mpf(float(t)) + m for t in t_np]
                ws = [mp.mpf(float(w)) / mp.sqrt(mp.pi) for w in w_np]
                gx = [gfun(xx) for xx in xs]
                Q_elp = sum(w * a for w, a in zip(ws, gx))
                scale_e = float(sum(w * abs(a) for w, a in zip(ws, gx)))
                tol_e = 1e-10 * (1 + scale_e) + (2e-3 if kind == "Bernoulli" else 0.0)
                if not abs(elp - float(Q_elp)) <= tol_e:
                    ctx.fail(f"history:elp:{kind}", f"{desc}: expected_log_prob = {elp!r}, the {N}-point rule on the documented log "
                             f"density gives {float(Q_elp)!r}", dict(rp, y=y, par=par))
                if kind != "Bernoulli":
                    Q_lm = mp.log(sum(w * mp.exp(a) for w, a in zip(ws, gx)))
                    if not abs(lmg - float(Q_lm)) <= 1e-10 * (1 + abs(float(Q_lm))):
                        ctx.fail(f"history:log_marginal:{kind}", f"{desc}: log_marginal = {lmg!r}, the {N}-point rule on the documented "
                                 f"density gives {float(Q_lm)!r}", dict(rp, y=y, par=par))
        ctx.count("history_programs", len(progs))
        ctx.count("history_objects", len(jobs))
    finally:
        torch.set_default_dtype(torch.float32)



# ------------------------------------------------------------------ (3c) op-then-use histories on ONE distribution object

def _dist_kinds():
    import torch
    import gpytorch
    from linear_operator.operators import DenseLinearOperator, DiagLinearOperator

    def gp_output(m, v):
        class _GP(gpytorch.models.ExactGP):
            def __init__(self, x, y, lik):
                super().__init__(x, y, lik)
                self.mean_module = gpytorch.means.ConstantMean()
                self.covar_module = gpytorch.kernels.ScaleKernel(gpytorch.kernels.RBFKernel())

            def forward(self, x):
                return gpytorch.distributions.MultivariateNormal(self.mean_module(x), self.covar_module(x))
        n = m.numel()
        x = torch.linspace(0, 1, n + 2, dtype=torch.float64).unsqueeze(-1)
        model = _GP(x[:2], torch.tensor([0.3, -0.2], dtype=torch.float64), gpytorch.likelihoods.GaussianLikelihood()).double()
        model.eval()
        with torch.no_grad():
            return model(x[2:])                      # lazily evaluated posterior covariance

    def dense_cov(v):
        n = v.numel()
        c = 0.3 * torch.sqrt(v[:, None] * v[None, :])
        return c - torch.diag(c.diagonal()) + torch.diag(v)

    MVN = gpytorch.distributions.MultivariateNormal
    return {
        "mvn-diag-operator": lambda m, v: MVN(m.clone(), DiagLinearOperator(v.clone())),
        "mvn-dense-operator": lambda m, v: MVN(m.clone(), DenseLinearOperator(dense_cov(v))),
        "mvn-dense-tensor": lambda m, v: MVN(m.clone(), dense_cov(v)),
        "torch-normal": lambda m, v: torch.distributions.Normal(m.clone(), v.sqrt()),
        "gp-posterior": gp_output,
    }


def check_call_histories(ctx):
    """Sequences of marginal / log_marginal / expected_log_prob calls on the SAME distribution object (lazily held
    covariances included): no call may change its input, and every call — the first and every later one — must give the
    value for the N(m, v) the caller constructed."""
    import mpmath as mp
    import numpy as np
    import torch
    import gpytorch
    mp.mp.dps = 30
    rng = ctx.rng("call-histories")
    torch.manual_seed(rng.torch_seed())
    torch.set_default_dtype(torch.float64)
    L = gpytorch.likelihoods
    code_fns = (lambda mm, s_: mm * s_ + 1, lambda mm, s_: (1 - mm) * s_ + 1)
    try:
        kinds = _dist_kinds()
        for rep in range(1 if ctx.quick else 4):
            for dk, mkdist in kinds.items():
                for name in ("Bernoulli", "Laplace", "StudentT", "Beta"):
                    n = 3
                    m0 = torch.tensor([rng.uniform(-1.5, 1.5) for _ in range(n)])
                    v0 = torch.tensor([10 ** rng.uniform(-1, 0.5) for _ in range(n)])
                    with warnings.catch_warnings():
                        warnings.simplefilter("ignore")
                        dist = mkdist(m0, v0)
                        lik = {"Bernoulli": L.BernoulliLikelihood, "Laplace": L.LaplaceLikelihood, "StudentT": L.StudentTLikelihood,
                               "Beta": L.BetaLikelihood}[name]()
                    par = {"noise": 10 ** rng.uniform(-0.5, 0.3), "df": rng.uniform(3, 9), "scale": 10 ** rng.uniform(0, 1)}
                    with warnings.catch_warnings():
                        warnings.simplefilter("ignore")
                        if name in ("Laplace", "StudentT"):
                            lik.noise = par["noise"]
                        if name == "StudentT":
                            lik.deg_free = par["df"]
                        if name == "Beta":
                            lik.scale = par["scale"]
                    # what the caller constructed (read BEFORE any likelihood call; reading must not be the mutation either)
                    mean_b = dist.mean.detach().clone()
                    var_b = dist.variance.detach().clone()
                    cov_b = dist.covariance_matrix.detach().clone() if hasattr(dist, "covariance_matrix") else None
                    ms, vs = mean_b.tolist(), var_b.tolist()
                    ys = [{"Bernoulli": float(rng.choice([0, 1])), "Laplace": ms[i] + rng.gauss(0, 1), "StudentT": ms[i] + rng.gauss(0, 1),
                           "Beta": rng.uniform(0.1, 0.9)}[name] for i in range(n)]
                    y_t = torch.tensor(ys)
                    N = lik.quadrature.num_locs
                    t_np, w_np = np.polynomial.hermite.hermgauss(N)
                    ref_elp, ref_lm, scale_e = [], [], []
                    for i in range(n):
                        g = lambda f, i=i: _mp_logp(name, par, mp.mpf(ys[i]), f, code_fns)
                        xs = [mp.sqrt(2 * mp.mpf(vs[i])) * mp.mpf(float(t)) + ms[i] for t in t_np]
                        ws = [mp.mpf(float(w)) / mp.sqrt(mp.pi) for w in w_np]
                        gx = [g(xx) for xx in xs]
                        ref_elp.append(float(sum(w * a for w, a in zip(ws, gx))))
                        scale_e.append(float(sum(w * abs(a) for w, a in zip(ws, gx))))
                        if name == "Bernoulli":
                            ref_lm.append(float(mp.log(mp.ncdf((2 * ys[i] - 1) * mp.mpf(ms[i]) / mp.sqrt(1 + mp.mpf(vs[i]))))))
                        else:
                            ref_lm.append(float(mp.log(sum(w * mp.exp(a) for w, a in zip(ws, gx)))))
                    ref_p = [float(mp.ncdf(mp.mpf(ms[i]) / mp.sqrt(1 + mp.mpf(vs[i])))) for i in range(n)]
                    ops = [rng.choice(["marginal", "log_marginal", "expected_log_prob"]) for _ in range(4)]
                    if name == "Bernoulli":
                        ops = ["marginal"] + ops          # the analytic marginal first, then everything else
                    done = []
                    for op in ops:
                        rp = {"kind": "call-history", "likelihood": name, "dist": dk, "ops": done + [op], "m": ms, "v": vs, "y": ys, "par": par}
                        ctx.case(f"K:{name}:{dk}:{'>'.join(done + [op])}", sample={"likelihood": name, "dist": dk, "ops": done + [op]})
                        with torch.no_grad(), warnings.catch_warnings():
                            warnings.simplefilter("ignore")
                            try:
                                if op == "marginal":
                                    if dk == "torch-normal":
                                        if name != "Bernoulli":
                                            continue      # __call__ accepts torch Normals only with pyro; MC marginals need an MVN
                                        out = lik.marginal(dist)
                                    else:
                                        out = lik(dist)
                                    val = out.probs.tolist() if name == "Bernoulli" else None
                                elif op == "log_marginal":
                                    val = lik.log_marginal(y_t, dist).tolist()
                                else:
                                    val = lik.expected_log_prob(y_t, dist).tolist()
                            except Exception as e:
                                ctx.fail(f"call-history:raised:{name}", f"{name}Likelihood.{op} after {done} on a {dk} distribution raised "
                                         f"{type(e).__name__}: {str(e)[:100]}", rp)
                                break
                        done.append(op)
                        # the input distribution is untouched
                        same = torch.equal(dist.mean.detach(), mean_b) and torch.equal(dist.variance.detach(), var_b) and \
                            (cov_b is None or torch.equal(dist.covariance_matrix.detach(), cov_b))
                        if not same:
                            ctx.fail(f"call-history:mutated-input:{name}", f"{name}Likelihood.{op} (history {done}) changed its input "
                                     f"{dk} distribution: variance {var_b.tolist()} -> {dist.variance.detach().tolist()}", rp)
                        if val is None:
                            continue
                        if op == "marginal":
                            ok = all(abs(a - b) <= 1e-12 + 8 * EPS * b for a, b in zip(val, ref_p))
                            want = ref_p
                        elif op == "log_marginal":
                            ok = all(abs(a - b) <= 1e-10 * (1 + abs(b)) + 1e-12 + 16 * EPS / math.exp(min(b, 0.0))
                                     for a, b in zip(val, ref_lm))
                            want = ref_lm
                        else:
                            ok = all(abs(a - b) <= 1e-10 * (1 + sc) + (2e-3 if name == "Bernoulli" else 0.0)
                                     for a, b, sc in zip(val, ref_elp, scale_e))
                            want = ref_elp
                        if not ok:
                            ctx.fail(f"call-history:value:{name}:{op}", f"{name}Likelihood.{op} as call #{len(done)} of {done} on one {dk} "
                                     f"distribution N(m={ms}, v={vs}) gives {val}, reference {want}", rp)
                        if not same:
                            break
        ctx.count("call_history_sequences", (1 if ctx.quick else 4) * len(kinds) * 4)
    finally:
        torch.set_default_dtype(torch.float32)


def check_bernoulli_log_marginal_sweep(ctx):
    """BernoulliLikelihood.log_marginal is analytic: log Phi((2y-1) m / sqrt(1+v)) to rounding for EVERY signed link, in
    particular for labels that disagree with a confident prediction (signed link < -1) and for v = 0."""
    import mpmath as mp
    import torch
    import gpytorch
    mp.mp.dps = 30
    rng = ctx.rng("bernoulli-sweep")
    torch.set_default_dtype(torch.float64)
    try:
        lik = gpytorch.likelihoods.BernoulliLikelihood()
        links = [-6 + 12 * i / 120 for i in range(121)] + [rng.uniform(-2.6, -0.9) for _ in range(60 if ctx.quick else 600)] + \
            [-1.0, -1.0000001, -0.9999999, -1.5, -2.0]
        ms, vs, ys, ss = [], [], [], []
        for s_ in links:
            y = float(rng.choice([0, 1]))
            v = rng.choice([1e-9, 10 ** rng.uniform(-2, 1), rng.uniform(0.1, 3)])
            ms.append((2 * y - 1) * s_ * math.sqrt(1 + v))
            vs.append(v)
            ys.append(y)
        dist = gpytorch.distributions.MultivariateNormal(torch.tensor(ms), torch.diag(torch.tensor(vs)))
        with torch.no_grad():
            lm = lik.log_marginal(torch.tensor(ys), dist).tolist()
            pr = lik(dist).probs.tolist()
        worst = 0.0
        for m, v, y, got, p in zip(ms, vs, ys, lm, pr):
            sl = (2 * y - 1) * mp.mpf(m) / mp.sqrt(1 + mp.mpf(v))
            ref = float(mp.log(mp.ncdf(sl)))
            ctx.case(f"B:log_marginal:{_zb(float(sl))}:{int(y)}", sample={"m": m, "v": v, "y": y, "signed_link": float(sl), "log_marginal": got})
            err = abs(got - ref)
            worst = max(worst, err / (1 + abs(ref)))
            # torch evaluates Phi with absolute rounding error ~eps, i.e. log Phi with error ~eps/Phi (primitive, outside /repo)
            p_ref = float(mp.ncdf(sl))
            if not err <= 1e-12 + 16 * EPS / p_ref + 16 * EPS * abs(ref):
                ctx.fail("log_marginal:BernoulliLikelihood", f"BernoulliLikelihood.log_marginal(y={y}, N({m!r},{v!r})) = {got!r}; "
                         f"log Phi(signed link {float(sl):.6f}) = {ref!r} (|err| {err:.3e})",
                         {"kind": "bernoulli-log-marginal", "m": m, "v": v, "y": y})
            pref = float(mp.ncdf(mp.mpf(m) / mp.sqrt(1 + mp.mpf(v))))
            if not abs(p - pref) <= 1e-12 + 8 * EPS * pref:
                ctx.fail("marginal:BernoulliLikelihood", f"BernoulliLikelihood(N({m!r},{v!r})).probs = {p!r}, Phi(m/sqrt(1+v)) = {pref!r}",
                         {"kind": "marginal", "m": m, "v": v})
        ctx.notes["bernoulli_log_marginal_worst_rel_err"] = worst
    finally:
        torch.set_default_dtype(torch.float32)


# ------------------------------------------------------------------ (4) Bernoulli marginal

def check_bernoulli_marginal(ctx, lines, recs):
    import mpmath as mp
    import torch
    import gpytorch
    mp.mp.dps = 30
    rng = ctx.rng("bernoulli")
    torch.set_default_dtype(torch.float64)
    try:
        lik = gpytorch.likelihoods.BernoulliLikelihood()
        n = 12 if ctx.quick else 100
        ms = [rng.uniform(-6, 6) for _ in range(n)]
        vs = [rng.choice([1e-8, 10 ** rng.uniform(-3, 2), rng.uniform(0.1, 3)]) for _ in range(n)]
        dist = gpytorch.distributions.MultivariateNormal(torch.tensor(ms), torch.diag(torch.tensor(vs)))
        with torch.no_grad():
            probs = lik(dist).probs.tolist()
        for i, (m, v, p) in enumerate(zip(ms, vs, probs)):
            want = mp.ncdf(mp.mpf(m) / mp.sqrt(1 + mp.mpf(v)))
            rp = {"kind": "marginal", "m": m, "v": v}
            ctx.case(f"B:marginal:{i}", sample=dict(rp, probs=p, closed_form=float(want)))
            if not abs(p - float(want)) <= 1e-12 + 8 * EPS * float(want):
                ctx.fail("marginal:BernoulliLikelihood", f"BernoulliLikelihood(N({m!r},{v!r})).probs = {p!r}, Phi(m/sqrt(1+v)) = "
                         f"{float(want)!r}", rp)
            if i < (4 if ctx.quick else 20):
                sd = mp.sqrt(v)
                integ = mp.quad(lambda f: mp.ncdf(f) * mp.npdf(f, m, sd), [m - 14 * sd, m, m + 14 * sd])
                ctx.count("probit_identity_checked_30_digits")
                if not abs(integ - want) <= mp.mpf(10) ** -18:
                    ctx.assumption(f"ASSUMPTION probit identity: integral {integ} vs closed form {want} at m={m}, v={v}")
                if not abs(p - float(integ)) <= 1e-12 + 8 * EPS * float(want):
                    ctx.fail("marginal:BernoulliLikelihood", f"BernoulliLikelihood(N({m!r},{v!r})).probs = {p!r}, 30-digit integral of "
                             f"Phi = {float(integ)!r}", rp)
            lines.append(f"B {bits(m)} {bits(v)}")
            recs.append(("B", m, v, p))
    finally:
        torch.set_default_dtype(torch.float32)


# ------------------------------------------------------------------ (5) conditional parameters

def check_conditionals(ctx, lines, recs):
    import torch
    import gpytorch
    rng = ctx.rng("conditionals")
    torch.manual_seed(rng.torch_seed())
    torch.set_default_dtype(torch.float64)
    L = gpytorch.likelihoods
    try:
        (doc_a, doc_b), fa, fb = documented_beta_parameters()
        for rep in range(3 if ctx.quick else 20):
            f = torch.tensor([rng.gauss(0, 2) for _ in range(4)])
            noise, df, scale = 10 ** rng.uniform(-2, 1), rng.uniform(2.2, 20), 10 ** rng.uniform(-1, 1.5)
            with warnings.catch_warnings():
                warnings.simplefilter("ignore")
                lap = L.LaplaceLikelihood()
                lap.noise = noise
                d = lap(f)
                ctx.case(f"D:Laplace:{rep}")
                if not (isinstance(d, torch.distributions.Laplace) and torch.equal(d.loc, f)
                        and torch.allclose(d.scale, torch.full_like(f, math.sqrt(noise)), rtol=1e-9)):
                    ctx.fail("conditional:LaplaceLikelihood", f"LaplaceLikelihood(noise={noise})(f) is {d} (documented Laplace(f, sqrt(noise)))",
                             {"kind": "conditional", "likelihood": "Laplace", "noise": noise})
                st = L.StudentTLikelihood()
                st.noise = noise
                st.deg_free = df
                d = st(f)
                ctx.case(f"D:StudentT:{rep}")
                if not (isinstance(d, torch.distributions.StudentT) and torch.equal(d.loc, f)
                        and torch.allclose(d.scale, torch.full_like(f, math.sqrt(noise)), rtol=1e-9)
                        and torch.allclose(d.df, torch.full_like(f, df), rtol=1e-9)):
                    ctx.fail("conditional:StudentTLikelihood", f"StudentTLikelihood(noise={noise}, deg_free={df})(f) is {d}",
                             {"kind": "conditional", "likelihood": "StudentT", "noise": noise, "df": df})
                be = L.BetaLikelihood()
                be.scale = scale
                d = be(f)
                mix = torch.sigmoid(f)
                ctx.case(f"D:Beta:{rep}", sample={"scale": scale, "f": f.tolist(), "alpha": d.concentration1.tolist(),
                                                  "documented_alpha": fa(mix, scale).tolist()})
                if not (isinstance(d, torch.distributions.Beta) and torch.allclose(d.concentration1, fa(mix, scale), rtol=1e-9)
                        and torch.allclose(d.concentration0, fb(mix, scale), rtol=1e-9)):
                    ctx.fail("conditional:BetaLikelihood/documented-parameters",
                             f"BetaLikelihood(scale={scale})(f={f[0].item()!r}) is Beta({d.concentration1[0].item()!r}, "
                             f"{d.concentration0[0].item()!r}); documented alpha = {doc_a}, beta = {doc_b} with m = sigmoid(f), s = scale "
                             f"gives Beta({fa(mix, scale)[0].item()!r}, {fb(mix, scale)[0].item()!r})",
                             {"kind": "conditional", "likelihood": "Beta", "scale": scale, "f": f[0].item()})
                for j in range(2):
                    lines.append(f"A {bits(f[j].item())} {bits(scale)}")
                    recs.append(("A", f[j].item(), scale, (d.concentration1[j].item(), d.concentration0[j].item())))
                # softmax
                for mixing in (True, False):
                    nf, nc = 3, (4 if mixing else 3)
                    sm = L.SoftmaxLikelihood(num_features=nf, num_classes=nc, mixing_weights=mixing)
                    F = torch.randn(5, nf)
                    d = sm(F)
                    W = sm.mixing_weights
                    want = torch.softmax(F @ W.t() if mixing else F, dim=-1)
                    ctx.case(f"D:Softmax:{mixing}:{rep}")
                    if not (isinstance(d, torch.distributions.Categorical) and torch.allclose(d.probs, want, rtol=1e-9, atol=1e-12)):
                        ctx.fail("conditional:SoftmaxLikelihood", f"SoftmaxLikelihood(mixing_weights={mixing})(f).probs differs from "
                                 "softmax(W f)", {"kind": "conditional", "likelihood": "Softmax", "mixing": mixing})
                bl = L.BernoulliLikelihood()
                d = bl(f)
                import mpmath as mp
                ctx.case(f"D:Bernoulli:{rep}")
                want = torch.tensor([float(mp.ncdf(x)) for x in f.tolist()])
                if not torch.allclose(d.probs, want, rtol=1e-12, atol=1e-15):
                    ctx.fail("conditional:BernoulliLikelihood", "BernoulliLikelihood(f).probs differs from Phi(f)",
                             {"kind": "conditional", "likelihood": "Bernoulli"})
    finally:
        torch.set_default_dtype(torch.float32)


# ------------------------------------------------------------------ (6) log_normal_cdf

def check_lncdf(ctx, lines, recs):
    import mpmath as mp
    import torch
    from gpytorch.functions import log_normal_cdf
    mp.mp.dps = 30
    rng = ctx.rng("lncdf")
    n = 2001 if ctx.quick else 100001
    zs = [-40 + 50 * i / (n - 1) for i in range(n)]
    for b in (-1.0, -0.2, 0.2):
        z = b
        for _ in range(3):
            zs += [z, math.nextafter(z, -math.inf), math.nextafter(z, math.inf)]
            z = math.nextafter(z, math.inf)
        zs += [b - 1e-9, b + 1e-9, b - 1e-3, b + 1e-3]
    zs += [0.0, -0.0, 5e-324, -1e-300, -38.0, -40.0, 10.0, 8.3, -1 - 1e-12]
    zs += [rng.uniform(-40, 10) for _ in range(200 if ctx.quick else 5000)]
    zs += [rng.uniform(-2.5, 0.5) for _ in range(200 if ctx.quick else 5000)]
    zt = torch.tensor(zs, dtype=torch.float64, requires_grad=True)
    # evaluated as a shuffled 2-D tensor: the masked scatters must put every entry in its place
    perm = list(range(len(zs)))
    rng.shuffle(perm)
    pad = (-len(zs)) % 7
    z2 = torch.tensor([zs[i] for i in perm] + [0.3] * pad, dtype=torch.float64).reshape(-1, 7).requires_grad_(True)
    try:
        y2 = log_normal_cdf(z2)
        y2.sum().backward()
    except Exception as e:
        ctx.fail("lncdf:raised", f"log_normal_cdf(z).sum().backward() on a {list(z2.shape)} float64 tensor raised {type(e).__name__}: "
                 f"{str(e)[:200]}", {"kind": "lncdf-raised", "shape": list(z2.shape)})
        return
    val2 = y2.detach().reshape(-1).tolist()
    grd2 = z2.grad.reshape(-1).tolist()
    val, grd = [None] * len(zs), [None] * len(zs)
    for pos, i in enumerate(perm):
        val[i], grd[i] = val2[pos], grd2[pos]
    # scalar evaluation of a subset must agree exactly with the batched one
    for i in rng.sample(range(len(zs)), 40):
        z1 = torch.tensor(zs[i], dtype=torch.float64, requires_grad=True)
        y1 = log_normal_cdf(z1)
        y1.backward()
        ctx.case(f"Z:scatter:{_zb(zs[i])}")
        if y1.item() != val[i] or z1.grad.item() != grd[i]:
            ctx.fail("lncdf:batched-vs-scalar", f"log_normal_cdf({zs[i]!r}) = {y1.item()!r} as a scalar but {val[i]!r} inside a tensor "
                     f"(grad {z1.grad.item()!r} vs {grd[i]!r})", {"kind": "lncdf", "z": zs[i]})
    worst = {"abs": (0.0, None), "abs_ge_-1": (0.0, None), "grad_rel": (0.0, None), "grad_rel_ge_-1": (0.0, None)}
    nfail = 0
    for i, z in enumerate(zs):
        ref = mp.log(mp.ncdf(mp.mpf(z)))
        gref = mp.npdf(mp.mpf(z)) / mp.ncdf(mp.mpf(z))
        err = abs(val[i] - float(ref)) if math.isfinite(val[i]) else math.inf
        gerr = float(abs(mp.mpf(grd[i]) - gref) / gref) if math.isfinite(grd[i]) else math.inf
        ctx.case(f"Z:{_zb(z)}", nontrivial=(z != 0.0), sample={"z": z, "log_normal_cdf": val[i], "log_Phi": float(ref)})
        if err > worst["abs"][0]:
            worst["abs"] = (err, z)
        if gerr > worst["grad_rel"][0]:
            worst["grad_rel"] = (gerr, z)
        tol_v, tol_g = 2e-3, 2e-3
        if z >= -1:
            tol_v = 16 * EPS * max(1.0, abs(float(ref)))      # "to rounding"
            tol_g = 1e-12
            if err > worst["abs_ge_-1"][0]:
                worst["abs_ge_-1"] = (err, z)
            if gerr > worst["grad_rel_ge_-1"][0]:
                worst["grad_rel_ge_-1"] = (gerr, z)
        if not err <= tol_v and nfail < 10:
            nfail += 1
            ctx.fail("lncdf:accuracy" + ("/z>=-1" if z >= -1 else ""), f"log_normal_cdf({z!r}) = {val[i]!r}, log Phi = {float(ref)!r} "
                     f"(|err| {err:.3e} > {tol_v:.1e})", {"kind": "lncdf", "z": z, "err": err})
        if not gerr <= tol_g and nfail < 10:
            nfail += 1
            ctx.fail("lncdf:gradient" + ("/z>=-1" if z >= -1 else ""), f"d/dz log_normal_cdf({z!r}) = {grd[i]!r}, phi/Phi = {float(gref)!r} "
                     f"(relative error {gerr:.3e} > {tol_g:.1e})", {"kind": "lncdf-grad", "z": z, "err": gerr})
    ctx.notes["lncdf_worst"] = {k: {"err": e, "z": z} for k, (e, z) in worst.items()}
    # Lean Float: branch tags, branch values and backward formulas
    sub = rng.sample(range(len(zs)), 300 if ctx.quick else 3000) + list(range(n, n + 48))
    lines.append("L " + " ".join(bits(zs[i]) for i in sub))
    recs.append(("L", [zs[i] for i in sub], [val[i] for i in sub], [grd[i] for i in sub]))
    for i in sub[:60]:
        if zs[i] >= -1:
            lines.append(f"W {bits(zs[i])} {bits(val[i])}")
            recs.append(("W", zs[i], val[i], grd[i]))


def _zb(z):
    for b in (-20, -5, -2, -1, -0.2, 0.2, 2, 5):
        if z < b:
            return f"<{b}"
    return ">=5"


def compare_lean(ctx, recs, replies):
    bad = 0
    for rec, rep in zip(recs, replies):
        if rec[0] == "B":
            import mpmath as mp
            _, m, v, p = rec
            link = unbits(rep)
            ctx.count("lean_link_comparisons")
            if not abs(float(mp.ncdf(link)) - p) <= 1e-12 + 8 * EPS * p:
                ctx.fail("model:bernoulliLink", f"generated link m/sqrt(1+v) = {link!r} gives Phi = {float(mp.ncdf(link))!r}, the marginal "
                         f"returned {p!r} (m={m}, v={v})", {"kind": "marginal", "m": m, "v": v})
        elif rec[0] == "A":
            _, f, s, (a, b) = rec
            ga, gb = (unbits(t) for t in rep.split())
            ctx.count("lean_beta_comparisons")
            if not (abs(ga - a) <= 1e-12 * (1 + abs(a)) and abs(gb - b) <= 1e-12 * (1 + abs(b))):
                ctx.fail("model:betaParameters", f"generated alpha/beta = {ga!r}/{gb!r}, BetaLikelihood returned {a!r}/{b!r} (f={f}, s={s})",
                         {"kind": "conditional", "likelihood": "Beta", "scale": s, "f": f})
        elif rec[0] == "L":
            _, zs, vals, grds = rec
            toks = rep.split()
            if len(toks) != len(zs):
                ctx.broke("correspondence", "driver:L", rep[:200])
                continue
            tags = {}
            for z, v, g, t in zip(zs, vals, grds, toks):
                tag, vb, gb = t.split(":")
                tags[tag] = tags.get(tag, 0) + 1
                want_tag = "N" if z * z < 0.04 else ("S" if z < -1 else "O")
                ctx.count("lean_lncdf_comparisons")
                ok = tag == want_tag
                if ok and tag != "O":
                    mv, mg = unbits(vb), unbits(gb)
                    ok = abs(mv - v) <= 1e-12 * (1 + abs(v)) and abs(mg - g) <= 1e-11 * (1 + abs(g))
                if not ok:
                    bad += 1
                    if bad <= 3:
                        ctx.fail("model:lncdf", f"log_normal_cdf({z!r}) = {v!r} (grad {g!r}); generated branch `{tag}` gives "
                                 f"{unbits(vb)!r} (grad {unbits(gb)!r}); expected branch {want_tag}", {"kind": "lncdf", "z": z})
            ctx.notes["lncdf_branch_counts_lean"] = tags
        elif rec[0] == "W":
            _, z, v, g = rec
            mg = unbits(rep)
            ctx.count("lean_lncdf_comparisons")
            if not abs(mg - g) <= 1e-11 * (1 + abs(g)):
                bad += 1
                if bad <= 3:
                    ctx.fail("model:lncdf-backward", f"backward at z={z!r}: autograd {g!r}, generated not-small backward {mg!r}",
                             {"kind": "lncdf-grad", "z": z})
    ctx.count("lean_mismatches", bad)


# ------------------------------------------------------------------ (7) histories: repeated backward, one object under several dtypes / encodings

def _ask(batch, lines, handler):
    """send `lines` to the Lean driver and hand the replies to `handler` — now, or together with the other requests of
    this run when a `batch` list is given (one driver start-up instead of five)"""
    if not lines:
        return
    if batch is None:
        handler(C.run_driver("C13", lines))
    else:
        batch.append((lines, handler))


def _flush(batch):
    lines = [l for ls, _ in batch for l in ls]
    if not lines:
        return
    replies = C.run_driver("C13", lines)
    pos = 0
    for ls, handler in batch:
        handler(replies[pos:pos + len(ls)])
        pos += len(ls)


def check_backward_histories(ctx, want_driver=True, deep=False, batch=None):
    """ONE autograd graph through log_normal_cdf back-propagated several times (see _c13hist): every pass = g·phi/Phi."""
    from props import _c13hist as H
    rng = ctx.rng("backward-histories" + (":deep" if deep and ctx.quick else ""))
    recs_all = []
    for spec in H.gen_backward_specs(rng, deep):
        probs, recs = H.run_backward(spec)
        npass = len(spec["passes"])
        ctx.case(f"BH:{spec['graph']}:{npass}:{spec.get('dist', len(spec.get('shape', [])))}:" +
                 ",".join(p_.get("how", "+".join(p_.get("wrt", []))) for p_ in spec["passes"]),
                 sample={"graph": spec["graph"], "passes": npass})
        ctx.count("backward_history_graphs")
        ctx.count("backward_history_passes", npass)
        for key, what in probs[:2]:
            ctx.fail(key, what, spec)
        recs_all += recs
    if want_driver and recs_all:
        srng = ctx.rng("backward-histories:lean")
        sub = [r for r in recs_all if r[1] < -1 or r[1] * r[1] < 0.04 or srng.random() < 0.3]
        sub = srng.sample(sub, min(len(sub), 120 if ctx.quick else 1200))
        def handle(replies):
            bad = 0
            for (j, z, lp, unit), rep in zip(sub, replies):
                ctx.count("lean_backward_nth_comparisons")
                mg = unbits(rep)
                if not abs(mg - unit) <= 1e-11 * (1 + abs(unit)):
                    bad += 1
                    if bad <= 2:
                        ctx.broke("correspondence", "generated backward (k-th pass) vs implementation",
                                  f"backward pass #{j + 1} at z={z!r}: autograd returned {unit!r} per unit upstream gradient, the generated "
                                  f"`lncdfBackwardNth {j}` gives {mg!r}")
            ctx.count("lean_backward_nth_mismatches", bad)
        _ask(batch, [f"R {j} {bits(z)} {bits(lp)}" for j, z, lp, _ in sub], handle)


def check_object_histories(ctx, want_driver=True, deep=False, batch=None, only_setters=False):
    """ONE rule / likelihood object used under several dtypes, distribution kinds, observation batches and label encodings
    in sequence (see _c13hist): every float64 call is judged and no call may change the object."""
    from props import _c13hist as H
    rng = ctx.rng("object-histories" + (":deep" if deep and ctx.quick else ""))
    pend = []
    tot = {}
    for spec in (H.gen_setter_specs(rng, True) if only_setters else H.gen_object_specs(rng, deep)):
        probs, state, mreq, cnt = H.run_object(spec, _mp_logp)
        for k_, v_ in cnt.items():
            tot[k_] = tot.get(k_, 0) + v_
        ctx.case(f"OH:{spec['object']}:{spec['built_under']}:{spec['N']}:" +
                 ">".join(c_["op"][:4] + c_.get("way", "") + c_.get("hyper", "") + ":" + c_.get("dtype", "")[-2:] + ":" + c_.get("dist", "")[:2] + ":" + c_.get("enc", "") for c_ in spec["ops"]),
                 sample={"object": spec["object"], "built_under": spec["built_under"],
                         "ops": [c_["op"] + ("/" + c_["dtype"] if "dtype" in c_ else "") for c_ in spec["ops"]]})
        ctx.count("object_histories")
        for key, what in probs[:2]:
            ctx.fail(key, what, spec)
        for name, what in state[:1]:
            ctx.count("object_history_state_changes")
            if sum(1 for b_ in ctx.broken if b_[1] == f"instance-state-written:{name}") < 2:
                ctx.broke("correspondence", f"instance-state-written:{name}", what)
        if mreq:
            pend.append((spec, mreq))
    for k_, v_ in tot.items():
        ctx.count("object_history_" + k_, v_)
    # exact moments: from the Lean driver (ℚ); the python recursion only when the driver is unavailable
    lines = [f"M {C.rat_str(m)} {C.rat_str(v)} {K}" for _, mreq in pend for (m, v, K, _, _) in mreq]

    def handle(replies):
        pos = 0
        for spec, mreq in pend:
            moments = None
            if replies is not None:
                moments = [[C.parse_rat(t) for t in replies[pos + i].split()] for i in range(len(mreq))]
                pos += len(mreq)
            for key, what in H.judge_moments(spec, mreq, moments)[:1]:
                ctx.fail(key, what, spec)
    if want_driver:
        _ask(batch, lines, handle)
    else:
        handle(None)


def check_moment_equations(ctx, want_driver=True, batch=None):
    """The 2N moment equations (1/sqrt(pi))·Σ w_i t_i^k = M_k(0, 1/2), k < 2N, of the tables the objects really store:
    residual bounds certified exactly in ℚ by the driver (`momentResidualBound`, theorem `moment_residual_certified`)."""
    import numpy as np
    import torch
    from props import _c13hist as H
    from gpytorch.utils.quadrature import GaussHermiteQuadrature1D
    tables = []
    for dtype_name, Ns in (("float64", [5, 10, 20, 33, 40] + ([] if ctx.quick else [80])), ("float32", [5, 10, 20, 33])):
        torch.set_default_dtype(torch.float64 if dtype_name == "float64" else torch.float32)
        try:
            for N in Ns:
                q = GaussHermiteQuadrature1D(N)
                tables.append((dtype_name, N, q.locations.double().tolist(), q.weights.double().tolist()))
        finally:
            torch.set_default_dtype(torch.float32)
    def judge(res):
        worst = {}
        for (dtype_name, N, t, w), pairs in zip(tables, res):
            if len(pairs) != 2 * N:
                ctx.broke("correspondence", "driver:Q", f"N={N}: {len(pairs)} residuals for {2 * N} equations")
                continue
            for k, (bound, scale) in enumerate(pairs):
                # stated numeric bound: float64 tables 1e-12, float32-stored tables (k+2)·2^-22, relative to (1/sqrt(pi))·Σ|w||t|^k
                lim = 1e-12 if dtype_name == "float64" else (k + 2) * 2.0 ** -22
                ratio = float(bound / scale)
                ctx.case(f"Q:{dtype_name}:N{N}:k{k}", nontrivial=(k % 2 == 0),
                         sample={"dtype": dtype_name, "N": N, "k": k, "certified_residual_over_scale": ratio})
                worst[f"{dtype_name}:N={N}"] = max(worst.get(f"{dtype_name}:N={N}", 0.0), ratio)
                if not ratio <= lim:
                    ctx.fail("ghq:moment-equations", f"GaussHermiteQuadrature1D({N}) [{dtype_name} default dtype]: the stored table violates "
                             f"the moment equation of degree {k}: |(1/sqrt(pi))·Σ w t^{k} − M_{k}(0,1/2)| ≤ {float(bound):.3e} is the "
                             f"certified bound, i.e. {ratio:.2e} of the scale (limit {lim:.1e})",
                             {"kind": "moment-equations", "N": N, "dtype": dtype_name, "k": k})
                    break
        ctx.notes["ghq_moment_residual_certified_over_scale"] = worst

    if not want_driver:
        judge([H.moment_residuals_mirror(t, w) for _, _, t, w in tables])
        return

    def handle(replies):
        res = []
        for rep in replies[:-1]:
            tk = rep.split()
            res.append([(C.parse_rat(tk[2 * i]), C.parse_rat(tk[2 * i + 1])) for i in range(len(tk) // 2)])
        judge(res)
        rep = replies[-1]
        ctx.notes["generated_purity_facts"] = rep
        parts = [x.strip() for x in rep.split("|")]
        if not (len(parts) == 4 and parts[0] == "0" and set(parts[1].split()) <= {"0"} and parts[2] == "true" and parts[3] == "true true"):
            ctx.broke("correspondence", "generated purity facts", f"the regenerated code writes state / selects the label map by state: {rep}")
    _ask(batch, [f"Q {N} " + " ".join(f"{C.rat_str(a)} {C.rat_str(b)}" for a, b in zip(t, w)) for _, N, t, w in tables] + ["P"], handle)


def _stage(ctx, name, fn):
    """one stage of the correspondence; an exception (the implementation raising on a legal input, or the harness) is
    recorded and the remaining stages still run"""
    import traceback
    try:
        fn()
    except Exception as e:
        tb = traceback.format_exc()
        ctx.count("stage_errors")
        ctx.broke("correspondence", f"stage:{name}", tb)
        _state.setdefault("stage_errors", []).append((name, f"{type(e).__name__}: {str(e)[:200]}", "gpytorch/" in tb.replace(C.VERIF, "")))


def correspondence(ctx, want_driver=True):
    import torch
    torch.set_num_threads(2)
    torch.set_default_dtype(torch.float32)
    # construction histories run before anything else builds a likelihood in this process, and again at the end
    # (then every class has been constructed before under other settings)
    S = lambda name, fn: _stage(ctx, name, fn)
    if want_driver:
        try:
            C.run_driver("C13", ["P"])
        except Exception as e:      # the regenerated model no longer compiles / the driver dies: judge by the specification alone
            ctx.broke("correspondence", "driver", str(e)[-1500:])
            want_driver = False
    S("construction-histories", lambda: check_construction_histories(ctx, want_driver=want_driver))
    S("polynomials", lambda: check_poly(ctx, poly_cases(ctx), want_driver=want_driver))
    S("settings", lambda: check_settings(ctx))
    S("likelihood-integrals", lambda: check_likelihood_integrals(ctx))
    lines, lrecs = [], []
    S("bernoulli-marginal", lambda: check_bernoulli_marginal(ctx, lines, lrecs))
    S("bernoulli-log-marginal", lambda: check_bernoulli_log_marginal_sweep(ctx))
    S("call-histories", lambda: check_call_histories(ctx))
    S("conditionals", lambda: check_conditionals(ctx, lines, lrecs))
    S("log_normal_cdf", lambda: check_lncdf(ctx, lines, lrecs))
    batch = [] if want_driver else None
    if want_driver and lines:
        _ask(batch, lines, lambda replies: compare_lean(ctx, lrecs, replies))
    S("moment-equations", lambda: check_moment_equations(ctx, want_driver=want_driver, batch=batch))
    deep = not ctx.quick
    S("backward-histories", lambda: check_backward_histories(ctx, want_driver=want_driver, deep=deep, batch=batch))
    S("object-histories", lambda: check_object_histories(ctx, want_driver=want_driver, deep=deep, batch=batch))
    if want_driver:
        S("driver", lambda: _flush(batch))
    S("construction-histories-2", lambda: check_construction_histories(ctx, want_driver=want_driver))
    _state["ran"] = True


def search(ctx, broken):
    """Proof / translator / driver broke: every oracle above except the Lean-Float comparisons runs on the real code
    against exact or 30-digit references (the exact moments then come from the same recursion in Python Fractions)."""
    if ctx.failures:
        return
    if not _state.get("ran") or _state.get("stage_errors"):
        _state["stage_errors"] = []
        correspondence(ctx, want_driver=False)
    if ctx.failures:
        return
    # a purity fact / state observation broke: first exactly the class a cached value can hurt — use -> change a
    # hyper-parameter (every public way) -> use again, eval and train mode, judged with the current hyper-parameters
    if any(("Props" in str(b_[1]) or "purity" in str(b_[1]) or "state-written" in str(b_[1]) or b_[0] == "translator") for b_ in broken):
        check_object_histories(ctx, want_driver=False, deep=True, only_setters=True)
        if ctx.failures:
            return
    # deeper history programs (longer sequences, more passes, more dtype / encoding orders) against the specification
    check_backward_histories(ctx, want_driver=False, deep=True)
    check_object_histories(ctx, want_driver=False, deep=True)


def replay(ctx, payload):
    import torch
    case = payload["case"]
    k = case.get("kind")
    if k == "backward-history":
        from props import _c13hist as H
        return not any(key == payload["key"] for key, _ in H.run_backward(case)[0])
    if k == "object-history":
        from props import _c13hist as H
        probs, state, mreq, _ = H.run_object(case, _mp_logp)
        probs = probs + H.judge_moments(case, mreq, None)
        return not any(key == payload["key"] for key, _ in probs)
    if k == "lncdf-raised":
        from gpytorch.functions import log_normal_cdf
        z = torch.linspace(-3, 3, 7 * case["shape"][0], dtype=torch.float64).reshape(-1, 7).requires_grad_(True)
        try:
            log_normal_cdf(z).sum().backward()
            return True
        except Exception:
            return False
    if k == "moment-equations":
        sub = _Ctx2()
        check_moment_equations(sub, want_driver=False)
        return not any(f["key"] == payload["key"] for f in sub.failures)
    if k in ("call-history", "bernoulli-log-marginal"):
        sub = _Ctx2()
        (check_call_histories if k == "call-history" else check_bernoulli_log_marginal_sweep)(sub)
        return not any(f["key"] == payload["key"] for f in sub.failures)
    if k == "history":
        sub = _Ctx2()
        check_construction_histories(sub, want_driver=False, only=case["program"])
        return not any(f["key"] == payload["key"] for f in sub.failures)
    if k == "lncdf" or k == "lncdf-grad":
        import mpmath as mp
        from gpytorch.functions import log_normal_cdf
        mp.mp.dps = 30
        z = torch.tensor(float(case["z"]), dtype=torch.float64, requires_grad=True)
        y = log_normal_cdf(z)
        y.backward()
        ref = float(mp.log(mp.ncdf(mp.mpf(float(case["z"])))))
        gref = float(mp.npdf(mp.mpf(float(case["z"]))) / mp.ncdf(mp.mpf(float(case["z"]))))
        tol = 2e-3 if float(case["z"]) < -1 else 16 * EPS * max(1.0, abs(ref))
        tolg = 2e-3 if float(case["z"]) < -1 else 1e-12
        return abs(y.item() - ref) <= tol and abs(z.grad.item() - gref) / gref <= tolg
    if k == "ghq" and case.get("k") is not None:
        from fractions import Fraction
        from gpytorch.utils.quadrature import GaussHermiteQuadrature1D
        torch.set_default_dtype(torch.float64 if case["dtype"] == "float64" else torch.float32)
        try:
            q = GaussHermiteQuadrature1D(case["N"])
        finally:
            torch.set_default_dtype(torch.float32)
        m, v, kk = float(Fraction(case["m"])), float(Fraction(case["v"])), case["k"]
        dist = torch.distributions.Normal(torch.tensor(m, dtype=torch.float64), torch.tensor(v, dtype=torch.float64).sqrt(),
                                          validate_args=False)
        got = q(lambda x: x ** kk, dist).item()
        want = float(Fraction(_python_exact([f"M {case['m']} {case['v']} {kk}"])[0].split()[kk]))
        return abs(got - want) <= 1e-5 * (abs(want) + abs(m) ** kk + (2 * v) ** (kk / 2) * math.gamma((kk + 1) / 2) / math.sqrt(math.pi) + 1e-300)
    sub = _Ctx2()
    correspondence(sub, want_driver=False)
    return not any(f["key"] == payload["key"] for f in sub.failures)


class _Ctx2:
    def __init__(self):
        self.failures, self.notes, self.counters, self.distinct, self.broken = [], {}, {}, set(), []
        self.tier, self.quick = "quick", True
        self.evaluations = 0

    def rng(self, label=""):
        return C.Rng(f"C13:{label}")

    def case(self, desc, nontrivial=True, sample=None):
        self.evaluations += 1

    def count(self, name, k=1):
        self.counters[name] = self.counters.get(name, 0) + k

    def fail(self, key, what, replay):
        self.failures.append({"key": key, "what": what, "replay": replay})

    def broke(self, kind, name, detail=""):
        self.broken.append((kind, name, detail))

    def assumption(self, line):
        pass

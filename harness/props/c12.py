"""C12 — Gaussian-family likelihoods add exactly the specified noise (once) and integrate exactly.

Tie: translator G7 (harness/translate/g7_noise_models.py -> lean/GPVerif/Gen/NoiseModels.lean: decision structure and
closed-form expressions regenerated from the source on every run; `gen_*` theorems of Props/C12.lean prove them equal
to the specification; the driver executes the generated definitions) AND correspondence.  Real likelihood objects from $VERIF_REPO are called on random function
distributions; the noise operator R that the property specifies is computed exactly (in Q) by the Lean
model `GPVerif.Model.Noise` through `drivers/C12.lean` from the *actual* float64 parameter values, and

    likelihood(dist[, noise=...]).covariance_matrix  ==  marginal C R  (= C + R, exactly one R)
    expected_log_prob / log_marginal                 ==  closed forms (rational part exact + log)
    LikelihoodList(l1..)(d1..[, noise=[v1..]])[k]     ==  l_k(d_k[, noise=v_k])   (routing table from the model)

are compared per batch element.  The model output *is* the specification (Props/C12.lean), so a
disagreement beyond rounding is a property failure of the implementation (ctx.fail).
A pure-Python mirror of the driver protocol (`py_step`) cross-checks the driver on every line and is the
oracle of the failing-input search when the Lean side does not build.
"""
import contextlib
import itertools
import math
import struct
import time
import warnings
from fractions import Fraction

from lib import common as C

ID = "C12"
PROP_MODULES = ["GPVerif.Props.C12"]
BUILD_TARGETS = ["GPVerif.Props.C12", "GPVerif.Gen.NoiseModels", "GPVerif.Model.Noise", "GPVerif.Model.NoiseExtra",
                 "GPVerif.Model.Proto"]
RULE = ("structured grid over likelihood kind {Gaussian, FixedNoise, FixedNoise+learned} x call-time noise "
        "{none, same batch, own batch, stored-size mismatch} x batch shapes of likelihood / stored noise / "
        "distribution, and multitask {rank 0..t} x {global, task} switches x {interleaved, not} x batch shapes, "
        "plus LikelihoodList of 1..3 members with/without per-member noise and with length mismatches; sizes and "
        "all parameter values random per case. distinct = distinct (cell, seed); non-trivial = the noise operator "
        "is non-zero and the function covariance is a dense random SPD matrix")
TRUSTED = ["translator harness/translate/g7_noise_models.py (Python ast -> Lean decision / expression IR)",
           "pure-Python mirror of the driver protocol (harness/props/c12.py: py_step) — cross-checked against "
           "the Lean driver on every request line",
           "modelled not verified: torch broadcasting of batch shapes (the harness selects the parameter of "
           "each batch element with its own index arithmetic), linear_operator's to_dense / diagonal"]
ASSUMPTIONS = ["float64 only; noise >= 0.05 so that log_marginal's clamp_min(1e-8) is inactive",
               "multitask likelihoods whose batch shape cannot be expanded to the distribution's batch shape are "
               "rejected loudly by the implementation (torch expand error) — counted, not a violation",
               "expected_log_prob / log_marginal of multitask likelihoods: elementwise closed form with the "
               "diagonal of the task-noise block, summed over the task dimension (as the code documents)"]

GEN = None   # set in generate()


def generate(ctx):
    """Translator G7: regenerate Gen/NoiseModels.lean from $VERIF_REPO's working tree (branch order of the noise models,
    kwargs forwarded to the learned noise, Kronecker operand order, zip routing, closed-form expressions).  The
    theorems `gen_*` of Props/C12.lean are then re-checked against the regenerated definitions, and the driver runs them."""
    import os
    import sys
    sys.path.insert(0, os.path.join(C.VERIF, "harness"))
    from translate import g7_noise_models
    out = os.path.join(C.LEAN_DIR, "GPVerif", "Gen", "NoiseModels.lean")
    try:
        facts, changed = g7_noise_models.generate(C.REPO, out)
    except Exception:
        # broken tie: put the committed baseline back (and rebuild it) so that the driver used by the failing-input
        # search runs the specification-equal definitions, not a stale file from some other tree
        base = os.path.join(C.VERIF, "harness", "translate", "baselines", "NoiseModels.lean")
        if os.path.exists(base) and (not os.path.exists(out) or open(out).read() != open(base).read()):
            with open(out, "w") as fh:
                fh.write(open(base).read())
        C.lake_build(["GPVerif.Gen.NoiseModels"])
        raise
    ctx.notes["gen_changed"] = changed
    ctx.notes["gen_facts"] = facts


EPS = 2.0 ** -52
LOG2PI = math.log(2 * math.pi)


# ------------------------------------------------------------------ pure-Python mirror of drivers/C12.lean

def _show(rows):
    r = len(rows)
    c = len(rows[0]) if r else 0
    if r == 0:
        return "0 0 "
    return f"{r} {c} " + " ".join(C.rat_str(v) for row in rows for v in row)


def _bits(x):
    return struct.unpack("<Q", struct.pack("<d", x))[0]


def _unbits(n):
    return struct.unpack("<d", struct.pack("<Q", int(n)))[0]


def _diag(vals):
    n = len(vals)
    return [[vals[i] if i == j else Fraction(0) for j in range(n)] for i in range(n)]


def py_step(line):
    """Reply of the model for one request line, computed independently in Python (exact Fractions)."""
    ts = line.split()
    op, ts = ts[0], ts[1:]
    F = Fraction
    if op == "homo":
        n, s = int(ts[0]), F(ts[1])
        if ts[2] == "1":
            return _show(_diag([F(x) for x in ts[3:3 + n]]))
        return _show(_diag([s] * n))
    if op == "fixed":
        n, k = int(ts[0]), int(ts[1])
        stored = [F(x) for x in ts[2:2 + k]]
        p = 2 + k
        learned = None
        if ts[p] == "1":
            learned = F(ts[p + 1])
            p += 2
        else:
            p += 1
        if ts[p] == "1":
            base = [F(x) for x in ts[p + 1:p + 1 + n]]
        elif k == n:
            base = stored
        else:
            base = [F(0)] * n
        if learned is not None:
            base = [b + learned for b in base]
        return _show(_diag(base))
    if op == "mt":
        n, t, il = int(ts[0]), int(ts[1]), ts[2] == "1"
        p = 3
        D = None
        if ts[p] == "N":
            p += 1
        elif ts[p] == "D":
            D = _diag([F(x) for x in ts[p + 1:p + 1 + t]])
            p += 1 + t
        else:
            r = int(ts[p + 1])
            fl = [F(x) for x in ts[p + 2:p + 2 + t * r]]
            Fm = [fl[i * r:(i + 1) * r] for i in range(t)]
            D = [[sum(Fm[a][k] * Fm[b][k] for k in range(r)) for b in range(t)] for a in range(t)]
            p += 2 + t * r
        g = F(ts[p + 1]) if ts[p] == "G" else None
        N = n * t
        if D is None:
            return _show(_diag([g if g is not None else F(0)] * N))
        M = [[D[a][b] + (g if (g is not None and a == b) else 0) for b in range(t)] for a in range(t)]
        R = [[F(0)] * N for _ in range(N)]
        for i in range(n):
            for a in range(t):
                for b in range(t):
                    if il:
                        R[i * t + a][i * t + b] = M[a][b]
                    else:
                        R[a * n + i][b * n + i] = M[a][b]
        return _show(R)
    if op == "marg":
        Cm, p = C.parse_mat(ts, 0)
        Rm, p = C.parse_mat(ts, p)
        return _show([[a + b for a, b in zip(ra, rb)] for ra, rb in zip(Cm, Rm)])
    if op in ("elp", "lm"):
        y, m, v, r = (F(x) for x in ts)
        if op == "elp":
            q = ((y - m) * (y - m) + v) / r
            fy, fm, fv, fr = float(y), float(m), float(v), float(r)
            val = -(0.5 * (((fy - fm) * (fy - fm) + fv) / fr + math.log(fr) + LOG2PI))
            return f"{C.rat_str(q)} {_bits(val)}"
        q = ((y - m) * (y - m)) / (v + r)
        fy, fm, fv, fr = float(y), float(m), float(v), float(r)
        val = -(0.5 * (((fy - fm) * (fy - fm)) / (fv + fr) + math.log(fv + fr) + LOG2PI))
        return f"{C.rat_str(q)} {C.rat_str(v + r)} {_bits(val)}"
    if op == "route":
        nl, na, nn = int(ts[1]), int(ts[2]), int(ts[3])
        mask = ts[4] if len(ts) > 4 else ""
        if nl != na or (nn >= 0 and na != nn):
            return "none"

        def ent(k):     # what member k is called with: its own entry of the noise list (a tensor or None) — nothing else
            if nn < 0:
                return "N"
            return "None" if k < len(mask) and mask[k] == "0" else str(k)
        return " ".join(f"{k}:{k}:{ent(k)}" for k in range(nl))
    if op == "hetero":
        n, lb = int(ts[0]), float(F(ts[1]))
        if ts[2] == "1":
            d = [float(F(x)) for x in ts[3:3 + n]]
        else:
            d = [_softplus_lb(lb, float(F(x))) for x in ts[3:3 + n]]
        return " ".join(str(_bits(x)) for x in d) + " offdiag0"
    if op == "heterotask":
        t, k, lb = int(ts[0]), int(ts[1]), float(F(ts[2]))
        idx = [int(x) for x in ts[3:3 + k]]
        mu = [float(F(x)) for x in ts[3 + k:3 + k + t]]
        return " ".join(str(_bits(_softplus_lb(lb, mu[a]))) for a in idx)
    if op == "heteroprotocol":
        return "save-mode eval call finally:restore-mode"
    if op == "dir":
        eps, c, N = float(F(ts[0])), int(ts[1]), int(ts[2])
        ls = [int(x) for x in ts[3:3 + N]]
        return " ".join([str(_bits(_dir_sigma2(eps, l, c))) for l in ls] + [str(_bits(_dir_target(eps, l, c))) for l in ls])
    if op == "dirshaped":
        eps, ncs, c, N = float(F(ts[0])), int(ts[2]), int(ts[4]), int(ts[5])
        ls = [int(x) for x in ts[6:6 + N]]
        p = 6 + N
        learned = 0.0
        has_learned = ts[p] == "1"
        if has_learned:
            learned = float(F(ts[p + 1]))
            p += 2
        else:
            p += 1
        n = int(ts[p])
        if ts[p + 1] == "1":      # call-time labels: transformed like the training labels, with the likelihood's own eps
            base = [_dir_sigma2(eps, int(x), c) for x in ts[p + 2:p + 2 + n]]
        elif N == n:
            base = [_dir_sigma2(eps, l, c) for l in ls]
        else:
            base = [0.0] * n
        d = [b + learned for b in base] if has_learned else base
        return f"rows={ncs} " + " ".join(str(_bits(x)) for x in d) + " offdiag0"
    if op == "miss":
        which, yt = ts[0], ts[1]
        m, v, r = (F(x) for x in ts[2:5])
        if yt == "nan":
            return f"0 {_bits(0.0)}"
        y = F(yt)
        fy, fm, fv, fr = float(y), float(m), float(v), float(r)
        if which == "elp":
            q = ((y - m) * (y - m) + v) / r
            val = -(0.5 * (((fy - fm) * (fy - fm) + fv) / fr + math.log(fr) + LOG2PI))
        else:
            q = ((y - m) * (y - m)) / (v + r)
            val = -(0.5 * (((fy - fm) * (fy - fm)) / (fv + fr) + math.log(fv + fr) + LOG2PI))
        return f"{C.rat_str(q)} {_bits(val)}"
    if op == "getters":
        # specification: every public property getter of the four files is an observation (writes nothing)
        return " ".join(f"{g}:" for g in source_getters())
    return "bad-request"


def _softplus_lb(lb, x):
    """GreaterThan(lb).transform = softplus(x) + lb"""
    return math.log(1.0 + math.exp(x)) + lb


def _dir_sigma2(eps, label, c):
    """documented Dirichlet transformation: alpha = eps + [label = c];  sigma^2 = log(1/alpha + 1)"""
    a = eps + 1.0 if label == c else eps
    return math.log(1.0 / a + 1.0)


def _dir_target(eps, label, c):
    """y~ = log(alpha) - sigma^2 / 2"""
    a = eps + 1.0 if label == c else eps
    return math.log(a) - 0.5 * math.log(1.0 / a + 1.0)


_C12_MODULES = ("noise_models", "gaussian_likelihood", "multitask_gaussian_likelihood", "likelihood_list")


def source_getters():
    """`Class.name` of every @property of every class defined in the four modules (by introspection of the imported
    package — independent of the translator's ast scan)."""
    import importlib
    out = []
    for m in _C12_MODULES:
        mod = importlib.import_module("gpytorch.likelihoods." + m)
        for cname, cls in vars(mod).items():
            if isinstance(cls, type) and cls.__module__ == mod.__name__:
                out += [f"{cname}.{k}" for k, v in vars(cls).items() if isinstance(v, property)]
    return sorted(set(out))


def _same_reply(a, b):
    ta, tb = a.split(), b.split()
    if len(ta) != len(tb):
        return False
    for x, y in zip(ta, tb):
        if x == y:
            continue
        # float bit patterns (elp / lm last token) may differ by libm rounding
        try:
            fx, fy = _unbits(x), _unbits(y)
        except Exception:
            return False
        if not (abs(fx - fy) <= 1e-13 * (1 + abs(fx))):
            return False
    return True


class Oracle:
    """Evaluates request lines with the Lean driver (cross-checked against py_step) or, in search mode, with
    py_step alone."""

    def __init__(self, ctx, use_driver=True):
        self.ctx, self.use_driver = ctx, use_driver

    def __call__(self, lines):
        if not lines:
            return []
        py = [py_step(l) for l in lines]
        if not self.use_driver:
            return py
        t0 = time.time()
        rep = C.run_driver("C12", lines)
        self.ctx.notes["driver_seconds"] = round(self.ctx.notes.get("driver_seconds", 0.0) + time.time() - t0, 1)
        bad = 0
        for k, (l, a, b) in enumerate(zip(lines, rep, py)):
            if not _same_reply(a, b):
                bad += 1
                rep[k] = b    # the mirror is the specification: the implementation is judged against it
                if bad <= 3:
                    self.ctx.broke("correspondence", "driver-vs-python-mirror:" + l.split()[0],
                                   f"request `{l[:200]}`\nlean:   {a[:200]}\npython: {b[:200]}")
        self.ctx.count("driver_lines", len(lines))
        self.ctx.count("driver_python_mismatches", bad)
        return rep


# ------------------------------------------------------------------ helpers

def bshape(*shapes):
    """numpy/torch broadcast of batch shapes, computed here (not by torch)."""
    k = max((len(s) for s in shapes), default=0)
    out = []
    for d in range(k):
        sz = 1
        for s in shapes:
            j = d - (k - len(s))
            if j >= 0 and s[j] != 1:
                if sz != 1 and sz != s[j]:
                    raise ValueError(f"shapes not broadcastable: {shapes}")
                sz = s[j]
        out.append(sz)
    return tuple(out)


def bidx(shape, out_idx):
    """Index into a tensor of batch shape `shape` for the broadcast output index `out_idx`."""
    k = len(out_idx)
    return tuple(0 if shape[j] == 1 else out_idx[j + (k - len(shape))] for j in range(len(shape)))


def all_idx(shape):
    return list(itertools.product(*[range(s) for s in shape]))


def rs(v):
    return " ".join(C.rat_str(x) for x in v)


def _spd(torch, batch, n, gen):
    A = torch.randn(*batch, n, n, generator=gen, dtype=torch.float64)
    return A @ A.transpose(-1, -2) / n + 0.3 * torch.eye(n, dtype=torch.float64)


def _pos(torch, shape, gen, lo=0.05, hi=1.5):
    return lo + (hi - lo) * torch.rand(*shape, generator=gen, dtype=torch.float64)


class Case:
    """One correspondence case: stage1 lines (noise operators), stage2 lines (marginal, closed forms)."""

    def __init__(self, cfg):
        self.cfg = cfg
        self.fails = []      # (key, what)
        self.rejected = None
        self.l1, self.l2 = [], []
        self.after1, self.after2 = None, None
        self.nontrivial = True

    def fail(self, key, what):
        if len(self.fails) < 4:
            self.fails.append((key, what))


def _cmp_matrix(case, key, what, got, exact_rows, scale):
    """got: nested float lists; exact_rows: Fractions."""
    tol = 1e-12 * (1.0 + scale)
    worst, at = 0.0, None
    for i, (gr, er) in enumerate(zip(got, exact_rows)):
        for j, (g, e) in enumerate(zip(gr, er)):
            d = abs(C.frac(g) - e)
            if d > worst:
                worst, at = float(d), (i, j, g, float(e))
    if worst > tol:
        case.fail(key, f"{what}: max |impl - exact| = {worst:.3e} (tol {tol:.1e}) at [{at[0]},{at[1]}]: "
                       f"impl {at[2]!r} exact {at[3]!r}")
        return False
    return True


def _closed(kind, y, m, v, r):
    """closed form evaluated from exact inputs: rational polynomial part (exact) + Python log."""
    y, m, v, r = (C.frac(x) for x in (y, m, v, r))
    if kind == "elp":
        q = ((y - m) ** 2 + v) / r
        return -0.5 * (float(q) + math.log(r) + LOG2PI), abs(float(q)) + abs(math.log(r)) + LOG2PI
    s = v + r
    q = (y - m) ** 2 / s
    return -0.5 * (float(q) + math.log(s) + LOG2PI), abs(float(q)) + abs(math.log(s)) + LOG2PI


def _check_handed(torch, case, handed, cell):
    """tensors the caller handed to the likelihood (constructor / setter arguments, call-time noise, distribution, targets)
    must be bit-for-bit what they were: `handed` = [(label, the tensor object handed in, an independent clone)]."""
    for label, t, ref in handed:
        if t.shape != ref.shape or not torch.equal(t, ref):
            d = float((t.detach() - ref).abs().max()) if t.shape == ref.shape else float("nan")
            case.fail(f"mutates-input:{cell}:{label.split('`')[1] if '`' in label else label}",
                      f"the caller's tensor ({label}) was modified in place (max |after - before| = {d:.3e})")


# ------------------------------------------------------------------ single-output likelihoods

def build_single(cfg):
    """Returns (lik, params) with params the actual float64 tensors the likelihood holds."""
    import torch
    import gpytorch
    gen = torch.Generator().manual_seed(cfg["seed"])
    n, lb = cfg["n"], tuple(cfg["lb"])
    with warnings.catch_warnings():
        warnings.simplefilter("ignore")
        if cfg["kind"] == "gauss":
            lik = gpytorch.likelihoods.GaussianLikelihood(batch_shape=torch.Size(lb)).double()
            lik.noise = _pos(torch, (*lb, 1), gen)
            P = {"sigma2": lik.noise.detach().clone(), "stored": None}
        else:
            learned = cfg["kind"] == "fixed+learned"
            stored = _pos(torch, (*cfg["nb"], cfg["nstored"]), gen)
            handed = stored.clone()      # the caller's tensor: the likelihood keeps a reference to it, so it must stay intact
            lik = gpytorch.likelihoods.FixedNoiseGaussianLikelihood(
                noise=handed, learn_additional_noise=learned, batch_shape=torch.Size(lb)).double()
            P = {"stored": stored.clone(), "sigma2": None, "_ctor": [("constructor argument `noise`", handed, stored)]}
            if learned:
                lik.second_noise = _pos(torch, (*lb, 1), gen)
                P["sigma2"] = lik.second_noise_covar.noise.detach().clone()
    call = None
    if cfg["call"] is not None:
        call = _pos(torch, (*cfg["call"], n), gen)
    P["call"] = call
    return lik, P, gen


def _sel(T, oi, used, last=1):
    """Element of parameter tensor T (batch dims = all but the last `last`) for output batch index `oi`;
    a parameter the configuration does not use has a batch that is not part of `oi`: take its first element."""
    b = tuple(T.shape[:-last])
    if not used:
        return T.reshape(-1, *T.shape[-last:])[0]
    return T[bidx(b, oi)]


def single_noise_line(cfg, P, oi):
    """Request line for the noise operator of output batch element `oi`."""
    n = cfg["n"]
    has_call = P["call"] is not None
    cl = ("1 " + rs(_sel(P["call"], oi, True).tolist())) if has_call else "0"
    if cfg["kind"] == "gauss":
        s = _sel(P["sigma2"], oi, not has_call)[0].item()
        return f"homo {n} {C.rat_str(s)} {cl}"
    st = _sel(P["stored"], oi, (not has_call) and P["stored"].shape[-1] == n).tolist()
    if P["sigma2"] is not None:
        le = f"1 {C.rat_str(_sel(P['sigma2'], oi, True)[0].item())}"
    else:
        le = "0"
    return f"fixed {n} {len(st)} {rs(st)} {le} {cl}"


def single_out_batch(cfg, P):
    shapes = [tuple(cfg["db"])]
    if P["call"] is not None:
        shapes.append(tuple(P["call"].shape[:-1]))
    elif cfg["kind"] != "gauss":
        if P["stored"].shape[-1] == cfg["n"]:
            shapes.append(tuple(P["stored"].shape[:-1]))
    if cfg["kind"] == "gauss" and P["call"] is None:
        shapes.append(tuple(P["sigma2"].shape[:-1]))
    if cfg["kind"] == "fixed+learned":
        shapes.append(tuple(P["sigma2"].shape[:-1]))
    return bshape(*shapes)


def variant_of(cfg):
    if cfg.get("fam") == "mt":
        return f"rank{min(cfg['rank'], 1)}:{'g' if cfg['g'] else ''}{'t' if cfg['tk'] else ''}:" \
               f"{'interleaved' if cfg['il'] else 'noninterleaved'}"
    v = "calltime" if cfg["call"] is not None else "stored"
    if cfg["kind"] != "gauss" and cfg["nstored"] != cfg["n"]:
        v += "-sizemismatch"
    return v


def run_single(cfg):
    import torch
    import gpytorch
    case = Case(cfg)
    n, db = cfg["n"], tuple(cfg["db"])
    lik, P, gen = build_single(cfg)
    if P["call"] is not None and cfg.get("zero_noise"):
        # legal but unusual: call-time noise entries that are exactly 0.0
        P["call"] = P["call"] * (torch.rand(P["call"].shape, generator=gen, dtype=torch.float64) > 0.4)
    covkind = cfg.get("cov", "dense")
    if covkind == "diag":        # lazily represented covariances of the function distribution
        from linear_operator.operators import DiagLinearOperator
        cov_in = DiagLinearOperator(_pos(torch, (*db, n), gen, 0.2, 2.0))
    elif covkind == "lazy":      # a dense matrix wrapped as a LinearOperator
        from linear_operator import to_linear_operator
        cov_in = to_linear_operator(_spd(torch, db, n, gen))
    elif covkind == "root":      # non-square root: n x k with k != n (rank deficient when k < n)
        from linear_operator.operators import RootLinearOperator
        k = cfg.get("rootk", max(1, n - 1))
        cov_in = RootLinearOperator(torch.randn(*db, n, k, generator=gen, dtype=torch.float64))
    else:
        cov_in = _spd(torch, db, n, gen)
    Cm = cov_in.to_dense().clone() if covkind != "dense" else cov_in.clone()
    mean = torch.randn(*db, n, generator=gen, dtype=torch.float64)
    y = mean + torch.randn(*db, n, generator=gen, dtype=torch.float64)
    fsamp = torch.randn(*db, n, generator=gen, dtype=torch.float64)
    dist = gpytorch.distributions.MultivariateNormal(mean, cov_in)
    kw = {} if P["call"] is None else {"noise": P["call"]}
    call_before = None if P["call"] is None else P["call"].clone()
    kind, var = cfg["kind"], variant_of(cfg)
    ob = single_out_batch(cfg, P)
    idxs = all_idx(ob)
    case.nontrivial = not (kind == "fixed" and P["call"] is None and cfg["nstored"] != n)
    obs = {}
    with warnings.catch_warnings():
        warnings.simplefilter("ignore")
        # the call-time kwargs go through every public entry point: __call__ (-> marginal), marginal itself,
        # expected_log_prob, log_marginal, and the conditional p(y | f) (__call__ on a tensor -> forward)
        for name, fn in (("marginal", lambda: lik(dist, **kw)),
                         ("marginal_direct", lambda: lik.marginal(dist, **kw)),
                         ("expected_log_prob", lambda: lik.expected_log_prob(y, dist, **kw)),
                         ("log_marginal", lambda: lik.log_marginal(y, dist, **kw)),
                         ("conditional", lambda: lik(fsamp, **kw)),
                         ("marginal_again", lambda: lik(dist, **kw))):
            if name in ("expected_log_prob", "conditional") and not case.nontrivial:
                continue
            if name == "conditional" and cfg.get("zero_noise"):
                continue   # p(y | f) with a zero variance is degenerate (torch rejects scale = 0)   # documented no-op: R = 0, so log N(y | f, R) is undefined (theorem needs r > 0)
            try:
                obs[name] = fn()
            except Exception as e:  # the model accepts every generated single-output configuration
                case.fail(f"raises:{kind}:{var}:{name}", f"{name} raised {type(e).__name__}: {str(e)[:200]}")
        # nothing handed in may be modified in place
        if not torch.equal(cov_in if covkind == "dense" else cov_in.to_dense(), Cm) or \
                (call_before is not None and not torch.equal(P["call"], call_before)):
            case.fail(f"mutates-input:{kind}:{var}", "a likelihood call changed the function distribution's covariance or "
                                                     "the call-time noise tensor in place")
        _check_handed(torch, case, P.get("_ctor", []), f"{kind}:{var}")
    case.l1 = [single_noise_line(cfg, P, oi) for oi in idxs]

    def after1(rep1):
        Rs = [C.parse_mat(r.split())[0] for r in rep1]
        lines2, todo = [], []
        for entry in ("marginal", "marginal_direct", "marginal_again"):
            if entry not in obs:
                continue
            out = obs[entry]
            cov = out.covariance_matrix.detach()
            full = bshape(tuple(cov.shape[:-2]), ob)
            if tuple(out.mean.shape[-1:]) != (n,) or not torch.equal(
                    out.mean.detach().expand(*bshape(tuple(out.mean.shape[:-1]), db), n),
                    mean.expand(*bshape(tuple(out.mean.shape[:-1]), db), n)):
                case.fail(f"mean:{kind}:{var}", f"{entry} changed the mean")
            for oi in all_idx(full):
                Ci = Cm[bidx(db, oi)]
                lines2.append(f"marg {C.mat_tokens(Ci)} {_show(Rs[idxs.index(bidx(ob, oi))])}")
                todo.append(("marg", (entry, oi), cov[bidx(tuple(cov.shape[:-2]), oi)].tolist(), Ci))
        if "conditional" in obs:
            o = obs["conditional"]
            var_ = o.scale.detach() ** 2
            try:
                full = bshape(tuple(var_.shape[:-1]), ob)
                if var_.shape[-1] != n or not torch.equal(o.loc.detach().expand(*bshape(tuple(o.loc.shape[:-1]), db), n),
                                                          fsamp.expand(*bshape(tuple(o.loc.shape[:-1]), db), n)):
                    raise ValueError("location / event size")
                for oi in all_idx(full):
                    R = Rs[idxs.index(bidx(ob, oi))]
                    got = var_[bidx(tuple(var_.shape[:-1]), oi)].tolist()
                    for e, g in enumerate(got):
                        if not abs(g - float(R[e][e])) <= 1e-12 * (1 + abs(g)):
                            case.fail(f"conditional:{kind}:{var}", f"likelihood(f{', noise=v' if kw else ''}) at {oi}: "
                                      f"variance[{e}] = {g!r}, noise operator diagonal {float(R[e][e])!r}")
            except ValueError as e:
                case.fail(f"conditional:{kind}:{var}", f"conditional distribution has the wrong shape: {e}")
        # closed forms: all elements against the exact-rational closed form; a sample also through Lean Float
        for name, short in (("expected_log_prob", "elp"), ("log_marginal", "lm")):
            if name not in obs:
                continue
            val = obs[name].detach()
            full = bshape(tuple(val.shape[:-1]), ob)
            if val.shape[-1] != n:
                case.fail(f"{short}:{kind}:{var}", f"{name} has shape {tuple(val.shape)}, event size {n}")
                continue
            k = 0
            for oi in all_idx(full):
                R = Rs[idxs.index(bidx(ob, oi))]
                Ci, mi, yi = Cm[bidx(db, oi)], mean[bidx(db, oi)], y[bidx(db, oi)]
                vi = val[bidx(tuple(val.shape[:-1]), oi)]
                for e in range(n):
                    if (short == "elp" and R[e][e] == 0) or C.frac(Ci[e, e].item()) + R[e][e] <= 0:
                        continue      # r = 0: log N(y | f, 0) is not defined (hypothesis r > 0 of the theorem)
                    exp, mag = _closed(short, yi[e].item(), mi[e].item(), Ci[e, e].item(), R[e][e])
                    got = vi[e].item()
                    if not abs(got - exp) <= 1e-11 * (1 + mag):
                        case.fail(f"{short}:{kind}:{var}",
                                  f"{name}[{oi},{e}] = {got!r}, closed form {exp!r} (y={yi[e].item()!r}, "
                                  f"m={mi[e].item()!r}, v={Ci[e, e].item()!r}, r={float(R[e][e])!r})")
                    if k < 2:
                        k += 1
                        lines2.append(f"{short} {C.rat_str(yi[e].item())} {C.rat_str(mi[e].item())} "
                                      f"{C.rat_str(Ci[e, e].item())} {C.rat_str(R[e][e])}")
                        todo.append((short, (oi, e), got, None))
        case.l2 = lines2

        def after2(rep2):
            for (what, where, got, Ci), rep in zip(todo, rep2):
                if what == "marg":
                    exact, _ = C.parse_mat(rep.split())
                    scale = max(abs(float(v)) for row in exact for v in row)
                    _cmp_matrix(case, f"marginal:{kind}:{var}",
                                f"{ {'marginal': 'likelihood(dist', 'marginal_direct': 'likelihood.marginal(dist', 'marginal_again': 'second likelihood(dist'}[where[0]]}"
                                f"{', noise=v' if kw else ''}).covariance_matrix, batch element {where[1]}",
                                got, exact, scale)
                else:
                    toks = rep.split()
                    lean = _unbits(toks[-1])
                    if not abs(got - lean) <= 1e-11 * (1 + abs(lean) + abs(float(Fraction(toks[0])))):
                        case.fail(f"{what}:{kind}:{var}", f"{what} at {where}: impl {got!r}, Lean Float closed form {lean!r}")
        case.after2 = after2
    case.after1 = after1
    return case


# ------------------------------------------------------------------ multitask likelihoods

def build_mt(cfg):
    import torch
    import gpytorch
    gen = torch.Generator().manual_seed(cfg["seed"])
    t, lb, rank = cfg["t"], tuple(cfg["lb"]), cfg["rank"]
    with warnings.catch_warnings():
        warnings.simplefilter("ignore")
        torch.manual_seed(cfg["seed"])
        lik = gpytorch.likelihoods.MultitaskGaussianLikelihood(
            num_tasks=t, rank=rank, batch_shape=torch.Size(lb), has_global_noise=cfg["g"],
            has_task_noise=cfg["tk"]).double()
        P = {"sigma2": None, "d": None, "F": None}
        if cfg["g"]:
            lik.noise = _pos(torch, (*lb, 1), gen)
            P["sigma2"] = lik.noise.detach().clone()
        if cfg["tk"]:
            if rank == 0:
                lik.task_noises = _pos(torch, (*lb, t), gen)
                P["d"] = lik.task_noises.detach().clone()
            else:
                with torch.no_grad():
                    lik.task_noise_covar_factor.copy_(torch.randn(*lb, t, rank, generator=gen, dtype=torch.float64))
                P["F"] = lik.task_noise_covar_factor.detach().clone()
    return lik, P, gen


def mt_noise_line(cfg, P, oi, interleaved):
    n, t = cfg["n"], cfg["t"]
    if P["d"] is not None:
        task = "D " + rs(P["d"][bidx(tuple(P["d"].shape[:-1]), oi)].tolist())
    elif P["F"] is not None:
        Fm = P["F"][bidx(tuple(P["F"].shape[:-2]), oi)]
        task = f"R {Fm.shape[-1]} " + rs(Fm.reshape(-1).tolist())
    else:
        task = "N"
    if P["sigma2"] is not None:
        g = "G " + C.rat_str(P["sigma2"][bidx(tuple(P["sigma2"].shape[:-1]), oi)][0].item())
    else:
        g = "N"
    return f"mt {n} {t} {1 if interleaved else 0} {task} {g}"


def run_mt(cfg):
    import torch
    import gpytorch
    case = Case(cfg)
    n, t, db, lb, il = cfg["n"], cfg["t"], tuple(cfg["db"]), tuple(cfg["lb"]), cfg["il"]
    N = n * t
    lik, P, gen = build_mt(cfg)
    if cfg.get("cov") == "kron":     # Kronecker-structured function covariance (the SumKronecker path of `marginal`)
        from linear_operator.operators import KroneckerProductLinearOperator
        from linear_operator import to_linear_operator
        An, Bt = _spd(torch, db, n, gen), _spd(torch, db, t, gen)
        cov_in = KroneckerProductLinearOperator(*(map(to_linear_operator, (An, Bt) if il else (Bt, An))))
        Cm = cov_in.to_dense().clone()
    else:
        cov_in = _spd(torch, db, N, gen)
        Cm = cov_in.clone()
    mean = torch.randn(*db, n, t, generator=gen, dtype=torch.float64)
    y = mean + torch.randn(*db, n, t, generator=gen, dtype=torch.float64)
    dist = gpytorch.distributions.MultitaskMultivariateNormal(mean, cov_in, interleaved=il)
    var = variant_of(cfg)
    ob = bshape(db, lb)
    idxs = all_idx(ob)
    # the implementation expands the likelihood parameters *to* the distribution's batch shape
    expandable = True
    try:
        expandable = bshape(db, lb) == db
    except ValueError:
        expandable = False
    obs = {}
    with warnings.catch_warnings():
        warnings.simplefilter("ignore")
        for name, fn in (("marginal", lambda: lik(dist)),
                         ("expected_log_prob", lambda: lik.expected_log_prob(y, dist)),
                         ("log_marginal", lambda: lik.log_marginal(y, dist))):
            try:
                obs[name] = fn()
            except Exception as e:
                if not expandable and cfg["tk"] and isinstance(e, RuntimeError) and "expand" in str(e).lower():
                    case.rejected = "multitask likelihood batch not expandable to distribution batch"
                else:
                    case.fail(f"raises:multitask:{var}:{name}", f"{name} raised {type(e).__name__}: {str(e)[:200]}")
    if not obs:
        return case
    # stage 1: R in the distribution's layout (marginal) and in the interleaved layout (closed forms use it)
    case.l1 = [mt_noise_line(cfg, P, oi, il) for oi in idxs] + [mt_noise_line(cfg, P, oi, True) for oi in idxs]

    def flat(i, a):
        return i * t + a if il else a * n + i

    def after1(rep1):
        k = len(idxs)
        Rs = [C.parse_mat(r.split())[0] for r in rep1[:k]]
        Ri = [C.parse_mat(r.split())[0] for r in rep1[k:]]
        lines2, todo = [], []
        if "marginal" in obs:
            out = obs["marginal"]
            cov = out.covariance_matrix.detach()
            if out._interleaved != il:
                case.fail(f"layout:multitask:{var}", "marginal changed the interleaving flag")
            full = bshape(tuple(cov.shape[:-2]), ob)
            for oi in all_idx(full):
                Ci = Cm[bidx(db, oi)]
                lines2.append(f"marg {C.mat_tokens(Ci)} {_show(Rs[idxs.index(bidx(ob, oi))])}")
                todo.append(("marg", oi, cov[bidx(tuple(cov.shape[:-2]), oi)].tolist(), None))
        for name, short in (("expected_log_prob", "elp"), ("log_marginal", "lm")):
            if name not in obs:
                continue
            val = obs[name].detach()
            if val.shape[-1] != n:
                case.fail(f"{short}:multitask:{var}", f"{name} has shape {tuple(val.shape)}, expected (..., {n})")
                continue
            full = bshape(tuple(val.shape[:-1]), ob)
            for oi in all_idx(full):
                R = Ri[idxs.index(bidx(ob, oi))]
                Ci, mi, yi = Cm[bidx(db, oi)], mean[bidx(db, oi)], y[bidx(db, oi)]
                vi = val[bidx(tuple(val.shape[:-1]), oi)]
                for i in range(n):
                    exp, mag = 0.0, 0.0
                    for a in range(t):
                        e1, m1 = _closed(short, yi[i, a].item(), mi[i, a].item(), Ci[flat(i, a), flat(i, a)].item(),
                                         R[i * t + a][i * t + a])
                        exp += e1
                        mag += m1
                    got = vi[i].item()
                    if not abs(got - exp) <= 1e-11 * (1 + mag):
                        case.fail(f"{short}:multitask:{var}",
                                  f"{name}[{oi},{i}] = {got!r}, sum over tasks of the closed form = {exp!r}")
        case.l2 = lines2

        def after2(rep2):
            for (what, where, got, _), rep in zip(todo, rep2):
                exact, _ = C.parse_mat(rep.split())
                scale = max(abs(float(v)) for row in exact for v in row)
                _cmp_matrix(case, f"marginal:multitask:{var}",
                            f"multitask likelihood(dist).covariance_matrix, batch element {where}", got, exact, scale)
        case.after2 = after2
    case.after1 = after1
    return case


# ------------------------------------------------------------------ LikelihoodList

def run_list(cfg):
    """LikelihoodList.__call__ / forward.  `container`: how the per-member noises are passed — a list, a tuple, or ONE
    stacked tensor (k x n, or k x b x n for batched members) whose row i belongs to member i (the code iterates the
    `noise` argument, so a stacked tensor is an iterable of its rows).  Members may carry a batch shape (also b == k)."""
    import torch
    import gpytorch
    case = Case(cfg)
    members = cfg["members"]
    container = cfg.get("container", "list")
    liks, Ps, dists, Cs, means, samples = [], [], [], [], [], []
    for m in members:
        lik, P, gen = build_single(m)
        db = tuple(m["db"])
        liks.append(lik)
        Ps.append(P)
        Cm = _spd(torch, db, m["n"], gen)
        mean = torch.randn(*db, m["n"], generator=gen, dtype=torch.float64)
        Cs.append(Cm)
        means.append(mean)
        dists.append(gpytorch.distributions.MultivariateNormal(mean, Cm))
        samples.append(torch.randn(*db, m["n"], generator=gen, dtype=torch.float64))
    ll = gpytorch.likelihoods.LikelihoodList(*liks)
    nl = len(liks)
    na = cfg["nargs"]
    nn = cfg["nnoise"]      # -1: no noise kwarg
    args = (dists if cfg["method"] == "call" else samples)[:na]
    while len(args) < na:   # lengths beyond the members re-use the last one
        args = args + [args[-1]]
    kw = {}
    none_at = sorted(set(cfg.get("none_at", [])))     # positions of the noise list whose entry is `None`
    handed = [h for P in Ps for h in P.get("_ctor", [])]
    if nn >= 0:
        noises = [P["call"] for P in Ps][:nn]
        while len(noises) < nn:
            noises.append(noises[-1])
        handed += [(f"call-time `noise[{k}]`", v, v.clone()) for k, v in enumerate(noises) if k not in none_at]
        noises = [None if k in none_at else v for k, v in enumerate(noises)]
        if container == "tuple":
            noises = tuple(noises)
        elif container == "stacked":
            noises = torch.stack(noises)
        kw["noise"] = noises
    err = None
    out = None
    with warnings.catch_warnings():
        warnings.simplefilter("ignore")
        try:
            out = ll(*args, **kw) if cfg["method"] == "call" else ll.forward(*args, **kw)
        except Exception as e:
            err = e
        # a `None` entry means: the member is called with noise=None.  GaussianLikelihood(…, noise=None) itself raises
        # (loud); then the list must raise too — counted as rejected by the real code, judged when it does not raise
        if err is not None and nn >= 0:
            for k in none_at:
                if k < nl and k < len(args):
                    try:
                        a = args[k] if isinstance(args[k], tuple) else (args[k],)
                        (liks[k] if cfg["method"] == "call" else liks[k].forward)(*a, noise=None)
                    except Exception as e2:
                        if type(e2) is type(err) and str(e2) == str(err):
                            case.rejected = f"{type(liks[k]).__name__}(…, noise=None) raises {type(e2).__name__}"
    mask = "".join("0" if k in none_at else "1" for k in range(max(nn, 0)))
    case.l1 = [f"route {cfg['method']} {nl} {na} {nn}" + (f" {mask}" if none_at else "")]
    obs, offs = [], []
    for k, (m, P) in enumerate(zip(members, Ps)):
        Pk = dict(P)
        if nn < 0 or k in none_at:
            Pk["call"] = None
        ob = single_out_batch(m, Pk)
        obs.append(ob)
        offs.append(len(case.l1))
        case.l1 += [single_noise_line(m, Pk, oi) for oi in all_idx(ob)]
    _check_handed(torch, case, handed, "likelihoodlist")
    tagc = "plain" if nn < 0 else ("noise" if container == "list" else "noise-" + container)
    if none_at:
        tagc += "-with-None"
    key = f"likelihoodlist:{cfg['method']}:{tagc}"
    how = {"list": "noise=[...]", "tuple": "noise=(...)", "stacked": "noise=<stacked tensor, row i for member i>"}[container]
    if none_at:
        how = "noise=" + ("(" if container == "tuple" else "[") + ", ".join(
            "None" if k in none_at else f"v{k}" for k in range(nn)) + (")" if container == "tuple" else "]")

    def after1(rep1):
        table = rep1[0]
        if case.rejected:
            return
        if table == "none":
            if err is None:
                case.fail(key + ":length-mismatch", f"{nl} members, {na} argument tuples, {nn} noises: the call "
                          "did not raise although the zip is undefined")
            return
        if err is not None:
            case.fail(key, f"LikelihoodList.{'__call__' if cfg['method'] == 'call' else 'forward'}"
                           f"({na} args{', ' + how if nn >= 0 else ''}) raised {type(err).__name__}: {str(err)[:160]}")
            return
        routes = [tuple(x.split(":")) for x in table.split()]
        if len(out) != len(routes):
            case.fail(key, f"{len(out)} outputs for {len(routes)} members")
            return
        lines2, todo = [], []
        for k, (li, ai, ni) in enumerate(routes):
            li, ai = int(li), int(ai)
            ob, db = obs[li], tuple(members[ai]["db"])
            oidx = all_idx(ob)
            Rs = [C.parse_mat(rep1[offs[li] + q].split())[0] for q in range(len(oidx))]
            n = members[ai]["n"]
            try:
                if cfg["method"] == "call":
                    mo = out[k].mean.detach()
                    mb = bshape(tuple(mo.shape[:-1]), db)
                    if mo.shape[-1] != n or not torch.equal(mo.expand(*mb, n), means[ai].expand(*mb, n)):
                        case.fail(key, f"output {k} does not carry the mean of argument {ai}")
                    cov = out[k].covariance_matrix.detach()
                    full = bshape(tuple(cov.shape[:-2]), ob)
                    for oi in all_idx(full):
                        lines2.append(f"marg {C.mat_tokens(Cs[ai][bidx(db, oi)])} {_show(Rs[oidx.index(bidx(ob, oi))])}")
                        todo.append((k, oi, cov[bidx(tuple(cov.shape[:-2]), oi)].tolist()))
                else:
                    o = out[k]
                    lo = o.loc.detach()
                    mb = bshape(tuple(lo.shape[:-1]), db)
                    if lo.shape[-1] != n or not torch.equal(lo.expand(*mb, n), samples[ai].expand(*mb, n)):
                        case.fail(key, f"forward output {k} is not centred at function sample {ai}")
                    var = o.scale.detach() ** 2
                    full = bshape(tuple(var.shape[:-1]), ob)
                    if var.shape[-1] != n:
                        raise ValueError(f"variance has event size {var.shape[-1]}, expected {n}")
                    for oi in all_idx(full):
                        R = Rs[oidx.index(bidx(ob, oi))]
                        got = var[bidx(tuple(var.shape[:-1]), oi)].tolist()
                        for e, g in enumerate(got):
                            if not abs(g - float(R[e][e])) <= 1e-12 * (1 + abs(g)):
                                case.fail(key, f"forward output {k}{list(oi)}: variance[{e}] = {g!r}; member {li} with its own "
                                               f"noise ({how}) has {float(R[e][e])!r}")
            except ValueError as e:
                case.fail(key, f"output {k} has a shape that is not member {li} applied to argument {ai} "
                               f"{'and noise ' + ni if ni != 'N' else ''}({how}): {e}")
        case.l2 = lines2

        def after2(rep2):
            for (k, oi, got), rep in zip(todo, rep2):
                exact, _ = C.parse_mat(rep.split())
                scale = max(abs(float(v)) for row in exact for v in row)
                _cmp_matrix(case, key, f"LikelihoodList output {k}{list(oi)} covariance vs member {k} applied to its own "
                            f"argument{' and its own noise (' + how + ')' if nn >= 0 else ''}", got, exact, scale)
        case.after2 = after2
    case.after1 = after1
    return case


# ------------------------------------------------------------------ op-then-use histories

def _snap_single(lik, kind):
    P = {"call": None, "stored": None, "sigma2": None}
    if kind == "gauss":
        P["sigma2"] = lik.noise.detach().clone()
    else:
        P["stored"] = lik.noise_covar.noise.detach().clone()
        if kind == "fixed+learned":
            P["sigma2"] = lik.second_noise_covar.noise.detach().clone()
    return P


def _snap_mt(lik, cfg):
    P = {"sigma2": None, "d": None, "F": None}
    if cfg["g"]:
        P["sigma2"] = lik.noise.detach().clone()
    if cfg["tk"]:
        if cfg["rank"] == 0:
            P["d"] = lik.task_noises.detach().clone()
        else:
            P["F"] = lik.task_noise_covar_factor.detach().clone()
    return P


def hist_targets(cfg):
    """noise parameters of the likelihood of `cfg`, with the ways each can be changed."""
    kind = cfg["kind"]
    allm = ["setter", "raw", "load_state_dict", "partial_state_dict", "initialize"]
    if kind == "gauss":
        return {"noise": allm}
    if kind == "fixed":
        return {"stored": ["setter", "initialize"]}
    if kind == "fixed+learned":
        return {"stored": ["setter", "initialize"], "second_noise": allm}
    t = {}
    if cfg["g"]:
        t["noise"] = allm
    if cfg["tk"]:
        if cfg["rank"] == 0:
            t["task_noises"] = allm
        else:
            t["factor"] = ["raw", "load_state_dict", "partial_state_dict", "initialize"]
    return t


def _mutate(torch, lik, cfg, target, method, gen):
    """Change one noise parameter of the live likelihood object through the public API."""
    kind = cfg["kind"]
    if target == "stored":
        new = _pos(torch, tuple(lik.noise_covar.noise.shape), gen)
        if method == "setter":
            lik.noise = new
        else:
            lik.noise_covar.initialize(noise=new)
        return new      # the caller's tensor (the likelihood keeps a reference to it)
    if target == "factor":
        owner, leaf, full = lik, "task_noise_covar_factor", "task_noise_covar_factor"
        setter = None
    elif target == "task_noises":
        owner, leaf, full = lik, "raw_task_noises", "raw_task_noises"
        setter = lambda v: setattr(lik, "task_noises", v)  # noqa: E731
    elif target == "second_noise":
        owner, leaf, full = lik.second_noise_covar, "raw_noise", "second_noise_covar.raw_noise"
        setter = lambda v: setattr(lik, "second_noise", v)  # noqa: E731
    elif kind == "mt":
        owner, leaf, full = lik, "raw_noise", "raw_noise"
        setter = lambda v: setattr(lik, "noise", v)  # noqa: E731
    else:
        owner, leaf, full = lik.noise_covar, "raw_noise", "noise_covar.raw_noise"
        setter = lambda v: setattr(lik, "noise", v)  # noqa: E731
    p = getattr(owner, leaf)
    raw_new = 0.8 * torch.randn(tuple(p.shape), generator=gen, dtype=torch.float64)
    if method == "setter":
        setter(_pos(torch, tuple(p.shape), gen))
    elif method == "raw":
        with torch.no_grad():
            p.copy_(raw_new)
    elif method == "load_state_dict":
        sd = lik.state_dict()
        sd[full] = raw_new
        lik.load_state_dict(sd)
    elif method == "partial_state_dict":
        lik.load_state_dict({full: raw_new}, strict=False)
    elif method == "initialize":
        owner.initialize(**{leaf: raw_new})
    else:
        raise ValueError(method)


def _fingerprint(torch, lik):
    """every tensor the object holds — parameters, buffers and plain tensor attributes of every submodule — as clones,
    together with the identity of the tensor object (a re-bound attribute is a change, too)."""
    fp = {}
    for path, mod in lik.named_modules():
        for k, v in list(mod._parameters.items()) + list(mod._buffers.items()):
            if v is not None:
                fp[f"{path}.{k}".lstrip(".")] = v.detach().clone()
        for k, v in vars(mod).items():
            if torch.is_tensor(v):
                fp[f"{path}.{k}".lstrip(".")] = v.detach().clone()
    return fp


def _fp_diff(torch, a, b):
    out = []
    for k in sorted(set(a) | set(b)):
        if k not in a or k not in b:
            out.append(f"{k} ({'appeared' if k in b else 'disappeared'})")
        elif a[k].shape != b[k].shape:
            out.append(f"{k} (shape {tuple(a[k].shape)} -> {tuple(b[k].shape)})")
        elif not torch.equal(a[k], b[k]):
            out.append(f"{k} (max |after - before| = {float((a[k] - b[k]).abs().max()):.3e})")
    return out


def public_reads(lik):
    """(submodule path, attribute) of every public property getter of the likelihood and of each of its submodules (noise
    models, constraints), plus every registered parameter / buffer read as an attribute (`raw_noise`, …)."""
    out = []
    for path, mod in lik.named_modules():
        names = set(mod._parameters) | set(mod._buffers)
        for k in type(mod).__mro__:
            names |= {nm for nm, v in vars(k).items() if isinstance(v, property) and not nm.startswith("_")}
        out += [(path, nm) for nm in sorted(names)]
    return out


def read_names(cfg):
    """attribute names `public_reads` finds on a likelihood of the kind of `cfg` (a throw-away instance)."""
    c = dict(cfg, seed=1, lb=[], db=[], nb=[], n=2, nstored=2, call=None)
    if cfg["kind"] == "mt":
        c.update(t=2, rank=min(cfg["rank"], 2), il=True)
        lik = build_mt(c)[0]
    else:
        lik = build_single(c)[0]
    return sorted({nm for _p, nm in public_reads(lik)})


def run_hist(cfg):
    """Histories on ONE likelihood object.  Operations: a *use* (`likelihood(dist)`, `expected_log_prob`, `log_marginal`),
    a documented *change* of one noise parameter (setter / raw parameter / load_state_dict / initialize), and a *read* of a
    public attribute (`["read", name, times]`; name `*` = every public property getter and parameter of the likelihood and
    of its noise models).  Every use must add the noise operator of the parameters as they were left by the constructor /
    the last documented change (a shadow kept by the harness — NOT re-read from the object); neither a read nor a use may
    change any tensor the object holds, and the tensors handed in (constructor / setter arguments, call-time noise,
    distribution) must stay bit-for-bit what they were."""
    import torch
    import gpytorch
    case = Case(cfg)
    kind, mode, lb = cfg["kind"], cfg["mode"], tuple(cfg["lb"])
    is_mt = kind == "mt"
    if is_mt:
        lik, P0, gen = build_mt(cfg)
    else:
        lik, P0, gen = build_single(cfg)
    lik.train() if mode == "train" else lik.eval()
    db = tuple(cfg["db"])
    t = cfg.get("t", 1)
    steps = []     # (label, n, cov, C, noise lines, out batch, closed-form observations)
    handed = list(P0.get("_ctor", []))
    shadow = {"P": {k: v for k, v in P0.items() if not k.startswith("_")}}
    shadow["P"]["call"] = None
    state = {"fp": _fingerprint(torch, lik)}
    cellkey = f"{kind}:{mode}"

    def settle(op, lab):
        """after an observation (use / read): the object must hold exactly the tensors it held before"""
        cur = _fingerprint(torch, lik)
        diff = _fp_diff(torch, state["fp"], cur)
        if diff:
            case.fail(f"history:{cellkey}:state-changed-by-{op}:{lab}",
                      f"{op} `{lab}` changed the state of the likelihood: " + "; ".join(diff[:4]))
        state["fp"] = cur

    def call(label, n):
        cfgn = dict(cfg, n=n)
        N = n * t
        Cm = _spd(torch, db, N, gen)
        kw = {}
        if is_mt:
            mean = torch.randn(*db, n, t, generator=gen, dtype=torch.float64)
            dist = gpytorch.distributions.MultitaskMultivariateNormal(mean, Cm, interleaved=cfg["il"])
        else:
            mean = torch.randn(*db, n, generator=gen, dtype=torch.float64)
            dist = gpytorch.distributions.MultivariateNormal(mean, Cm)
        y = mean + torch.randn(mean.shape, generator=gen, dtype=torch.float64)
        P = dict(shadow["P"])
        if not is_mt and kind != "gauss" and n != cfg["nstored"] and not cfg.get("hist_nocall"):
            P["call"] = _pos(torch, (*db, n), gen)      # other event size: call-time noise (else: documented skip of the
            kw["noise"] = P["call"]                      # fixed noise, learned noise still added — `hist_nocall`)
            handed.append(("call-time `noise`", P["call"], P["call"].clone()))
        Cref, mref = Cm.clone(), mean.clone()
        closed = {}
        lab0 = label.split("|")[0]
        try:
            with warnings.catch_warnings():
                warnings.simplefilter("ignore")
                cov = lik(dist, **kw).covariance_matrix.detach()
                if not is_mt:
                    zero_r = kind == "fixed" and "noise" not in kw and n != cfg["nstored"]
                    closed["lm"] = lik.log_marginal(y, dist, **kw).detach()
                    if not zero_r:
                        closed["elp"] = lik.expected_log_prob(y, dist, **kw).detach()
        except Exception as e:
            case.fail(f"history-raises:{kind}:{mode}", f"{label}: likelihood(dist) raised {type(e).__name__}: {str(e)[:160]}")
            return
        if not torch.equal(Cm, Cref) or not torch.equal(mean, mref):
            case.fail(f"mutates-input:{cellkey}:distribution", f"{label}: the call changed the distribution's mean / covariance in place")
        settle("use", lab0)
        if is_mt:
            ob = bshape(db, lb)
            lines = [mt_noise_line(cfgn, P, oi, cfg["il"]) for oi in all_idx(ob)]
        else:
            ob = single_out_batch(cfgn, P)
            lines = [single_noise_line(cfgn, P, oi) for oi in all_idx(ob)]
        steps.append((label, n, cov, Cm, lines, ob, (closed, mean, y)))

    def read(name, times):
        targets = [(pth, nm) for pth, nm in public_reads(lik) if name == "*" or nm == name]
        for _ in range(times):
            for pth, nm in targets:
                try:
                    with warnings.catch_warnings():
                        warnings.simplefilter("ignore")
                        with (torch.no_grad() if cfg.get("read_nograd") else contextlib.nullcontext()):
                            getattr(lik.get_submodule(pth) if pth else lik, nm)
                except (AttributeError, RuntimeError):
                    pass     # documented: `task_noises` with rank > 0, `task_noise_covar` with rank 0 raise AttributeError
                settle("read", (pth + "." if pth else "") + nm)

    n, n2 = cfg["n"], cfg["n2"]
    if not cfg.get("read_first"):
        call("first call", n)
    for op in cfg["ops"]:
        if op[0] == "read":
            _r, name, times = op
            read(name, times)
            lab = f"read:{name}"
            call(f"{lab}|call after reading `{name}` {times}x ({mode} mode)", n)
            if cfg.get("read_other_size"):
                call(f"{lab}|call on another event size ({n2}) after reading `{name}` ({mode} mode)", n2)
            continue
        target, method = op
        try:
            new = _mutate(torch, lik, cfg, target, method, gen)
        except Exception as e:
            case.fail(f"history-raises:{kind}:{mode}:{target}:{method}",
                      f"changing `{target}` via {method} raised {type(e).__name__}: {str(e)[:160]}")
            break
        # the documented change defines the new expected parameters (for the fixed noise: the tensor that was handed in)
        shadow["P"] = _snap_mt(lik, cfg) if is_mt else _snap_single(lik, kind)
        if new is not None:
            handed.append((f"`{target}` value passed to {'the setter' if method == 'setter' else method}", new, new.clone()))
            shadow["P"]["stored"] = new.clone()
        state["fp"] = _fingerprint(torch, lik)
        lab = f"{target}:{method}"
        call(f"{lab}|call on the same shape after changing `{target}` via {method} ({mode} mode)", n)
        if cfg.get("short"):
            continue
        call(f"{lab}|call on another event size ({n2}) after changing `{target}` via {method} ({mode} mode)", n2)
        call(f"{lab}|second call on the first shape after changing `{target}` via {method} ({mode} mode)", n)
    _check_handed(torch, case, handed, cellkey)
    case.l1 = [l for st in steps for l in st[4]]

    def after1(rep1):
        lines2, todo = [], []
        p = 0
        for (label, nn_, cov, Cm, lines, ob, (closed, mean, y)) in steps:
            oidx = all_idx(ob)
            Rs = [C.parse_mat(r.split())[0] for r in rep1[p:p + len(lines)]]
            p += len(lines)
            lab0 = label.split("|")[0].replace(" ", "-")
            try:
                full = bshape(tuple(cov.shape[:-2]), ob)
            except ValueError as e:
                case.fail(f"history:{kind}:{mode}:{lab0}", f"{label}: covariance batch shape: {e}")
                continue
            for oi in all_idx(full):
                lines2.append(f"marg {C.mat_tokens(Cm[bidx(db, oi)])} {_show(Rs[oidx.index(bidx(ob, oi))])}")
                todo.append((label, oi, cov[bidx(tuple(cov.shape[:-2]), oi)].tolist()))
            for short, val in closed.items():
                try:
                    full = bshape(tuple(val.shape[:-1]), ob)
                    if val.shape[-1] != nn_:
                        raise ValueError(f"shape {tuple(val.shape)}")
                except ValueError as e:
                    case.fail(f"history:{kind}:{mode}:{lab0}:{short}", f"{label}: {short} shape: {e}")
                    continue
                for oi in all_idx(full):
                    R = Rs[oidx.index(bidx(ob, oi))]
                    Ci, mi, yi = Cm[bidx(db, oi)], mean[bidx(db, oi)], y[bidx(db, oi)]
                    vi = val[bidx(tuple(val.shape[:-1]), oi)]
                    for e in range(nn_):
                        if (short == "elp" and R[e][e] == 0) or C.frac(Ci[e, e].item()) + R[e][e] <= 0:
                            continue
                        exp, mag = _closed(short, yi[e].item(), mi[e].item(), Ci[e, e].item(), R[e][e])
                        if not abs(vi[e].item() - exp) <= 1e-11 * (1 + mag):
                            case.fail(f"history:{kind}:{mode}:{lab0}:{short}",
                                      f"{label.split('|')[-1]}: {'expected_log_prob' if short == 'elp' else 'log_marginal'}"
                                      f"[{list(oi)},{e}] = {vi[e].item()!r}, closed form with R(current parameters) {exp!r}")
        case.l2 = lines2

        def after2(rep2):
            for (label, oi, got), rep in zip(todo, rep2):
                exact, _ = C.parse_mat(rep.split())
                scale = max(abs(float(v)) for row in exact for v in row)
                lab = label.split("|")
                _cmp_matrix(case, f"history:{kind}:{mode}:{lab[0].replace(' ', '-')}",
                            f"{lab[-1]}, batch element {list(oi)}: covariance vs C + R(current parameters)", got, exact, scale)
        case.after2 = after2
    case.after1 = after1
    return case


# ------------------------------------------------------------------ HeteroskedasticNoise / Dirichlet / missing observations

def _diag_from_bits(tokens):
    """reply `bits… offdiag0` -> exact Fractions of the Float diagonal"""
    if tokens[-1] != "offdiag0":
        raise ValueError("the model's noise operator is not diagonal: " + tokens[-1])
    return [C.frac(_unbits(t)) for t in tokens[:-1]]


def _noise_models(torch, gpytorch):
    class LinNoiseModel(gpytorch.models.GP):
        """noise model with a known predictive mean  x @ w + b  (records the mode it is called in)"""

        def __init__(self, w, b, tasks=None, fail=False):
            super().__init__()
            self.w, self.b, self.tasks, self.fail, self.seen = w, b, tasks, fail, []

        def forward(self, x):
            self.seen.append(self.training)
            if self.fail:
                raise ArithmeticError("noise model failed")
            if self.tasks is None:
                mean = x @ self.w + self.b
                return gpytorch.distributions.MultivariateNormal(mean, 0.1 * torch.eye(mean.shape[-1], dtype=mean.dtype).expand(
                    *mean.shape[:-1], mean.shape[-1], mean.shape[-1]))
            mean = x @ self.w + self.b          # (..., n, t)
            N = mean.shape[-2] * mean.shape[-1]
            return gpytorch.distributions.MultitaskMultivariateNormal(mean, 0.1 * torch.eye(N, dtype=mean.dtype))

    class ExactNoiseGP(gpytorch.models.ExactGP):
        def __init__(self, tx, ty):
            super().__init__(tx, ty, gpytorch.likelihoods.GaussianLikelihood())
            self.mean_module = gpytorch.means.ConstantMean()
            self.covar_module = gpytorch.kernels.ScaleKernel(gpytorch.kernels.RBFKernel())
            self.seen = []

        def forward(self, x):
            self.seen.append(self.training)
            return gpytorch.distributions.MultivariateNormal(self.mean_module(x), self.covar_module(x))
    return LinNoiseModel, ExactNoiseGP


def run_hetero(cfg):
    """`_GaussianLikelihoodBase(noise_covar=HeteroskedasticNoise(noise_model))`: R = diag(constraint.transform(mean of the noise
    model's eval-mode prediction at the inputs)); call-time noise used directly; the noise model's mode is restored."""
    import torch
    import gpytorch
    from gpytorch.likelihoods.gaussian_likelihood import _GaussianLikelihoodBase
    from gpytorch.likelihoods import HeteroskedasticNoise
    case = Case(cfg)
    gen = torch.Generator().manual_seed(cfg["seed"])
    n, d, xb = cfg["n"], cfg["d"], tuple(cfg["xb"])
    Lin, ExactNoiseGP = _noise_models(torch, gpytorch)
    x = torch.randn(*xb, n, d, generator=gen, dtype=torch.float64)
    var = cfg["model"] + (":calltime" if cfg["call"] else "")
    with warnings.catch_warnings():
        warnings.simplefilter("ignore")
        if cfg["model"] == "tasks":      # multi-output noise model + noise_indices, at the noise-model level
            t, idx = cfg["t"], cfg["idx"]
            nm = Lin(torch.randn(d, t, generator=gen, dtype=torch.float64), torch.randn(t, generator=gen, dtype=torch.float64), tasks=t)
            hn = HeteroskedasticNoise(nm, noise_indices=idx)
            nm.train(cfg["nm_mode"] == "train")
            try:
                out = hn(x).to_dense().detach()
            except Exception as e:
                case.fail(f"raises:hetero:{var}", f"HeteroskedasticNoise(noise_indices={idx})(x) raised {type(e).__name__}: {str(e)[:160]}")
                return case
            if nm.training != (cfg["nm_mode"] == "train") or nm.seen[-1] is not False:
                case.fail(f"hetero:mode-protocol", f"noise model called in {'train' if nm.seen[-1] else 'eval'} mode, left in "
                          f"{'train' if nm.training else 'eval'} mode (was {cfg['nm_mode']})")
            mu = (x @ nm.w + nm.b).detach()
            lb = float(hn._noise_constraint.lower_bound)
            case.l1 = [f"heterotask {t} {len(idx)} {C.rat_str(lb)} {' '.join(map(str, idx))} {rs(mu[i].tolist())}" for i in range(n)]

            def after1(rep1):
                k = len(idx)
                if tuple(out.shape) != (n, k, k):
                    case.fail(f"hetero:{var}", f"noise operator has shape {tuple(out.shape)}, expected ({n}, {k}, {k})")
                    return
                for i, r in enumerate(rep1):
                    dg = [_unbits(tk) for tk in r.split()]
                    for a in range(k):
                        for b in range(k):
                            e = dg[a] if a == b else 0.0
                            if not abs(out[i, a, b].item() - e) <= 1e-12 * (1 + abs(e)):
                                case.fail(f"hetero:{var}", f"point {i}, block entry [{a},{b}] = {out[i, a, b].item()!r}, "
                                          f"transform(mean[{i}, {idx[a]}]) = {e!r}")
            case.after1 = after1
            return case
        if cfg["model"] == "exactgp":
            tx = torch.randn(6, d, generator=gen, dtype=torch.float64)
            nm = ExactNoiseGP(tx, torch.randn(6, generator=gen, dtype=torch.float64)).double()
        else:
            nm = Lin(torch.randn(d, generator=gen, dtype=torch.float64), torch.randn((), generator=gen, dtype=torch.float64))
        hn = HeteroskedasticNoise(nm)
        lik = _GaussianLikelihoodBase(noise_covar=hn).double()
        lik.train(cfg["mode"] == "train")
        nm.train(cfg["nm_mode"] == "train")
        # the specification's mu: the noise model's own eval-mode prediction at x (asked directly, mode put back)
        nm.eval()
        with gpytorch.settings.debug(False):
            mu = nm(x).mean.detach().clone()
        nm.train(cfg["nm_mode"] == "train")
        nm.seen.clear()
        lb = float(hn._noise_constraint.lower_bound)
        call = _pos(torch, (*xb, n), gen) if cfg["call"] else None
        kw = {} if call is None else {"noise": call}
        Cm = _spd(torch, xb, n, gen)
        mean = torch.randn(*xb, n, generator=gen, dtype=torch.float64)
        y = mean + torch.randn(*xb, n, generator=gen, dtype=torch.float64)
        fs = torch.randn(*xb, n, generator=gen, dtype=torch.float64)
        dist = gpytorch.distributions.MultivariateNormal(mean, Cm)
        handed = [("inputs `x`", x, x.clone()), ("distribution `covariance`", Cm, Cm.clone())]
        if call is not None:
            handed.append(("call-time `noise`", call, call.clone()))
        obs = {}
        for name, fn in (("marginal", lambda: lik(dist, x, **kw)), ("marginal_direct", lambda: lik.marginal(dist, x, **kw)),
                         ("expected_log_prob", lambda: lik.expected_log_prob(y, dist, x, **kw)),
                         ("log_marginal", lambda: lik.log_marginal(y, dist, x, **kw)),
                         ("conditional", lambda: lik(fs, x, **kw)), ("marginal_again", lambda: lik(dist, x, **kw))):
            try:
                obs[name] = fn()
            except Exception as e:
                case.fail(f"raises:hetero:{var}:{name}", f"{name} raised {type(e).__name__}: {str(e)[:200]}")
            if nm.training != (cfg["nm_mode"] == "train") or (nm.seen and nm.seen[-1] is not False):
                case.fail("hetero:mode-protocol", f"after {name}: noise model was called in "
                          f"{'train' if nm.seen and nm.seen[-1] else 'eval'} mode and left in {'train' if nm.training else 'eval'} mode "
                          f"(it was in {cfg['nm_mode']} mode)")
        if call is not None and nm.seen:
            pass    # consulting the noise model although noise= is given is wasteful, not wrong
        if cfg["model"] == "lin":        # the mode is restored on the exception path, too
            nm.fail = True
            try:
                lik(dist, x)
                case.fail("hetero:mode-protocol", "an exception of the noise model was swallowed")
            except ArithmeticError:
                pass
            if nm.training != (cfg["nm_mode"] == "train"):
                case.fail("hetero:mode-protocol", f"noise model left in {'train' if nm.training else 'eval'} mode after it raised "
                                                  f"(it was in {cfg['nm_mode']} mode)")
            nm.fail = False
        _check_handed(torch, case, handed, "hetero:" + var)
    idxs = all_idx(xb)
    case.l1 = ["heteroprotocol"] + [
        f"hetero {n} {C.rat_str(lb)} " + (("1 " + rs(call[oi].tolist())) if call is not None else "0") + " " + rs(mu[oi].tolist())
        for oi in idxs]

    def after1(rep1):
        Rd = [_diag_from_bits(r.split()) for r in rep1[1:]]
        lines2, todo = [], []
        for entry in ("marginal", "marginal_direct", "marginal_again"):
            if entry not in obs:
                continue
            cov = obs[entry].covariance_matrix.detach()
            if tuple(cov.shape) != (*xb, n, n) or not torch.equal(obs[entry].mean.detach(), mean):
                case.fail(f"marginal:hetero:{var}", f"{entry}: shape {tuple(cov.shape)} / mean changed")
                continue
            for q, oi in enumerate(idxs):
                lines2.append(f"marg {C.mat_tokens(Cm[oi])} {_show(_diag(Rd[q]))}")
                todo.append((entry, oi, cov[oi].tolist()))
        if "conditional" in obs:
            v_ = obs["conditional"].scale.detach() ** 2
            for q, oi in enumerate(idxs):
                for e in range(n):
                    g, r = v_[oi][e].item(), float(Rd[q][e])
                    if tuple(v_.shape) != (*xb, n) or not abs(g - r) <= 1e-12 * (1 + abs(r)):
                        case.fail(f"conditional:hetero:{var}", f"likelihood(f, x) at {oi}: variance[{e}] = {g!r}, noise operator {r!r}")
        for name, short in (("expected_log_prob", "elp"), ("log_marginal", "lm")):
            if name not in obs:
                continue
            val = obs[name].detach()
            if tuple(val.shape) != (*xb, n):
                case.fail(f"{short}:hetero:{var}", f"{name} has shape {tuple(val.shape)}")
                continue
            for q, oi in enumerate(idxs):
                for e in range(n):
                    exp, mag = _closed(short, y[oi][e].item(), mean[oi][e].item(), Cm[oi][e, e].item(), Rd[q][e])
                    if not abs(val[oi][e].item() - exp) <= 1e-11 * (1 + mag):
                        case.fail(f"{short}:hetero:{var}", f"{name}[{list(oi)},{e}] = {val[oi][e].item()!r}, closed form {exp!r} "
                                  f"(r = transform(mu) = {float(Rd[q][e])!r})")
        case.l2 = lines2

        def after2(rep2):
            for (entry, oi, got), rep in zip(todo, rep2):
                exact, _ = C.parse_mat(rep.split())
                scale = max(abs(float(v)) for row in exact for v in row)
                _cmp_matrix(case, f"marginal:hetero:{var}", f"heteroskedastic {entry}(dist, x{', noise=v' if kw else ''}).covariance_matrix, "
                            f"batch element {list(oi)} vs C + diag(transform(noise_model(x).mean))", got, exact, scale)
        case.after2 = after2
    case.after1 = after1
    return case


def run_dir(cfg):
    """DirichletClassificationLikelihood: stored noise / transformed targets = the documented transformation of the labels
    (class c = batch element c), R_c = diag(sigma~^2_c) [+ s_c I]; call-time `targets=` transformed with the likelihood's own
    alpha_epsilon and number of classes."""
    import inspect
    import torch
    import gpytorch
    case = Case(cfg)
    gen = torch.Generator().manual_seed(cfg["seed"])
    N, nc, n = cfg["N"], cfg["nc"], cfg["n"]
    labels = cfg["labels"]
    eps = cfg["eps"]
    D = gpytorch.likelihoods.DirichletClassificationLikelihood
    eps_default = inspect.signature(D._prepare_targets).parameters["alpha_epsilon"].default
    tr = torch.tensor(labels, dtype=torch.long)
    with warnings.catch_warnings():
        warnings.simplefilter("ignore")
        kwargs = {} if eps is None else {"alpha_epsilon": eps}
        try:
            lik = D(tr, learn_additional_noise=cfg["learned"], dtype=torch.float64, **kwargs).double()
        except Exception as e:
            case.fail("raises:dirichlet:constructor", f"constructor raised {type(e).__name__}: {str(e)[:200]}")
            return case
        e_self = eps_default if eps is None else eps
        sigma2 = None
        if cfg["learned"]:
            lik.second_noise = _pos(torch, (nc, 1), gen)
            sigma2 = lik.second_noise_covar.noise.detach().clone()
        call = cfg.get("call")
        kw = {} if call is None else {"targets": torch.tensor(call, dtype=torch.long)}
        sub = "stored" if call is None else "calltime-targets"
        if call is not None:
            if max(call) + 1 != nc:
                sub += ":num-classes"
            elif eps is not None and eps != eps_default:
                sub += ":alpha-epsilon"
        if call is None and n != N:
            sub += "-sizemismatch"
        Cm = _spd(torch, (nc,), n, gen)
        mean = torch.randn(nc, n, generator=gen, dtype=torch.float64)
        dist = gpytorch.distributions.MultivariateNormal(mean, Cm)
        stored = lik.noise_covar.noise.detach().clone()
        tt = lik.transformed_targets.detach().clone()
        obs = {}
        fns = [("marginal", lambda: lik(dist, **kw))]
        if call is None and n == N:
            fns += [("expected_log_prob", lambda: lik.expected_log_prob(tt, dist)), ("log_marginal", lambda: lik.log_marginal(tt, dist))]
        for name, fn in fns:
            try:
                obs[name] = fn()
            except Exception as e:
                case.fail(f"raises:dirichlet:{sub}", f"{name} raised {type(e).__name__}: {str(e)[:200]}")
        if not torch.equal(lik.noise_covar.noise.detach(), stored) or not torch.equal(tr, torch.tensor(labels)):
            case.fail(f"mutates-input:dirichlet:{sub}", "a call changed the stored noise / the labels")
    if lik.num_classes != nc or tuple(stored.shape) != (nc, N) or tuple(tt.shape) != (nc, N):
        case.fail("dirichlet:layout", f"num_classes = {lik.num_classes} (labels have {nc}), stored noise {tuple(stored.shape)}, "
                                      f"transformed targets {tuple(tt.shape)}; expected ({nc}, {N})")
        return case
    ls = " ".join(map(str, labels))
    case.l1 = [f"dir {C.rat_str(e_self)} {c} {N} {ls}" for c in range(nc)]
    for c in range(nc):
        le = f"1 {C.rat_str(sigma2[c, 0].item())}" if sigma2 is not None else "0"
        cl = "0" if call is None else "1 " + " ".join(map(str, call))
        nci = nc if call is None else max(call) + 1
        case.l1.append(f"dirshaped {C.rat_str(e_self)} {C.rat_str(eps_default)} {nc} {nci} {c} {N} {ls} {le} {n} {cl}")
    case.nontrivial = not (call is None and n != N and not cfg["learned"])

    def after1(rep1):
        for c in range(nc):
            toks = [_unbits(t) for t in rep1[c].split()]
            for i in range(N):
                for what, got, e in (("stored-noise", stored[c, i].item(), toks[i]), ("transformed-targets", tt[c, i].item(), toks[N + i])):
                    if not abs(got - e) <= 1e-13 * (1 + abs(e)):
                        case.fail(f"dirichlet:{what}", f"{what}[class {c}, point {i}] = {got!r}; documented transformation of label "
                                  f"{labels[i]} with alpha_epsilon = {e_self}: {e!r}")
        Rd = []
        for c in range(nc):
            toks = rep1[nc + c].split()
            if toks[0] != f"rows={nc}":
                raise ValueError("model: call-time noise has " + toks[0])
            Rd.append(_diag_from_bits(toks[1:]))
        lines2, todo = [], []
        if "marginal" in obs:
            cov = obs["marginal"].covariance_matrix.detach()
            if tuple(cov.shape) != (nc, n, n):
                case.fail(f"dirichlet:{sub}", f"likelihood(dist{', targets=t' if kw else ''}).covariance_matrix has shape "
                                              f"{tuple(cov.shape)}, expected ({nc}, {n}, {n}) (one batch element per class)")
            else:
                for c in range(nc):
                    lines2.append(f"marg {C.mat_tokens(Cm[c])} {_show(_diag(Rd[c]))}")
                    todo.append((c, cov[c].tolist()))
        for name, short in (("expected_log_prob", "elp"), ("log_marginal", "lm")):
            if name in obs:
                val = obs[name].detach()
                for c in range(nc):
                    for e in range(n):
                        exp, mag = _closed(short, tt[c, e].item(), mean[c, e].item(), Cm[c][e, e].item(), Rd[c][e])
                        if tuple(val.shape) != (nc, n) or not abs(val[c, e].item() - exp) <= 1e-11 * (1 + mag):
                            case.fail(f"{short}:dirichlet", f"{name}[class {c}, {e}] = {val[c, e].item()!r}, closed form {exp!r}")
        case.l2 = lines2

        def after2(rep2):
            for (c, got), rep in zip(todo, rep2):
                exact, _ = C.parse_mat(rep.split())
                scale = max(abs(float(v)) for row in exact for v in row)
                _cmp_matrix(case, f"dirichlet:{sub}", f"Dirichlet likelihood(dist{', targets=' + str(call) if kw else ''}).covariance_matrix, "
                            f"class {c}, vs C + diag(log(1/alpha + 1)){' + s_c I' if cfg['learned'] else ''} with alpha = "
                            f"{e_self} + [label = {c}]", got, exact, scale)
        case.after2 = after2
    case.after1 = after1
    return case


def run_miss(cfg):
    """GaussianLikelihoodWithMissingObs: marginal = C + sigma^2 I (or the call-time noise); expected_log_prob / log_marginal are
    the GaussianLikelihood terms where y is observed and exactly 0 where y is NaN."""
    import torch
    import gpytorch
    case = Case(cfg)
    gen = torch.Generator().manual_seed(cfg["seed"])
    n, lb, db = cfg["n"], tuple(cfg["lb"]), tuple(cfg["db"])
    with warnings.catch_warnings():
        warnings.simplefilter("ignore")
        lik = gpytorch.likelihoods.GaussianLikelihoodWithMissingObs(batch_shape=torch.Size(lb)).double()
        lik.noise = _pos(torch, (*lb, 1), gen)
        P = {"sigma2": lik.noise.detach().clone(), "stored": None}
        P["call"] = _pos(torch, (*db, n), gen) if cfg["call"] else None
        kw = {} if P["call"] is None else {"noise": P["call"]}
        Cm = _spd(torch, db, n, gen)
        mean = torch.randn(*db, n, generator=gen, dtype=torch.float64)
        y = mean + torch.randn(*db, n, generator=gen, dtype=torch.float64)
        miss = torch.rand(*db, n, generator=gen) < {"none": 0.0, "some": 0.4, "all": 1.1}[cfg["pattern"]]
        ynan = y.masked_fill(miss, float("nan"))
        yref = ynan.clone()
        dist = gpytorch.distributions.MultivariateNormal(mean, Cm)
        obs = {}
        for name, fn in (("marginal", lambda: lik(dist, **kw)), ("expected_log_prob", lambda: lik.expected_log_prob(ynan, dist, **kw)),
                         ("log_marginal", lambda: lik.log_marginal(ynan, dist, **kw))):
            try:
                obs[name] = fn()
            except Exception as e:
                case.fail(f"raises:missingobs:{name}", f"{name} raised {type(e).__name__}: {str(e)[:200]}")
        if not torch.equal(torch.isnan(ynan), torch.isnan(yref)) or not torch.equal(ynan[~miss], yref[~miss]):
            case.fail("mutates-input:missingobs:targets", "the targets (with their NaN entries) were modified in place")
    gcfg = dict(cfg, kind="gauss")
    ob = single_out_batch(gcfg, P)
    idxs = all_idx(ob)
    case.l1 = [single_noise_line(gcfg, P, oi) for oi in idxs]
    var = cfg["pattern"] + (":calltime" if cfg["call"] else "")

    def after1(rep1):
        Rs = [C.parse_mat(r.split())[0] for r in rep1]
        lines2, todo = [], []
        if "marginal" in obs:
            cov = obs["marginal"].covariance_matrix.detach()
            full = bshape(tuple(cov.shape[:-2]), ob)
            for oi in all_idx(full):
                lines2.append(f"marg {C.mat_tokens(Cm[bidx(db, oi)])} {_show(Rs[idxs.index(bidx(ob, oi))])}")
                todo.append(("marg", oi, cov[bidx(tuple(cov.shape[:-2]), oi)].tolist()))
        for name, short in (("expected_log_prob", "elp"), ("log_marginal", "lm")):
            if name not in obs:
                continue
            val = obs[name].detach()
            full = bshape(tuple(val.shape[:-1]), ob)
            if val.shape[-1] != n:
                case.fail(f"{short}:missingobs:{var}", f"{name} has shape {tuple(val.shape)}")
                continue
            k = 0
            for oi in all_idx(full):
                R = Rs[idxs.index(bidx(ob, oi))]
                di = bidx(db, oi)
                vi = val[bidx(tuple(val.shape[:-1]), oi)]
                for e in range(n):
                    got = vi[e].item()
                    if bool(miss[di][e]):
                        if not got == 0.0:        # NaN fails this comparison, too
                            case.fail(f"{short}:missingobs:{var}", f"{name}[{list(oi)},{e}] = {got!r} for a missing observation (must be 0)")
                    else:
                        exp, mag = _closed(short, y[di][e].item(), mean[di][e].item(), Cm[di][e, e].item(), R[e][e])
                        if not abs(got - exp) <= 1e-11 * (1 + mag):
                            case.fail(f"{short}:missingobs:{var}", f"{name}[{list(oi)},{e}] = {got!r}, closed form of the observed "
                                                                   f"entry {exp!r}")
                    if k < 3:
                        k += 1
                        yt = "nan" if bool(miss[di][e]) else C.rat_str(y[di][e].item())
                        lines2.append(f"miss {short} {yt} {C.rat_str(mean[di][e].item())} {C.rat_str(Cm[di][e, e].item())} {C.rat_str(R[e][e])}")
                        todo.append((short, (oi, e), got))
        case.l2 = lines2

        def after2(rep2):
            for (what, where, got), rep in zip(todo, rep2):
                if what == "marg":
                    exact, _ = C.parse_mat(rep.split())
                    scale = max(abs(float(v)) for row in exact for v in row)
                    _cmp_matrix(case, f"marginal:missingobs:{var}", f"GaussianLikelihoodWithMissingObs(dist).covariance_matrix, batch "
                                f"element {list(where)}", got, exact, scale)
                else:
                    toks = rep.split()
                    lean = _unbits(toks[-1])
                    if not abs(got - lean) <= 1e-11 * (1 + abs(lean) + abs(float(Fraction(toks[0])))):
                        case.fail(f"{what}:missingobs:{var}", f"{what} at {where}: impl {got!r}, Lean Float value of the generated "
                                                              f"expression {lean!r}")
        case.after2 = after2
    case.after1 = after1
    return case


RUN = {"single": run_single, "mt": run_mt, "list": run_list, "hist": run_hist, "hetero": run_hetero, "dir": run_dir,
       "miss": run_miss}


# ------------------------------------------------------------------ generator

def gen_cfgs(ctx):
    rng = ctx.rng("cases")
    quick = ctx.tier == "quick"
    cfgs = []

    def seed():
        return rng.getrandbits(30)
    lbs = [(), (2,), (3, 2), (1,)]
    dbs = [(), (2,), (3, 2), (3, 1), (1, 2), (2, 1, 2)]
    # --- single-output grid
    reps = 2 if quick else 40
    for _ in range(reps):
        for kind in ("gauss", "fixed", "fixed+learned"):
            for callv in ("none", "same", "own", "mismatch"):
                for _rep in range(3 if quick else 4):
                    n = rng.randint(1, 6)
                    lb = rng.choice(lbs)
                    db = rng.choice(dbs)
                    nb = rng.choice([(), db, (2,)]) if kind != "gauss" else ()
                    try:
                        bshape(lb, db, nb)
                    except ValueError:
                        lb, nb = (), ()
                    nstored = n
                    call = None
                    if callv == "same":
                        call = list(db)
                    elif callv == "own":
                        call = list(rng.choice([(), (2,), db]))
                        try:
                            bshape(lb, db, nb, tuple(call))
                        except ValueError:
                            call = []
                    elif callv == "mismatch":
                        if kind == "gauss":
                            continue
                        nstored = n + rng.randint(1, 3)
                        call = list(db) if rng.random() < 0.8 else None
                    c = {"fam": "single", "kind": kind, "n": n, "lb": list(lb), "db": list(db),
                         "nb": list(nb), "nstored": nstored, "call": call, "seed": seed()}
                    r = rng.random()
                    if r < 0.2:
                        c["cov"] = "diag"
                    elif r < 0.45:
                        c.update(cov="root", rootk=rng.randint(1, n + 2))
                    if call is not None and rng.random() < 0.25:
                        c["zero_noise"] = True
                    if call is None and nstored != n:
                        c.pop("cov", None)     # documented no-op cell (shapeless ZeroLinearOperator): dense covariances only
                        c.pop("rootk", None)
                    cfgs.append(c)
    # --- FixedNoise on a different number of points WITHOUT call-time noise (documented behaviour: the fixed noise is
    #     skipped with a warning, the learned noise — if any — is still added), every run, every covariance representation
    for _ in range(1 if quick else 10):
        for kind, covs in (("fixed", ("dense", "lazy")), ("fixed+learned", ("dense", "lazy", "diag", "root"))):
            for cov in covs:
                for smaller in (False, True):
                    n = rng.randint(2, 6)
                    nstored = max(1, n - rng.randint(1, 2)) if smaller else n + rng.randint(1, 3)
                    if nstored == n:
                        nstored = n + 1
                    lb = rng.choice(lbs) if kind == "fixed+learned" else ()
                    db = rng.choice(dbs)
                    try:
                        bshape(lb, db)
                    except ValueError:
                        lb = ()
                    c = {"fam": "single", "kind": kind, "n": n, "lb": list(lb), "db": list(db), "nb": [],
                         "nstored": nstored, "call": None, "seed": seed()}
                    if cov != "dense":
                        c["cov"] = cov
                    if cov == "root":
                        c["rootk"] = rng.randint(1, n + 2)
                    cfgs.append(c)
    # --- multitask grid
    for _ in range(3 if quick else 60):
        for (g, tk) in ((True, True), (False, True), (True, False)):
            for il in (True, False):
                for rsel in ("zero", "mid", "full"):
                    n, t = rng.randint(1, 4), rng.randint(1, 4)
                    if rsel != "zero" and t == 1 and rng.random() < 0.7:
                        t = rng.randint(2, 4)
                    rank = 0 if rsel == "zero" else (t if rsel == "full" else rng.randint(1, t))
                    lb, db = rng.choice([((), ()), ((), (2,)), ((2,), (2,)), ((2,), (3, 2)), ((3, 2), (3, 2)),
                                         ((), (3, 1)), ((1,), (2,)), ((2,), ()), ((2,), (3, 1))])
                    c = {"fam": "mt", "n": n, "t": t, "rank": rank, "g": g, "tk": tk, "il": il,
                         "lb": list(lb), "db": list(db), "seed": seed()}
                    if rng.random() < 0.3:
                        c["cov"] = "kron"
                    cfgs.append(c)
    # --- LikelihoodList: noise passed as list / tuple / ONE stacked tensor; members with and without batch (also b == k)
    for _ in range(1 if quick else 12):
        for method in ("call", "forward"):
            for container in ("plain", "list", "tuple", "stacked"):
                for nl in (1, 2, 3):
                    for mb in ("none", "b=k", "b"):
                        if mb != "none" and quick and container in ("plain", "tuple") and nl == 1:
                            continue
                        b = [] if mb == "none" else ([max(nl, 2)] if mb == "b=k" else [rng.choice([x for x in (2, 3, 4) if x != nl])])
                        if mb == "b=k" and nl == 1:
                            b = [1]
                        common_n = rng.randint(1, 5)
                        members = []
                        for _k in range(nl):
                            kind = rng.choice(["gauss", "fixed", "fixed+learned"])
                            n = common_n if container == "stacked" else rng.randint(1, 5)
                            members.append({"fam": "single", "kind": kind, "n": n, "lb": [], "db": list(b), "nb": [],
                                            "nstored": n, "call": list(b), "seed": seed()})
                        cfgs.append({"fam": "list", "members": members, "method": method, "nargs": nl,
                                     "container": "list" if container == "plain" else container,
                                     "nnoise": -1 if container == "plain" else nl, "seed": seed()})
            for with_noise in (False, True):    # one length mismatch per cell
                nl = rng.randint(2, 3)
                members = [{"fam": "single", "kind": "gauss", "n": 2, "lb": [], "db": [], "nb": [], "nstored": 2,
                            "call": [], "seed": seed()} for _k in range(nl)]
                if with_noise:
                    cfgs.append({"fam": "list", "members": members, "method": method, "nargs": nl,
                                 "nnoise": nl - 1, "seed": seed()})
                else:
                    cfgs.append({"fam": "list", "members": members, "method": method, "nargs": nl - 1,
                                 "nnoise": -1, "seed": seed()})
    # --- op-then-use histories: every noise parameter x every way of changing it x {train, eval}
    hk = [{"kind": "gauss"}, {"kind": "fixed"}, {"kind": "fixed+learned"},
          {"kind": "mt", "g": True, "tk": True, "rank": 0}, {"kind": "mt", "g": True, "tk": True, "rank": 1},
          {"kind": "mt", "g": True, "tk": False, "rank": 0}, {"kind": "mt", "g": False, "tk": True, "rank": 0},
          {"kind": "mt", "g": False, "tk": True, "rank": 2}]
    for _ in range(1 if quick else 6):
        for base in hk:
            for target, methods in hist_targets(base).items():
                for method in methods:
                    for mode in ("train", "eval"):
                        c = dict(base)
                        n = rng.randint(1, 4)
                        n2 = rng.choice([x for x in (1, 2, 3, 4, 5) if x != n])
                        lb = rng.choice([[], [2]])
                        db = lb if (base["kind"] == "mt" or rng.random() < 0.5) else rng.choice([[], [2]])
                        if base["kind"] == "mt" and not lb:
                            db = rng.choice([[], [2]])
                        c.update(fam="hist", mode=mode, n=n, n2=n2, lb=list(lb), db=list(db), nb=[], nstored=n, call=None,
                                 ops=[[target, method]], seed=seed())
                        if base["kind"] in ("fixed", "fixed+learned") and rng.random() < 0.5:
                            c["hist_nocall"] = True
                        if base["kind"] == "mt":
                            t = rng.randint(2, 3)
                            c.update(t=t, rank=min(base["rank"], t), il=rng.random() < 0.5)
                        # a second, random change afterwards
                        tg = hist_targets(c)
                        t2 = rng.choice(sorted(tg))
                        if rng.random() < 0.5:      # property reads between the changes (observations: must be invisible)
                            c["ops"].append(["read", "*", 1])
                        c["ops"].append([t2, rng.choice(tg[t2])])
                        cfgs.append(c)
    # --- HeteroskedasticNoise (through _GaussianLikelihoodBase and at the noise-model level), Dirichlet, missing observations
    for _ in range(1 if quick else 10):
        for model in ("lin", "exactgp"):
            for callv in (False, True):
                for mode, nm_mode in (("train", "train"), ("eval", "train"), ("train", "eval"), ("eval", "eval")):
                    if quick and model == "exactgp" and mode != nm_mode:
                        continue
                    cfgs.append({"fam": "hetero", "model": model, "n": rng.randint(1, 5), "d": rng.randint(1, 3),
                                 "xb": rng.choice([[], [], [2]]) if model == "lin" else [], "call": callv, "mode": mode,
                                 "nm_mode": nm_mode, "seed": seed()})
        for _k in range(3):
            t = rng.randint(2, 4)
            k = rng.randint(1, t)
            cfgs.append({"fam": "hetero", "model": "tasks", "n": rng.randint(1, 4), "d": rng.randint(1, 3), "xb": [], "t": t,
                         "idx": [rng.randrange(t) for _i in range(k)] if rng.random() < 0.5 else sorted(rng.sample(range(t), k)),
                         "call": False, "mode": "train", "nm_mode": rng.choice(["train", "eval"]), "seed": seed()})
    for _ in range(1 if quick else 10):
        for learned in (False, True):
            for epsv in ("default", "own"):
                for callv in ("none", "none-other-size", "targets", "targets-no-top", "targets-one-class"):
                    nc = rng.randint(2, 4)
                    N = rng.randint(nc, nc + 4)
                    labels = list(range(nc)) + [rng.randrange(nc) for _i in range(N - nc)]
                    rng.shuffle(labels)
                    n = N if callv == "none" else rng.choice([x for x in range(1, 7) if x != N] + ([N] if callv != "none-other-size" else []))
                    call = None
                    if callv == "targets":
                        call = [rng.randrange(nc) for _i in range(n)]
                        call[rng.randrange(n)] = nc - 1
                    elif callv == "targets-no-top":
                        call = [rng.randrange(nc - 1) for _i in range(n)]
                    elif callv == "targets-one-class":
                        call = [0] * n
                    cfgs.append({"fam": "dir", "N": N, "nc": nc, "n": n, "labels": labels, "learned": learned,
                                 "eps": None if epsv == "default" else rng.choice([0.1, 0.05, 0.3, round(rng.uniform(0.02, 0.6), 3)]),
                                 "call": call, "seed": seed()})
    for _ in range(1 if quick else 10):
        for pattern in ("none", "some", "some", "all"):
            for callv in (False, True):
                lb = rng.choice([[], [2], [1]])
                db = rng.choice([[], [2], [3, 2]])
                cfgs.append({"fam": "miss", "n": rng.randint(1, 6), "lb": lb, "db": db, "pattern": pattern, "call": callv,
                             "seed": seed()})
    # --- property READS as history operations: build -> (use) -> read a public attribute 1..3 times -> use -> change ->
    #     read -> use, for EVERY public property getter / parameter of every likelihood kind and of its noise models
    #     (`noise`, `second_noise`, `task_noises`, `task_noise_covar`, `raw_*`, …; `*` = all of them), train and eval
    def hist_base(base, mode):
        c = dict(base)
        n = rng.randint(1, 4)
        n2 = rng.choice([x for x in (1, 2, 3, 4, 5) if x != n])
        lb = rng.choice([[], [2]])
        db = lb if (base["kind"] == "mt" or rng.random() < 0.5) else rng.choice([[], [2]])
        if base["kind"] == "mt" and not lb:
            db = rng.choice([[], [2]])
        nb = rng.choice([[], list(db)]) if base["kind"] != "mt" and base["kind"] != "gauss" else []
        c.update(fam="hist", mode=mode, n=n, n2=n2, lb=list(lb), db=list(db), nb=nb, nstored=n, call=None, seed=seed())
        if base["kind"] == "mt":
            t = rng.randint(2, 3)
            c.update(t=t, rank=min(base["rank"], t), il=rng.random() < 0.5)
        return c
    for _ in range(1 if quick else 5):
        for base in hk:
            names = read_names(base)
            for name in names + ["*", "*"]:
                c = hist_base(base, rng.choice(["train", "eval"]))
                tg = hist_targets(c)
                t2 = rng.choice(sorted(tg))
                c["ops"] = [["read", name, rng.randint(1, 3)], [t2, rng.choice(tg[t2])], ["read", name, 1]]
                c["short"] = True                   # one use after the change (the change histories above make three)
                if rng.random() < 0.3:
                    c["read_first"] = True          # the very first operation on the fresh object is the read
                if rng.random() < 0.5:
                    c["read_nograd"] = True         # reads under torch.no_grad() (logging code) and with autograd on
                if rng.random() < 0.5:
                    c["read_other_size"] = True
                if base["kind"] in ("fixed", "fixed+learned") and rng.random() < 0.5:
                    c["hist_nocall"] = True
                cfgs.append(c)
    # --- LikelihoodList: call-time lists with `None` entries in every position (leading, middle, trailing, all, random
    #     subsets).  A `None` entry = the member is called with noise=None = its own stored noise; nothing of another
    #     member's entry may reach it (per-member kwargs independence).
    for _ in range(1 if quick else 8):
        for method in ("call", "forward"):
            for nl in (2, 3, 4):
                pats = {"leading": [0], "trailing": [nl - 1], "all": list(range(nl)),
                        "random": sorted(rng.sample(range(nl), rng.randint(1, nl - 1)))}
                if nl > 2:
                    pats["middle"] = list(range(1, nl - 1))
                    pats["ends"] = [0, nl - 1]
                for pname, none_at in sorted(pats.items()):
                    common = rng.random() < 0.7          # same event size: a leaked noise is shape compatible
                    b = rng.choice([[], [], [2]])
                    n0 = rng.randint(1, 5)
                    members = []
                    for k in range(nl):
                        kind = rng.choice(["fixed", "fixed+learned"] if k in none_at else ["gauss", "fixed", "fixed+learned"])
                        n = n0 if common else rng.randint(1, 5)
                        members.append({"fam": "single", "kind": kind, "n": n, "lb": [], "db": list(b), "nb": rng.choice([[], list(b)]),
                                        "nstored": n, "call": list(b), "seed": seed()})
                    cfgs.append({"fam": "list", "members": members, "method": method, "nargs": nl, "nnoise": nl,
                                 "container": rng.choice(["list", "tuple"]), "none_at": none_at, "pattern": pname,
                                 "seed": seed()})
            # documented loud rejection: a GaussianLikelihood member called with noise=None raises, so the list raises
            members = [{"fam": "single", "kind": k, "n": 2, "lb": [], "db": [], "nb": [], "nstored": 2, "call": [], "seed": seed()}
                       for k in ("fixed", "gauss")]
            cfgs.append({"fam": "list", "members": members, "method": method, "nargs": 2, "nnoise": 2, "none_at": [1],
                         "pattern": "gauss-None", "seed": seed()})
    return cfgs


def run_cases(ctx, cfgs, oracle, pre_lines=()):
    """`pre_lines`: extra request lines sent with stage 1 (one driver start less); their replies go to ctx.notes."""
    import torch
    torch.set_num_threads(2)
    cases = []
    for cfg in cfgs:
        try:
            cases.append(RUN[cfg["fam"]](cfg))
        except Exception as e:  # harness-side failure: not a verdict about the implementation
            ctx.broke("correspondence", f"harness:{cfg['fam']}", f"{type(e).__name__}: {e} on {cfg}")
    # stage 1
    lines = list(pre_lines) + [l for c in cases for l in c.l1]
    rep = oracle(lines)
    for l, r in zip(pre_lines, rep):
        ctx.notes["reply:" + l] = r.split()
    p = len(pre_lines)
    for c in cases:
        k = len(c.l1)
        if c.after1 is not None and not (c.fails and not c.l1):
            try:
                c.after1(rep[p:p + k])
            except Exception as e:   # materialising / reading the implementation's output failed: a verdict on this case
                c.after2 = None
                c.l2 = []
                c.fail(f"raises:{_cell(c.cfg)}:output", f"evaluating the returned distribution raised {type(e).__name__}: "
                                                        f"{str(e)[:200]}")
        p += k
    # stage 2
    lines = [l for c in cases for l in c.l2]
    rep = oracle(lines)
    p = 0
    for c in cases:
        k = len(c.l2)
        if c.after2 is not None:
            try:
                c.after2(rep[p:p + k])
            except Exception as e:
                c.fail(f"raises:{_cell(c.cfg)}:output", f"comparing the returned distribution raised {type(e).__name__}: "
                                                        f"{str(e)[:200]}")
        p += k
    return cases


def _cell(cfg):
    if cfg["fam"] == "single":
        return f"{cfg['kind']}:{variant_of(cfg)}"
    if cfg["fam"] == "mt":
        return "multitask:" + variant_of(cfg)
    if cfg["fam"] == "hetero":
        return f"hetero:{cfg['model']}:{'calltime' if cfg['call'] else 'model'}:{cfg['mode']}/{cfg['nm_mode']}"
    if cfg["fam"] == "dir":
        c = cfg.get("call")
        return (f"dirichlet:{'learned' if cfg['learned'] else 'fixed'}:{'default-eps' if cfg['eps'] is None else 'eps'}:"
                f"{'stored' if c is None else ('targets-without-top-class' if max(c) + 1 != cfg['nc'] else 'targets')}"
                f"{'' if cfg['n'] == cfg['N'] else ':other-size'}")
    if cfg["fam"] == "miss":
        return f"missingobs:{cfg['pattern']}:{'calltime' if cfg['call'] else 'stored'}"
    if cfg["fam"] == "hist":
        return f"history:{cfg['kind']}:{cfg['mode']}:{cfg['ops'][0][0]}:{cfg['ops'][0][1]}"
    cont = "plain" if cfg["nnoise"] < 0 else cfg.get("container", "list")
    if cfg.get("none_at"):
        cont += "+None:" + cfg.get("pattern", "")
    mb = cfg["members"][0]["db"]
    return f"list:{cfg['method']}:{cont}:{'batch' + ('=k' if mb and mb[0] == len(cfg['members']) else '') if mb else 'nobatch'}"


def correspondence(ctx, use_driver=True):
    cfgs = gen_cfgs(ctx)
    oracle = Oracle(ctx, use_driver)
    # the regenerated table of property getters (translator: ast scan) vs the properties found by introspection of the
    # imported package, all of them observations (no writes)
    cases = run_cases(ctx, cfgs, oracle, pre_lines=["getters"])
    cells, sizes = {}, {}
    for c in cases:
        cfg = c.cfg
        cells[_cell(cfg)] = cells.get(_cell(cfg), 0) + 1
        sz = cfg["n"] * cfg.get("t", 1) if cfg["fam"] != "list" else len(cfg["members"])
        sizes[f"{cfg['fam']}:{sz}"] = sizes.get(f"{cfg['fam']}:{sz}", 0) + 1
        if c.rejected:
            ctx.count("rejected_by_real_code:" + c.rejected)
            ctx.case(cfg, nontrivial=False)
            continue
        ctx.case(cfg, nontrivial=c.nontrivial,
                 sample={"cell": _cell(cfg), "cfg": cfg, "driver_lines": len(c.l1) + len(c.l2)})
        for key, what in sorted(c.fails, key=lambda kw: not kw[0].startswith("marginal")):
            ctx.fail(key, what, cfg)
    ctx.notes["cells"] = cells
    ctx.notes["event_sizes"] = sizes


def search(ctx, broken):
    """The Lean side or the tie broke: decide against the property's specification evaluated by the
    independent Python mirror (does not depend on what broke)."""
    if ctx.failures:
        return
    correspondence(ctx, use_driver=False)


def replay(ctx, payload):
    try:    # the driver must run the definitions of the tree being replayed, not a stale generated file
        generate(ctx)
        C.lake_build(["GPVerif.Gen.NoiseModels"])
    except Exception:
        pass
    cfg = payload["case"]
    try:
        oracle = Oracle(ctx, True)
        cases = run_cases(ctx, [cfg], oracle)
    except RuntimeError:
        cases = run_cases(ctx, [cfg], Oracle(ctx, False))
    for c in cases:
        for key, what in c.fails:
            print(f"  {key}: {what}"[:400])
    return not any(c.fails for c in cases) and not ctx.broken
